#!/bin/bash
# revfix.sh <commit> <property> <check-id>...   : the reverse of a fix commit as a seeded change (the defect as found)
set -u
C="$1"; PROP="$2"; shift 2
NAME="revert-fix-$PROP-$C"
D=/tmp/mut-rev/$NAME
mkdir -p $D
git -C /repo diff $C $C^ -- . > $D/patch.diff
cat > $D/NOTES.md <<EON
Reverse of fix commit $C ($(git -C /repo log --format=%s -n 1 $C)): re-introduces the defect found on the pinned tree.
EON
cd /verif && ./seedtest.sh $D $NAME $PROP "$@" 2>&1 | grep -E "check C|confirmed"
