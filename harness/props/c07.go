package props

import (
	"context"
	"errors"
	"fmt"
	"runtime"
	"strings"
	"sync/atomic"
	"time"

	"github.com/openziti/storage/boltz"
	"verif/harness/internal/core"
	"verif/harness/internal/dump"
	"verif/harness/internal/kmodel"
)

var errInjected = errors.New("verif: injected storage error")
var errVeto = errors.New("verif: constraint veto")
var errCaller = errors.New("verif: caller error")
var errPreCommit = errors.New("verif: pre-commit action error")

// c07State is the per-engine instrumentation: callback counters, veto control, hook control.
type c07State struct {
	events      atomic.Int64 // post-commit listener deliveries
	postCommits atomic.Int64 // constraint ProcessPostCommit calls
	commitActs  atomic.Int64
	txComplete  atomic.Int64
	preCalls    int // ProcessPreCommit calls in the current attempt
	vetoAt      int // veto the k-th ProcessPreCommit call (0 = never)
	vetoFired   bool
	lastVetoOn  string
	hookCalls   int
	failAt      int // fail the n-th write primitive (0 = never)
	hookFired   bool
	firedPoint  string
	sites       []string // store:type:parent=.. of every ProcessPreCommit call of the current attempt
}

type vetoConstraint struct {
	s     *c07State
	store string
}

func (v *vetoConstraint) ProcessPreCommit(st boltz.UntypedEntityChangeState) error {
	v.s.preCalls++
	v.s.sites = append(v.s.sites, fmt.Sprintf("%s:%v:parent=%v", v.store, st.GetChangeType(), st.IsParentEvent()))
	if v.s.vetoAt > 0 && v.s.preCalls == v.s.vetoAt {
		v.s.vetoFired = true
		v.s.lastVetoOn = fmt.Sprintf("%s:%v:parent=%v", v.store, st.GetChangeType(), st.IsParentEvent())
		return errVeto
	}
	return nil
}

func (v *vetoConstraint) ProcessPostCommit(boltz.UntypedEntityChangeState) { v.s.postCommits.Add(1) }

// settledGoroutines waits until the goroutine count has not changed for 30 ms (leftovers of an
// earlier case on this worker must not inflate the baseline) and returns it.
func settledGoroutines() int {
	last := runtime.NumGoroutine()
	stable := 0
	for i := 0; i < 3000 && stable < 30; i++ {
		time.Sleep(time.Millisecond)
		n := runtime.NumGoroutine()
		if n == last {
			stable++
		} else {
			stable = 0
			last = n
		}
	}
	return last
}

func quiesce(baseline int) bool {
	for i := 0; i < 2000; i++ {
		if runtime.NumGoroutine() <= baseline {
			return true
		}
		if i < 50 {
			runtime.Gosched()
		} else {
			time.Sleep(time.Millisecond)
		}
	}
	return false
}

func init() {
	core.Register(&core.Property{
		ID:    "C07",
		Level: "fault_enumeration",
		Rule: "for every generated transaction body (1-5 store operations over schema K with child stores, on a populated database) every failure kind is injected at every position: " +
			"storage error at the n-th boltz write primitive for n = 1..W (W counted by a dry run through the verif hook), caller error after p operations (p = 0..len), constraint veto at the k-th ProcessPreCommit call (k = 1..K), " +
			"a rejected store operation (duplicate / missing fk target / validation / restrict) spliced at every position, pre-commit action error (first / middle / last of three); via Db.Update and (a tenth) Db.Batch. " +
			"Oracle per injection: Db.Update returns non-nil, the store call during which the failure was raised returns non-nil, full-file dump identical to before, zero listener / post-commit / commit-action / tx-complete callbacks, " +
			"and the body then commits normally with exactly one commit action and tx-complete callback. migration manager cases: Migrate over 1-4 steps, three rounds per database; one step fails through step.SetError (returned version unchanged or advanced), after a rejected store operation, or through a pre-commit action it registered: Migrate must return the error, dump, recorded version and commit-action count unchanged; without a failing step the target version is recorded, the steps ran once each in order, their writes and commit actions are there. " +
			"context reuse cases: one MutateContext (ordinary or system) carried through 3-6 transactions via Update / Batch, each registering its own pre-commit and commit action and committing or failing (caller error before / after registering, rejected operation, failing pre-commit action): a commit action runs exactly once iff its transaction committed, every action runs only with its own transaction, a later transaction is not failed by an earlier one's pre-commit action; in a third of these cases the next transaction starts while the previous one's commit actions are still running (two actions per transaction, the first one held back). " +
			"non-trivial = distinct (failure kind, op kind at the failing position, hook point or veto site) with at least one earlier successful op",
		Assumptions: []string{"storage errors are injected at the boltz write primitives (verif hook), not inside bbolt's commit", "quiescence of asynchronous callbacks is awaited by goroutine-count baseline"},
		Plan: func(tier core.Tier, seed int64) int {
			if tier == core.Thorough {
				return 30000 + c07ValueCases*4 + c07MigCases*4 + c07ReuseCases*8
			}
			return 64 + c07ValueCases + c07MigCases + c07ReuseCases
		},
		Run: runC07,
		Promises: func(core.Tier) map[string][]string {
			return map[string][]string{"unsupported_value": {"top level", "inside a list", "inside a map inside a list", "inside a list inside a map", "last element of a long list", "inside a nested map"}, "migration_failure": c07MigFailKinds, "failure_kind": {"storage", "caller", "veto", "rejected-op", "precommit", "batch-storage"}, "precommit_registration": {"before-call batch=false", "before-call batch=true"},
				"veto_site": {"emps:1:parent=false", "emps:2:parent=false", "emps:3:parent=true", "emps/xt:3:parent=false", "depts:3:parent=false", "emps/ext:3:parent=false", "emps:1:parent=true", "emps:2:parent=true"}}
		},
		MinCounters: func(core.Tier) map[string]int64 {
			return map[string]int64{"injections": 1500, "bodies_committed": 100, "migrations_with_a_failing_step": 20, "migrations_completed": 10, "context_reuse_histories": 10, "context_reuse_histories_with_overlapping_commit_actions": 6}
		},
	})
}

func runC07(c *core.Ctx, idx int) {
	nEnum := 64
	if c.Tier == core.Thorough {
		nEnum = 30000
	}
	nVal := c07ValueCases
	if c.Tier == core.Thorough {
		nVal = c07ValueCases * 4
	}
	nMig := c07MigCases
	if c.Tier == core.Thorough {
		nMig = c07MigCases * 4
	}
	if idx >= nEnum+nVal+nMig {
		c07ReuseCase(c, idx-nEnum-nVal-nMig)
		return
	}
	if idx >= nEnum+nVal {
		c07MigCase(c, idx-nEnum-nVal)
		return
	}
	if idx >= nEnum {
		c07ValueCase(c, idx-nEnum)
		return
	}
	r := c.Rand()
	cfg := c15Configs[idx%len(c15Configs)]
	e, err := kmodel.NewEngine(c, cfg)
	if err != nil {
		c.Violation("C07 setup", err.Error(), nil)
		return
	}
	defer e.Close()
	defer boltz.VerifSetHook(nil)
	s := &c07State{}
	for _, k := range e.Sc.Order {
		st := e.Sc.St(k)
		st.Store.AddListener(func(boltz.Entity) { s.events.Add(1) }, boltz.EntityCreated, boltz.EntityUpdated, boltz.EntityDeleted)
		st.Store.AddListener(func(boltz.Entity) { s.events.Add(1) }, boltz.EntityCreatedAsync, boltz.EntityUpdatedAsync, boltz.EntityDeletedAsync)
		st.Store.AddUntypedEntityConstraint(&vetoConstraint{s: s, store: k})
	}
	e.Db.AddTxCompleteListener(func(boltz.MutateContext) { s.txComplete.Add(1) })
	boltz.VerifSetHook(func(point string) error {
		s.hookCalls++
		if s.failAt > 0 && s.hookCalls == s.failAt {
			s.hookFired = true
			s.firedPoint = point
			return errInjected
		}
		return nil
	})
	baseline := settledGoroutines()

	// populate
	for t := 0; t < 12; t++ {
		e.RunTx(e.GenTx(r, 4, false), "C07 warm-up")
	}
	quiesce(baseline)
	e.W = map[string]int{"create": 8, "update": 6, "patch": 6, "delete": 8, "deletewhere": 4, "addlinks": 3, "setlinks": 3, "removelinks": 1, "rcinc": 3, "rcdec": 2, "rcset": 2}

	type inj struct {
		kind   string
		n      int        // storage: n-th primitive; caller: after p ops; veto: k-th call; precommit: which of three
		splice *kmodel.Op // rejected op spliced at position n
		batch  bool
		pre    bool // precommit: actions registered on the context before the call
	}

	// runBody executes ops (+ injection) in one transaction and returns the tx error plus per-op errors.
	runBody := func(ops []kmodel.Op, in *inj) (error, []error, int) {
		s.failAt, s.vetoAt = 0, 0
		s.hookFired, s.vetoFired = false, false
		s.firedPoint, s.lastVetoOn = "", ""
		var opErrs []error
		failedOp := -1
		var ctx boltz.MutateContext = boltz.NewMutateContext(context.Background())
		// context routes: actions may be registered on the context the transaction was opened with, on a system
		// context derived inside the body, or the transaction may be opened with a system context
		route := 0
		if in != nil {
			route = (in.n + len(ops)) % 3
		} else {
			route = len(ops) % 3
		}
		if route == 2 {
			ctx = boltz.NewSystemMutateContext(ctx)
		}
		// pre-commit actions are registered either inside the body (on every attempt) or once, on the context,
		// before Db.Update / Db.Batch is called
		preRegistered := in != nil && in.kind == "precommit" && in.pre
		if preRegistered {
			for i := 0; i < 3; i++ {
				i := i
				ctx.AddPreCommitAction(func(boltz.MutateContext) error {
					if i == in.n {
						return errPreCommit
					}
					return nil
				})
			}
			c.Cover("precommit_registration", fmt.Sprintf("before-call batch=%v", in.batch))
		}
		body := func(ctx boltz.MutateContext) error {
			reg := ctx
			if route == 1 {
				reg = ctx.GetSystemContext()
			}
			// (re)arm per attempt: bbolt's Batch may run the body twice
			s.hookCalls, s.preCalls = 0, 0
			s.sites = nil
			s.failAt, s.vetoAt = 0, 0
			opErrs = nil
			failedOp = -1
			if in != nil {
				switch in.kind {
				case "storage":
					s.failAt = in.n
				case "veto":
					s.vetoAt = in.n
				case "precommit":
					for i := 0; i < 3 && !preRegistered; i++ {
						i := i
						reg.AddPreCommitAction(func(boltz.MutateContext) error {
							if i == in.n {
								return errPreCommit
							}
							return nil
						})
					}
				}
			}
			reg.AddCommitAction(func() { s.commitActs.Add(1) })
			c.Cover("ctx_route", []string{"opened-plain", "derived-system", "opened-system"}[route])
			for i := range ops {
				if in != nil && in.kind == "caller" && in.n == i {
					return errCaller
				}
				if in != nil && in.kind == "rejected-op" && in.n == i {
					op := *in.splice
					if err := e.Apply(ctx, &op); err != nil {
						return err
					}
					opErrs = append(opErrs, nil)
					return nil // accepted although predicted rejected: judged below through the dump
				}
				op := ops[i]
				firedBefore := s.hookFired || s.vetoFired
				sitesBefore := len(s.sites)
				err := e.Apply(ctx, &op)
				opErrs = append(opErrs, err)
				if err == nil && strings.Contains(op.Store, "/") && (op.Kind == "create" || op.Kind == "update" || op.Kind == "patch") {
					// a change made through a child store: the constraints of the child store and (as a parent event)
					// those of the parent store are consulted, each exactly once
					own, parent := 0, 0
					for _, site := range s.sites[sitesBefore:] {
						if strings.HasPrefix(site, op.Store+":") && strings.HasSuffix(site, "parent=false") {
							own++
						}
						if strings.HasPrefix(site, kmodel.Emps+":") && strings.HasSuffix(site, "parent=true") {
							parent++
						}
					}
					c.Count("child_store_changes_with_constraint_sites_checked", 1)
					if own != 1 || parent != 1 {
						c.Violationf("C07 constraints not consulted once each for a change through a child store ("+op.Kind+" through "+op.Store+")", map[string]any{"cfg": cfg.String(), "body": ops, "op_index": i},
							"pre-commit constraint calls during the operation: %v (child store's own: %d, parent store's as parent event: %d)", s.sites[sitesBefore:], own, parent)
					}
				}
				if !firedBefore && (s.hookFired || s.vetoFired) && err == nil {
					failedOp = i // a step of this call failed, yet it reported success
				}
				if err != nil {
					return err
				}
			}
			if in != nil && in.kind == "caller" && in.n == len(ops) {
				return errCaller
			}
			if in != nil && in.kind == "rejected-op" && in.n == len(ops) {
				op := *in.splice
				if err := e.Apply(ctx, &op); err != nil {
					return err
				}
			}
			return nil
		}
		var err error
		if in != nil && in.batch {
			err = e.Db.Batch(ctx, body)
		} else {
			err = e.Db.Update(ctx, body)
		}
		return err, opErrs, failedOp
	}

	nBodies := 4
	for b := 0; b < nBodies; b++ {
		ops := e.GenTx(r, 5, false)
		if len(ops) == 0 {
			continue
		}
		before := dumpDb(e)
		// dry run: count hook and pre-commit calls, roll back through a caller error at the end
		errDry, _, _ := runBody(ops, &inj{kind: "caller", n: len(ops)})
		W, K := s.hookCalls, s.preCalls
		if errDry == nil {
			c.Violationf("C07 caller error not returned by Db.Update", ops, "dry run returned nil")
		}
		var injections []inj
		for n := 1; n <= W; n++ {
			injections = append(injections, inj{kind: "storage", n: n, batch: n%10 == 0})
		}
		for p := 0; p < len(ops); p++ {
			injections = append(injections, inj{kind: "caller", n: p})
		}
		for k := 1; k <= K; k++ {
			injections = append(injections, inj{kind: "veto", n: k, batch: k%7 == 0})
		}
		for i := 0; i < 3; i++ {
			injections = append(injections, inj{kind: "precommit", n: i}, inj{kind: "precommit", n: i, pre: true}, inj{kind: "precommit", n: i, pre: i != 1, batch: true})
		}
		// rejected operations at every position: generated against the model state after the first p ops
		for p := 0; p <= len(ops); p++ {
			scratch := e.M.Clone()
			okPrefix := true
			for i := 0; i < p; i++ {
				cp := ops[i]
				if pr, _ := kmodel.Predict(scratch, &cp); pr.Exp != kmodel.ExpOK {
					okPrefix = false
				}
			}
			if !okPrefix {
				continue
			}
			for tries := 0; tries < 40; tries++ {
				op := e.GenOp(r, scratch, true)
				cp := op
				pr, _ := kmodel.Predict(scratch.Clone(), &cp)
				if pr.Skip || pr.Exp == kmodel.ExpOK {
					continue
				}
				cp.Exp, cp.Why = pr.Exp, pr.Why
				injections = append(injections, inj{kind: "rejected-op", n: p, splice: &cp})
				break
			}
		}
		for _, in := range injections {
			in := in
			ev0, pc0, ca0, tc0 := s.events.Load(), s.postCommits.Load(), s.commitActs.Load(), s.txComplete.Load()
			err, opErrs, failedOp := runBody(ops, &in)
			quiet := quiesce(baseline)
			c.Eval()
			c.Count("injections", 1)
			kind := in.kind
			if in.batch && in.kind == "storage" {
				kind = "batch-storage"
			}
			c.Cover("failure_kind", kind)
			info := map[string]any{"cfg": cfg.String(), "body": ops, "injection": fmt.Sprintf("%s@%d batch=%v", in.kind, in.n, in.batch), "hook_point": s.firedPoint, "veto_site": s.lastVetoOn, "spliced": in.splice}
			took := true
			opKind := "-"
			switch in.kind {
			case "storage":
				took = s.hookFired
				if len(opErrs) > 0 {
					opKind = ops[len(opErrs)-1].Kind
				}
				if took {
					c.Cover("hook_point", s.firedPoint)
					c.Nontrivial("storage", opKind, s.firedPoint, len(opErrs) > 1)
				}
			case "veto":
				took = s.vetoFired
				if len(opErrs) > 0 {
					opKind = ops[len(opErrs)-1].Kind
				}
				if took {
					c.Cover("veto_site", s.lastVetoOn)
					c.Nontrivial("veto", opKind, s.lastVetoOn, len(opErrs) > 1)
				}
			case "rejected-op":
				opKind = in.splice.Kind
				c.Cover("rejected_op", in.splice.Kind+":"+in.splice.Exp)
				c.Nontrivial("rejected-op", opKind, in.splice.Exp, in.n > 0)
			default:
				c.Nontrivial(in.kind, in.n, len(ops))
			}
			if !took {
				// the dry run and this run diverged (hook position not reached): body committed legitimately
				c.Count("injection_not_reached", 1)
				if err == nil {
					// re-apply to the model so that both stay in step
					for i := range ops {
						cp := ops[i]
						kmodel.Predict(e.M, &cp)
					}
					before = dumpDb(e)
				}
				continue
			}
			if failedOp >= 0 {
				c.Violationf("C07 store call reported success although a step failed: "+ops[failedOp].Kind+" ("+in.kind+" at "+s.firedPoint+s.lastVetoOnIf(in.kind)+")", info,
					"op %d %s returned nil although %s was raised during it", failedOp, ops[failedOp].String(), in.kind)
			}
			if err == nil {
				c.Violationf("C07 transaction reported success after failure: "+in.kind+" during "+opKind, info, "Db.Update/Batch returned nil (injection %s@%d)", in.kind, in.n)
			}
			after := dumpDb(e)
			if before.Hash() != after.Hash() {
				c.Violationf("C07 failed transaction changed the database: "+in.kind+" during "+opKind, info, "diff: %v", dump.Diff(before, after, nil, 6))
				// resynchronise
				e.Resync()
				before = after
			}
			if !quiet {
				c.Count("quiescence_timeouts", 1)
			}
			if d := s.events.Load() - ev0; d != 0 {
				c.Violationf("C07 listener ran for a failed transaction: "+in.kind, info, "%d listener deliveries", d)
			}
			if d := s.postCommits.Load() - pc0; d != 0 {
				c.Violationf("C07 post-commit constraint ran for a failed transaction: "+in.kind, info, "%d ProcessPostCommit calls", d)
			}
			if d := s.commitActs.Load() - ca0; d != 0 {
				c.Violationf("C07 commit action ran for a failed transaction: "+in.kind, info, "%d commit actions", d)
			}
			if d := s.txComplete.Load() - tc0; d != 0 {
				c.Violationf("C07 tx-complete listener ran for a failed transaction: "+in.kind, info, "%d calls", d)
			}
		}
		// finally the healthy run
		ca0, tc0 := s.commitActs.Load(), s.txComplete.Load()
		err, _, _ := runBody(ops, nil)
		quiesce(baseline)
		c.Eval()
		if err != nil {
			c.Violationf("C07 healthy transaction failed after injections", map[string]any{"cfg": cfg.String(), "body": ops}, "%v", err)
			e.Resync()
			continue
		}
		c.Count("bodies_committed", 1)
		for i := range ops {
			cp := ops[i]
			kmodel.Predict(e.M, &cp)
		}
		if d := s.commitActs.Load() - ca0; d != 1 {
			c.Violationf("C07 commit action count for a committed transaction", ops, "%d commit actions, expected 1", d)
		}
		if d := s.txComplete.Load() - tc0; d != 1 {
			c.Violationf("C07 tx-complete count for a committed transaction", ops, "%d calls, expected 1", d)
		}
		ds := e.Check("C07 after commit", map[string]any{"cfg": cfg.String(), "body": ops})
		if len(ds) > 0 {
			e.Resync()
		}
		if c.WantSample() {
			c.Sample(map[string]any{"cfg": cfg.String(), "body": fmt.Sprint(ops), "write_primitives": W, "precommit_calls": K, "injections": len(injections)})
		}
	}
}

func (s *c07State) lastVetoOnIf(kind string) string {
	if kind == "veto" {
		return s.lastVetoOn
	}
	return ""
}
