package props

import (
	"bytes"
	"context"
	"fmt"
	"math"
	"os"
	"reflect"
	"sort"
	"strings"
	"time"

	"github.com/openziti/storage/boltz"
	"go.etcd.io/bbolt"
	"verif/harness/internal/core"
)

// ---- value pools ----

var c13Strings = func() []string {
	big := strings.Repeat("x", 32*1024)
	return []string{"", "a", " ", "A b", "\x00", "a\x00b", "\xff", "\xff\xfe\x00", "é", "日本語", "\n\t\r\f", `"`, `\`, `\n`, "null", "true", "0", big, "\x05", "\x07", "\x01\x02\x03\x04\x05\x06\x07"}
}()
var c13Int32 = []int32{0, 1, -1, math.MaxInt32, math.MinInt32, 255, 256, -256, 65536}
var c13Int64 = []int64{0, 1, -1, math.MaxInt64, math.MinInt64, math.MaxInt32, math.MinInt32, 1 << 31, -(1 << 31) - 1, 1 << 53, 255, 256}
var c13Floats = []float64{0, math.Copysign(0, -1), 1, -1, 0.5, 0.1, math.Inf(1), math.Inf(-1), math.NaN(), math.Float64frombits(0x7ff8000000000001), math.SmallestNonzeroFloat64, -math.SmallestNonzeroFloat64,
	math.MaxFloat64, -math.MaxFloat64, 2.2250738585072014e-308, 1e-320, 1 << 53, 1e21, 123456789.125}
var c13Times = func() []time.Time {
	z1 := time.FixedZone("odd", 5*3600+45*60+13)
	z2 := time.FixedZone("neg", -(11*3600 + 30*60))
	return []time.Time{
		time.Date(1, 1, 1, 0, 0, 0, 0, time.UTC), time.Date(9999, 12, 31, 23, 59, 59, 999999999, time.UTC),
		time.Date(2024, 2, 29, 12, 0, 0, 1, z1), time.Date(1969, 12, 31, 23, 59, 59, 999999999, z2), time.Date(1970, 1, 1, 0, 0, 0, 0, time.UTC),
		time.Date(2038, 1, 19, 3, 14, 8, 0, z1), time.Unix(0, 1).In(z2), time.Date(2020, 6, 15, 10, 30, 0, 123456789, time.Local),
		// zones whose offset is no whole number of minutes, or minus one minute (the value time's binary form reserves)
		time.Date(2021, 3, 4, 5, 6, 7, 8, time.FixedZone("m1", -60)), time.Date(2021, 3, 4, 5, 6, 7, 0, time.FixedZone("s90", -90)), time.Date(1900, 1, 1, 0, 0, 0, 0, time.FixedZone("lmt", 53*60+28)),
	}
}()

func floatEq(a, b float64) bool { return math.Float64bits(a) == math.Float64bits(b) }

// c13Db opens a scratch database.
type c13Db struct {
	db   *bbolt.DB
	path string
}

func openC13(c *core.Ctx) (*c13Db, error) {
	p := c.TempFile("c13")
	db, err := bbolt.Open(p, 0600, nil)
	if err != nil {
		return nil, err
	}
	return &c13Db{db: db, path: p}, nil
}

func (d *c13Db) close() { _ = d.db.Close(); _ = os.Remove(d.path) }

func (d *c13Db) update(f func(b *boltz.TypedBucket)) error {
	return d.db.Update(func(tx *bbolt.Tx) error {
		b := boltz.GetOrCreatePath(tx, "root", "ent")
		if b.HasError() {
			return b.GetError()
		}
		f(b)
		return b.GetError()
	})
}

func (d *c13Db) view(f func(b *boltz.TypedBucket)) {
	_ = d.db.View(func(tx *bbolt.Tx) error {
		b := boltz.Path(tx, "root", "ent")
		if b != nil {
			f(b)
		}
		return nil
	})
}

// ---- nested values ----

func genNested(r *core.Rand, depth int) any {
	k := r.Intn(12)
	if depth <= 0 && k >= 10 {
		k = r.Intn(10)
	}
	switch k {
	case 0:
		return nil
	case 1:
		return core.Pick(r, c13Strings[:17])
	case 2:
		return core.Pick(r, c13Int32)
	case 3:
		return core.Pick(r, c13Int64)
	case 4:
		return int(core.Pick(r, c13Int32))
	case 5:
		return core.Pick(r, c13Floats)
	case 6:
		return float32(core.Pick(r, []float64{0, 0.5, -1.25, 3e10, math.Inf(1)}))
	case 7:
		return r.Bool()
	case 8:
		return core.Pick(r, c13Times)
	case 9:
		return ""
	case 10:
		m := map[string]any{}
		n := r.Intn(4)
		for i := 0; i < n; i++ {
			m[core.Pick(r, []string{"k", "K", "a b", "é", "\x00", "\xff", "0", "id", "tags", "x.y", "k/1", strings.Repeat("k", 300)})] = genNested(r, depth-1)
		}
		return m
	default:
		n := r.Intn(4)
		l := make([]any, n)
		for i := range l {
			l[i] = genNested(r, depth-1)
		}
		return l
	}
}

// expectNested maps a written value to what must be read back.
func expectNested(v any) any {
	switch t := v.(type) {
	case int:
		return int64(t)
	case float32:
		return float64(t)
	case map[string]any:
		m := map[string]any{}
		for k, x := range t {
			m[k] = expectNested(x)
		}
		return m
	case []any:
		l := make([]any, len(t))
		for i, x := range t {
			l[i] = expectNested(x)
		}
		return l
	}
	return v
}

func nestedEq(exp, act any) bool {
	switch e := exp.(type) {
	case nil:
		return act == nil
	case float64:
		a, ok := act.(float64)
		return ok && floatEq(e, a)
	case time.Time:
		a, ok := act.(time.Time)
		return ok && e.Equal(a)
	case map[string]any:
		a, ok := act.(map[string]any)
		if !ok || len(a) != len(e) {
			return false
		}
		for k, x := range e {
			y, present := a[k]
			if !present || !nestedEq(x, y) {
				return false
			}
		}
		return true
	case []any:
		a, ok := act.([]any)
		if !ok || len(a) != len(e) {
			return false
		}
		for i := range e {
			if !nestedEq(e[i], a[i]) {
				return false
			}
		}
		return true
	}
	return reflect.DeepEqual(exp, act)
}

func hasEmptyKey(v any) bool {
	switch t := v.(type) {
	case map[string]any:
		for k, x := range t {
			if k == "" || hasEmptyKey(x) {
				return true
			}
		}
	case []any:
		for _, x := range t {
			if hasEmptyKey(x) {
				return true
			}
		}
	}
	return false
}

func short(v any) string {
	s := fmt.Sprintf("%#v", v)
	if len(s) > 200 {
		s = s[:200] + "..."
	}
	return s
}

// ---- field checker subsets ----

type c13Field struct {
	name  string
	write func(b *boltz.TypedBucket, pc *boltz.PersistContext, viaCtx bool, variant int, ck boltz.FieldChecker)
	read  func(b *boltz.TypedBucket) any
	eq    func(a, b any) bool
}

func sp(s string) *string { return &s }

var c13SA = []any{"old-s", "old-p", int32(11), int64(1111), 1.5, true, c13Times[2], []string{"x", "y"}, map[string]any{"k": "old"}, "old-gs", []string{"l1"}, "old-req"}
var c13SB = []any{"new-s", "", int32(-22), int64(-2222), math.Inf(-1), false, c13Times[3], []string{"z"}, map[string]any{"n": int64(2)}, "new-gs", []string{"l2", "l3"}, "new-req"}

func c13Fields() []c13Field {
	deq := func(a, b any) bool { return nestedEq(a, b) }
	return []c13Field{
		{"f_str", func(b *boltz.TypedBucket, pc *boltz.PersistContext, via bool, v int, ck boltz.FieldChecker) {
			val := c13S(v)[0].(string)
			if via {
				pc.SetString("f_str", val)
			} else {
				b.SetString("f_str", val, ck)
			}
		}, func(b *boltz.TypedBucket) any { return derefS(b.GetString("f_str")) }, deq},
		{"f_strp", func(b *boltz.TypedBucket, pc *boltz.PersistContext, via bool, v int, ck boltz.FieldChecker) {
			var p *string
			if v == 0 {
				p = sp(c13SA[1].(string))
			} // variant 1 writes a nil pointer
			if via {
				pc.SetStringP("f_strp", p)
			} else {
				b.SetStringP("f_strp", p, ck)
			}
		}, func(b *boltz.TypedBucket) any { return derefS(b.GetString("f_strp")) }, deq},
		{"f_i32", func(b *boltz.TypedBucket, pc *boltz.PersistContext, via bool, v int, ck boltz.FieldChecker) {
			val := c13S(v)[2].(int32)
			if via {
				pc.SetInt32("f_i32", val)
			} else {
				b.SetInt32("f_i32", val, ck)
			}
		}, func(b *boltz.TypedBucket) any { return derefAny(b.GetInt32("f_i32")) }, deq},
		{"f_i64", func(b *boltz.TypedBucket, pc *boltz.PersistContext, via bool, v int, ck boltz.FieldChecker) {
			val := c13S(v)[3].(int64)
			if via {
				pc.SetInt64("f_i64", val)
			} else {
				b.SetInt64("f_i64", val, ck)
			}
		}, func(b *boltz.TypedBucket) any { return derefAny(b.GetInt64("f_i64")) }, deq},
		{"f_f64", func(b *boltz.TypedBucket, pc *boltz.PersistContext, via bool, v int, ck boltz.FieldChecker) {
			b.SetFloat64("f_f64", c13S(v)[4].(float64), ck)
		}, func(b *boltz.TypedBucket) any { return derefAny(b.GetFloat64("f_f64")) }, deq},
		{"f_bool", func(b *boltz.TypedBucket, pc *boltz.PersistContext, via bool, v int, ck boltz.FieldChecker) {
			val := c13S(v)[5].(bool)
			if via {
				pc.SetBool("f_bool", val)
			} else {
				b.SetBool("f_bool", val, ck)
			}
		}, func(b *boltz.TypedBucket) any { return derefAny(b.GetBool("f_bool")) }, deq},
		{"f_time", func(b *boltz.TypedBucket, pc *boltz.PersistContext, via bool, v int, ck boltz.FieldChecker) {
			t := c13S(v)[6].(time.Time)
			var p *time.Time
			if v == 0 {
				p = &t
			} // variant 1 writes a nil pointer
			if via {
				pc.SetTimeP("f_time", p)
			} else if v == 0 {
				b.SetTime("f_time", t, ck)
			} else {
				b.SetTimeP("f_time", p, ck)
			}
		}, func(b *boltz.TypedBucket) any { return derefAny(b.GetTime("f_time")) }, deq},
		{"f_list", func(b *boltz.TypedBucket, pc *boltz.PersistContext, via bool, v int, ck boltz.FieldChecker) {
			val := c13S(v)[7].([]string)
			if via {
				pc.SetStringList("f_list", val)
			} else {
				b.SetStringList("f_list", val, ck)
			}
		}, func(b *boltz.TypedBucket) any { return b.GetStringList("f_list") }, func(a, b any) bool { return reflect.DeepEqual(a, b) }},
		{"f_map", func(b *boltz.TypedBucket, pc *boltz.PersistContext, via bool, v int, ck boltz.FieldChecker) {
			val := c13S(v)[8].(map[string]any)
			if via {
				pc.SetMap("f_map", val)
			} else {
				b.PutMap("f_map", val, ck, true)
			}
		}, func(b *boltz.TypedBucket) any { return b.GetMap("f_map") }, deq},
		{"f_gs", func(b *boltz.TypedBucket, pc *boltz.PersistContext, via bool, v int, ck boltz.FieldChecker) {
			val := c13S(v)[9].(string)
			if via {
				pc.GetAndSetString("f_gs", val)
			} else {
				b.GetAndSetString("f_gs", val, ck)
			}
		}, func(b *boltz.TypedBucket) any { return derefS(b.GetString("f_gs")) }, deq},
		{"f_gl", func(b *boltz.TypedBucket, pc *boltz.PersistContext, via bool, v int, ck boltz.FieldChecker) {
			val := c13S(v)[10].([]string)
			if via {
				pc.GetAndSetStringList("f_gl", val)
			} else {
				b.GetAndSetStringList("f_gl", val, ck)
			}
		}, func(b *boltz.TypedBucket) any { return b.GetStringList("f_gl") }, func(a, b any) bool { return reflect.DeepEqual(a, b) }},
		{"f_req", func(b *boltz.TypedBucket, pc *boltz.PersistContext, via bool, v int, ck boltz.FieldChecker) {
			val := c13S(v)[11].(string)
			if via {
				pc.SetRequiredString("f_req", val)
			} else {
				b.SetString("f_req", val, ck)
			}
		}, func(b *boltz.TypedBucket) any { return derefS(b.GetString("f_req")) }, deq},
	}
}

func derefS(p *string) any {
	if p == nil {
		return nil
	}
	return *p
}

func derefAny(p any) any {
	v := reflect.ValueOf(p)
	if v.IsNil() {
		return nil
	}
	return v.Elem().Interface()
}

type noStore struct{ boltz.Store }

const (
	c13Scalars  = 0 // case kinds
	c13Nested   = 1
	c13Checkers = 2
	c13Codec    = 3
)

func init() {
	core.Register(&core.Property{
		ID:    "C13",
		Level: "exploration",
		Rule: "(1) every TypedBucket setter/getter pair written in one transaction and read in a later one over boundary pools (strings incl. empty, NUL, 0xff, 32 kB; int32/int64 extremes; floats incl. +-0, +-Inf, NaN payloads, subnormals; " +
			"times at year 1/9999, ns precision, odd zones; nil vs empty string; string lists with duplicates/empty element); (2) random maps/lists nested to depth 4 (and lists of 255-65537 elements) with nulls, empty containers, int/int32/int64/float32/float64/bool/time through PutMap/GetMap/PutList/GetList; " +
			"(3) all 2^12 field-checker subsets over 12 fields of all kinds written through TypedBucket setters and through PersistContext wrappers (including nil pointers), the restricted write offering new values and, for half of the subsets, zero values / empty containers / nil containers; (3b) the same 12 fields written through a persist context on which one or two override tables (storage field -> API name) were registered with WithFieldOverrides, the caller's checker a plain or a mapped one, the SAME checker object used for four writes with different table sets: exactly the fields whose translated name is selected change, and neither table nor the caller's mapping is modified; (4) compound keys: all lists of length <= 3 over a 7-string alphabet plus random long lists, round trip and pairwise-distinct encodings. " +
			"non-trivial = distinct (setter, value) / nested value digests / checker subsets / lists",
		Assumptions: []string{"the reserved list-size key name is not used as a map key", "map keys are non-empty (an empty key is an unusable bolt key: C07)", "NaN compared by bit pattern"},
		Exhaustive:  func(t core.Tier) bool { return false },
		Plan: func(tier core.Tier, seed int64) int {
			if tier == core.Thorough {
				return 4 + 60000 + 64 + 2000 + c13OverrideCases*8
			}
			return 4 + 300 + 16 + 20 + c13OverrideCases
		},
		Run: runC13,
	})
}

func runC13(c *core.Ctx, idx int) {
	nNested, nCk, nCodec := 300, 16, 20
	if c.Tier == core.Thorough {
		nNested, nCk, nCodec = 60000, 64, 2000
	}
	switch {
	case idx >= 4+nNested+nCk+nCodec:
		c13OverrideCase(c, idx-4-nNested-nCk-nCodec)
	case idx < 4:
		c13ScalarCase(c, idx)
	case idx < 4+nNested:
		c13NestedCase(c)
	case idx < 4+nNested+nCk:
		c13CheckerCase(c, idx-4-nNested, nCk)
	default:
		c13CodecCase(c, idx-4-nNested-nCk)
	}
}

func c13ScalarCase(c *core.Ctx, part int) {
	d, err := openC13(c)
	if err != nil {
		c.Violation("C13 setup", err.Error(), nil)
		return
	}
	defer d.close()
	type chk struct {
		name string
		w    func(b *boltz.TypedBucket)
		r    func(b *boltz.TypedBucket) (bool, string)
	}
	var checks []chk
	add := func(name string, w func(b *boltz.TypedBucket), r func(b *boltz.TypedBucket) (bool, string)) {
		checks = append(checks, chk{name, w, r})
	}
	switch part {
	case 0: // strings, nil
		for i, s := range c13Strings {
			s := s
			f := fmt.Sprintf("s%d", i)
			add("SetString/GetString "+short(s), func(b *boltz.TypedBucket) { b.SetString(f, s, nil) }, func(b *boltz.TypedBucket) (bool, string) {
				g := b.GetString(f)
				ok := g != nil && *g == s && b.GetStringWithDefault(f, "dflt") == s && b.GetStringOrError(f) == s && !b.HasError()
				return ok, short(derefS(g))
			})
			fp := f + "p"
			add("SetStringP/GetString "+short(s), func(b *boltz.TypedBucket) { b.SetStringP(fp, &s, nil) }, func(b *boltz.TypedBucket) (bool, string) {
				g := b.GetString(fp)
				return g != nil && *g == s, short(derefS(g))
			})
			fg := f + "g"
			add("GetAndSetString "+short(s), func(b *boltz.TypedBucket) { b.GetAndSetString(fg, "before", nil); b.GetAndSetString(fg, s, nil) }, func(b *boltz.TypedBucket) (bool, string) {
				g := b.GetString(fg)
				return g != nil && *g == s, short(derefS(g))
			})
		}
		add("SetStringP(nil) reads as null", func(b *boltz.TypedBucket) { b.SetString("nilp", "x", nil); b.SetStringP("nilp", nil, nil) }, func(b *boltz.TypedBucket) (bool, string) {
			g := b.GetString("nilp")
			return g == nil && b.GetStringWithDefault("nilp", "dflt") == "dflt", short(derefS(g))
		})
		add("SetNil reads as null for every getter", func(b *boltz.TypedBucket) { b.SetInt64("niln", 5, nil); b.SetNil("niln") }, func(b *boltz.TypedBucket) (bool, string) {
			ok := b.GetString("niln") == nil && b.GetInt64("niln") == nil && b.GetInt32("niln") == nil && b.GetFloat64("niln") == nil && b.GetBool("niln") == nil && b.GetTime("niln") == nil
			return ok, "some getter returned non-nil"
		})
		add("absent field reads as null", func(b *boltz.TypedBucket) {}, func(b *boltz.TypedBucket) (bool, string) {
			return b.GetString("never") == nil && b.GetInt64("never") == nil && b.GetBool("never") == nil, "non-nil for an absent field"
		})
		add("empty string distinguishable from null", func(b *boltz.TypedBucket) { b.SetString("e1", "", nil); b.SetNil("e2") }, func(b *boltz.TypedBucket) (bool, string) {
			a, n := b.GetString("e1"), b.GetString("e2")
			return a != nil && *a == "" && n == nil, fmt.Sprintf("empty=%v null=%v", derefS(a), derefS(n))
		})
	case 1: // integers, bools
		for i, v := range c13Int32 {
			v := v
			f := fmt.Sprintf("i32_%d", i)
			add(fmt.Sprintf("SetInt32/GetInt32/GetInt64 %d", v), func(b *boltz.TypedBucket) { b.SetInt32(f, v, nil) }, func(b *boltz.TypedBucket) (bool, string) {
				g, w := b.GetInt32(f), b.GetInt64(f)
				ok := g != nil && *g == v && w != nil && *w == int64(v) && b.GetInt32WithDefault(f, 77) == v && b.GetInt64WithDefault(f, 77) == int64(v)
				return ok, fmt.Sprint(derefAny(g), derefAny(w))
			})
		}
		for i, v := range c13Int64 {
			v := v
			f := fmt.Sprintf("i64_%d", i)
			add(fmt.Sprintf("SetInt64/GetInt64 %d", v), func(b *boltz.TypedBucket) { b.SetInt64(f, v, nil) }, func(b *boltz.TypedBucket) (bool, string) {
				g := b.GetInt64(f)
				fl := b.GetFloat64(f)
				return g != nil && *g == v && fl != nil && *fl == float64(v), fmt.Sprint(derefAny(g))
			})
		}
		for _, v := range []bool{true, false} {
			v := v
			f := fmt.Sprintf("b_%v", v)
			add(fmt.Sprintf("SetBool/GetBool %v", v), func(b *boltz.TypedBucket) { b.SetBool(f, !v, nil); b.SetBool(f, v, nil) }, func(b *boltz.TypedBucket) (bool, string) {
				g := b.GetBool(f)
				return g != nil && *g == v && b.GetBoolWithDefault(f, !v) == v, fmt.Sprint(derefAny(g))
			})
		}
	case 2: // floats, times
		for i, v := range c13Floats {
			v := v
			f := fmt.Sprintf("f_%d", i)
			add(fmt.Sprintf("SetFloat64/GetFloat64 %v (bits %x)", v, math.Float64bits(v)), func(b *boltz.TypedBucket) { b.SetFloat64(f, v, nil) }, func(b *boltz.TypedBucket) (bool, string) {
				g := b.GetFloat64(f)
				return g != nil && floatEq(*g, v), fmt.Sprint(derefAny(g))
			})
		}
		for i, v := range c13Times {
			v := v
			f := fmt.Sprintf("t_%d", i)
			add("SetTime/GetTime "+v.Format(time.RFC3339Nano), func(b *boltz.TypedBucket) { b.SetTime(f, v, nil) }, func(b *boltz.TypedBucket) (bool, string) {
				g := b.GetTime(f)
				ok := g != nil && g.Equal(v) && b.GetTimeOrError(f).Equal(v) && b.GetTimeOrDefault(f, time.Time{}).Equal(v) && !b.HasError()
				return ok, fmt.Sprint(derefAny(g))
			})
			fp := f + "p"
			add("SetTimeP/GetTime "+v.Format(time.RFC3339Nano), func(b *boltz.TypedBucket) { b.SetTimeP(fp, &v, nil) }, func(b *boltz.TypedBucket) (bool, string) {
				g := b.GetTime(fp)
				return g != nil && g.Equal(v), fmt.Sprint(derefAny(g))
			})
		}
		add("SetTimeP(nil) reads as null", func(b *boltz.TypedBucket) { b.SetTime("tnil", c13Times[0], nil); b.SetTimeP("tnil", nil, nil) }, func(b *boltz.TypedBucket) (bool, string) {
			return b.GetTime("tnil") == nil, "non-nil"
		})
	case 3: // string lists
		lists := [][]string{nil, {}, {"a"}, {"b", "a"}, {"a", "a", "b"}, {"", "a"}, {""}, {"a", "a\x00", "aa", "ab", "b", "\xff"}, {"é", "e", "E"}, {strings.Repeat("k", 1000), "k"}, {"\x05", "\x05a"}}
		for i, l := range lists {
			l := l
			f := fmt.Sprintf("l_%d", i)
			exp := normList(l)
			add("SetStringList/GetStringList "+short(l), func(b *boltz.TypedBucket) { b.SetStringList(f, []string{"stale"}, nil); b.SetStringList(f, l, nil) }, func(b *boltz.TypedBucket) (bool, string) {
				g := b.GetStringList(f)
				ok := reflect.DeepEqual(normNil(g), exp) && b.IsStringListEmpty(f) == (len(exp) == 0)
				return ok, short(g)
			})
			fg := f + "g"
			add("GetAndSetStringList "+short(l), func(b *boltz.TypedBucket) {
				b.GetAndSetStringList(fg, []string{"stale"}, nil)
				b.GetAndSetStringList(fg, l, nil)
			}, func(b *boltz.TypedBucket) (bool, string) {
				g := b.GetStringList(fg)
				return reflect.DeepEqual(normNil(g), exp), short(g)
			})
		}
	}
	// every (first list, second list) pair over a 3-letter universe up to length 3 (duplicates, permutations, subsets):
	// the second write replaces the first; GetAndSetStringList also reports the old content and whether anything changed
	if part == 2 {
		var lists [][]string
		var rec func(cur []string)
		rec = func(cur []string) {
			lists = append(lists, append([]string{}, cur...))
			if len(cur) == 3 {
				return
			}
			for _, x := range []string{"a", "b", "c"} {
				rec(append(cur, x))
			}
		}
		rec(nil)
		for i, first := range lists {
			for j, second := range lists {
				if (i+j)%2 == 1 && c.Tier != core.Thorough {
					continue
				}
				first, second := first, second
				f := fmt.Sprintf("pair_%d_%d", i, j)
				exp, old := normList(second), normList(first)
				for _, viaGetAndSet := range []bool{false, true} {
					viaGetAndSet := viaGetAndSet
					fld := f + map[bool]string{true: "g", false: "s"}[viaGetAndSet]
					var gotOld []string
					var gotChanged bool
					add(fmt.Sprintf("string list overwrite %q -> %q (GetAndSet=%v)", first, second, viaGetAndSet), func(b *boltz.TypedBucket) {
						b.SetStringList(fld, first, nil)
						if viaGetAndSet {
							gotOld, gotChanged = b.GetAndSetStringList(fld, second, nil)
						} else {
							b.SetStringList(fld, second, nil)
						}
					}, func(b *boltz.TypedBucket) (bool, string) {
						g := b.GetStringList(fld)
						ok := reflect.DeepEqual(normNil(g), exp)
						if viaGetAndSet {
							ok = ok && reflect.DeepEqual(normNil(gotOld), old) && (gotChanged || reflect.DeepEqual(old, exp))
						}
						return ok, fmt.Sprintf("%s (old reported %q, changed %v)", short(g), gotOld, gotChanged)
					})
				}
			}
		}
	}
	// write everything in one transaction, read in a later one
	werr := d.update(func(b *boltz.TypedBucket) {
		for _, ch := range checks {
			ch.w(b)
		}
	})
	if werr != nil {
		c.Violationf("C13 write of supported values failed", nil, "%v", werr)
		return
	}
	d.view(func(b *boltz.TypedBucket) {
		for _, ch := range checks {
			ok, got := ch.r(b)
			c.Eval()
			c.Nontrivial("scalar", ch.name)
			if !ok {
				c.Violationf("C13 round trip: "+strings.SplitN(ch.name, " ", 2)[0], ch.name, "%s: read back %s", ch.name, got)
			}
		}
	})
	if len(checks) > 0 && c.WantSample() {
		c.Sample(map[string]any{"part": part, "pairs": len(checks), "example": checks[len(checks)/2].name})
	}
}

func normList(l []string) []string {
	m := map[string]bool{}
	for _, x := range l {
		m[x] = true
	}
	out := []string{}
	for x := range m {
		out = append(out, x)
	}
	sort.Strings(out)
	return out
}

func normNil(l []string) []string {
	if l == nil {
		return []string{}
	}
	return l
}

func c13NestedCase(c *core.Ctx) {
	r := c.Rand()
	d, err := openC13(c)
	if err != nil {
		c.Violation("C13 setup", err.Error(), nil)
		return
	}
	defer d.close()
	top := map[string]any{}
	n := 1 + r.Intn(5)
	for i := 0; i < n; i++ {
		top[fmt.Sprintf("k%d", i)] = genNested(r, 3)
	}
	if hasEmptyKey(top) {
		return
	}
	list := make([]any, r.Intn(5))
	for i := range list {
		list[i] = genNested(r, 3)
	}
	if hasEmptyKey(list) {
		return
	}
	// every 8th case: long lists (element keys are binary indexes: 255 / 256 / 257 / 65537 elements cross byte boundaries)
	if c.CaseIdx%8 == 3 {
		sizes := []int{255, 256, 257, 300, 1000, 4097}
		if c.Tier == core.Thorough && (c.CaseIdx/8)%600 == 5 {
			sizes[5] = 65537
		}
		long := make([]any, sizes[(c.CaseIdx/8)%6])
		for i := range long {
			long[i] = int64(i)
		}
		list = long
		inner := make([]any, []int{257, 513}[(c.CaseIdx/8)%2])
		for i := range inner {
			inner[i] = fmt.Sprintf("e%d", i)
		}
		top["longlist"] = inner
		c.Count("long_lists", 1)
	}
	werr := d.update(func(b *boltz.TypedBucket) {
		b.PutMap("m", map[string]any{"stale": "x"}, nil, true)
		b.PutMap("m", top, nil, true)
		b.PutList("l", []any{"stale", "stale2", "stale3", "s4", "s5", "s6"}, nil)
		b.PutList("l", list, nil)
	})
	c.Eval()
	c.Nontrivial("nested", short(top), short(list))
	if werr != nil {
		c.Violationf("C13 write of nested value failed", short(top), "%v", werr)
		return
	}
	d.view(func(b *boltz.TypedBucket) {
		gm := b.GetMap("m")
		if !nestedEq(expectNested(top), gm) {
			c.Violationf("C13 round trip: nested map", map[string]any{"written": short(top)}, "wrote %s read %s", short(top), short(gm))
		}
		gl := b.GetList("l")
		var glAny any = gl // an empty list that was written is an empty list, not "no list"
		if list == nil {
			glAny = normAnyList(gl)
		}
		if list != nil && gl == nil {
			c.Violationf("C13 round trip: a list that was written (with no elements) reads back as no list", map[string]any{"written": short(list)}, "wrote %s read nil", short(list))
		}
		if !nestedEq(expectNested(list), glAny) {
			c.Violationf("C13 round trip: nested list", map[string]any{"written": short(list)}, "wrote %s read %s", short(list), short(gl))
		}
	})
	if c.WantSample() {
		c.Sample(map[string]any{"map": short(top), "list": short(list)})
	}
}

func normAnyList(l []any) any {
	if l == nil {
		return []any{}
	}
	return l
}

func c13CheckerCase(c *core.Ctx, part, parts int) {
	d, err := openC13(c)
	if err != nil {
		c.Violation("C13 setup", err.Error(), nil)
		return
	}
	defer d.close()
	fields := c13Fields()
	k := len(fields)
	total := 1 << k
	for mask := part; mask < total; mask += parts {
		for vi, via := range []bool{false, true, false, true} {
			// second state: new non-empty values, then (for half of the subsets) empty / nil values
			second := 1
			if vi >= 2 {
				second = 2 + (mask>>3)%2
				if mask%2 == 1 {
					continue
				}
			}
			ck := boltz.MapFieldChecker{}
			for i, f := range fields {
				if mask&(1<<i) != 0 {
					ck[f.name] = struct{}{}
				}
			}
			if mask == 0 && vi%2 == 1 {
				// the empty selection spelled as a never-allocated map: a checker that selects nothing
				var none boltz.MapFieldChecker
				ck = none
				c.Count("nil_map_checker_runs", 1)
			}
			mk := func(b *boltz.TypedBucket, checker boltz.FieldChecker) *boltz.PersistContext {
				return &boltz.PersistContext{MutateContext: boltz.NewTxMutateContext(context.Background(), b.Tx()), Id: "ent", Bucket: b, FieldChecker: checker}
			}
			// tx1: write state A without a checker
			var before []any
			err := d.update(func(b *boltz.TypedBucket) {
				pc := mk(b, nil)
				for _, f := range fields {
					f.write(b, pc, via, 0, nil)
				}
			})
			if err != nil {
				c.Violationf("C13 checker: baseline write failed", nil, "%v", err)
				return
			}
			d.view(func(b *boltz.TypedBucket) {
				for _, f := range fields {
					before = append(before, f.read(b))
				}
			})
			// tx2: write state B restricted by the checker
			err = d.update(func(b *boltz.TypedBucket) {
				pc := mk(b, ck)
				for _, f := range fields {
					f.write(b, pc, via, second, ck)
				}
			})
			if err != nil {
				c.Violationf("C13 checker: restricted write failed", nil, "%v", err)
				return
			}
			// reference: state B written unrestricted into a second bucket gives the expected values of selected fields
			var full []any
			_ = d.db.Update(func(tx *bbolt.Tx) error {
				b := boltz.GetOrCreatePath(tx, "root", "ref")
				pc := mk(b, nil)
				for _, f := range fields {
					f.write(b, pc, via, 0, nil)
					f.write(b, pc, via, second, nil)
				}
				return nil
			})
			_ = d.db.View(func(tx *bbolt.Tx) error {
				b := boltz.Path(tx, "root", "ref")
				for _, f := range fields {
					full = append(full, f.read(b))
				}
				return nil
			})
			d.view(func(b *boltz.TypedBucket) {
				for i, f := range fields {
					got := f.read(b)
					want := before[i]
					sel := mask&(1<<i) != 0
					if sel {
						want = full[i]
					}
					c.Eval()
					if !f.eq(want, got) {
						what := "a field outside the checker's selection changed"
						if sel {
							what = "a selected field was not written"
						}
						c.Violationf(fmt.Sprintf("C13 field checker: %s (%s, viaPersistContext=%v, second state %d)", what, f.name, via, second), map[string]any{"mask": mask, "field": f.name, "via_persist_context": via},
							"field %s selected=%v expected %s got %s", f.name, sel, short(want), short(got))
					}
				}
			})
			c.Nontrivial("checker", mask, via, second)
		}
	}
	if c.WantSample() {
		c.Sample(map[string]any{"checker_subsets_from": part, "stride": parts, "fields": k})
	}
}

func c13CodecCase(c *core.Ctx, part int) {
	r := c.Rand()
	alpha := []string{"", "a", "b", "ab", "\x00", "\x01a", "\x02"}
	seen := map[string][]string{}
	var heldKey []byte
	var heldList []string
	check := func(l []string) {
		enc, err := boltz.EncodeStringSlice(l)
		c.Eval()
		if err != nil {
			tooBig := false
			for _, s := range l {
				if len(s) > boltz.MaxLinkedSetKeySize {
					tooBig = true
				}
			}
			if !tooBig {
				c.Violationf("C13 compound key: encode rejected a valid list", short(l), "%v", err)
			}
			return
		}
		// decoded from a buffer the caller uses again afterwards (a key read inside a transaction, a reused scratch
		// buffer): the decoded strings are the caller's, they stay what they were
		buf := append([]byte{}, enc...)
		dec, err := boltz.DecodeStringSlice(buf)
		for i := range buf {
			buf[i] = 'Z'
		}
		if err != nil || !reflect.DeepEqual(normNil(dec), normNil(l)) {
			c.Violationf("C13 compound key: round trip (the encoded buffer is overwritten after decoding)", short(l), "list %s encoded to %x decoded to %s err=%v", short(l), trunc(enc), short(dec), err)
		}
		if prev, dup := seen[string(enc)]; dup && !reflect.DeepEqual(normNil(prev), normNil(l)) {
			c.Violationf("C13 compound key: two lists share an encoding", short(l), "%s and %s both encode to %x", short(prev), short(l), trunc(enc))
		}
		seen[string(enc)] = l
		// a key stays what it is while later keys are encoded (callers keep several: a range of keys, both sides of a link)
		if heldKey != nil {
			if dec, err := boltz.DecodeStringSlice(heldKey); err != nil || !reflect.DeepEqual(normNil(dec), normNil(heldList)) {
				c.Violationf("C13 compound key: an encoded key changed when another list was encoded", short(heldList), "the key of %s now decodes to %s (err=%v) after %s was encoded", short(heldList), short(dec), err, short(l))
			}
		}
		heldKey, heldList = enc, l
		// DecodeNext walks the same elements
		rest := enc
		for i := 0; len(rest) > 0; i++ {
			var next []byte
			next, rest, err = boltz.DecodeNext(rest)
			if err != nil || i >= len(l) || !bytes.Equal(next, []byte(l[i])) {
				c.Violationf("C13 compound key: DecodeNext", short(l), "element %d of %s: got %q err=%v", i, short(l), next, err)
				break
			}
		}
		c.Nontrivial("codec", short(l), len(l))
	}
	if part == 0 {
		var rec func(cur []string)
		rec = func(cur []string) {
			check(append([]string{}, cur...))
			if len(cur) == 3 {
				return
			}
			for _, a := range alpha {
				rec(append(cur, a))
			}
		}
		rec(nil)
		c.Cover("codec", "exhaustive-len3")
	}
	for i := 0; i < 200; i++ {
		n := r.Intn(8)
		l := make([]string, n)
		for j := range l {
			switch r.Intn(6) {
			case 0:
				l[j] = strings.Repeat("y", core.Pick(r, []int{126, 127, 128, 129, 255, 256, 4095, 4096, 16383, 16384}))
			case 1:
				b := make([]byte, r.Intn(6))
				for k := range b {
					b[k] = byte(r.Intn(256))
				}
				l[j] = string(b)
			default:
				l[j] = core.Pick(r, alpha)
			}
		}
		check(l)
	}
	if c.WantSample() {
		c.Sample(map[string]any{"codec_lists_checked": len(seen)})
	}
}

func trunc(b []byte) []byte {
	if len(b) > 40 {
		return b[:40]
	}
	return b
}

func c13S(v int) []any {
	switch v {
	case 0:
		return c13SA
	case 2:
		return c13SC
	case 3:
		return c13SD
	}
	return c13SB
}

// "empty" second states: zero values, empty containers (SC) and nil containers (SD) offered for every field
var c13SC = []any{"", "", int32(0), int64(0), 0.0, false, time.Time{}, []string{}, map[string]any{}, "", []string{}, "req-c"}
var c13SD = []any{"", "", int32(0), int64(0), math.Copysign(0, -1), false, time.Unix(0, 0).UTC(), []string(nil), map[string]any(nil), "", []string(nil), "req-d"}
