// Package props registers one check per property.
package props

import (
	"fmt"

	"go.etcd.io/bbolt"
	"verif/harness/internal/core"
	"verif/harness/internal/dump"
	"verif/harness/internal/kmodel"
	"verif/harness/internal/schema"
)

type histOpts struct {
	Prefix   string
	Cfg      kmodel.Config
	NTx      int
	MaxOps   int
	Hostile  bool
	Weights  map[string]int
	AfterTx  func(e *kmodel.Engine, res *kmodel.TxResult, before, after *dump.Dump)
	NeedDump bool
	Setup    func(e *kmodel.Engine)
	FanIn    bool // the last transactions of the history point several employees at one dept / boss and delete the target
}

func dumpDb(e *kmodel.Engine) *dump.Dump {
	var d *dump.Dump
	_ = e.Db.View(func(tx *bbolt.Tx) error {
		d = dump.Tx(tx)
		return nil
	})
	return d
}

// runHistory drives one random history: every transaction is predicted by the model, executed,
// its outcome compared, a rolled-back transaction must leave the dump unchanged, and the
// structural monitor runs after every transaction.
func runHistory(c *core.Ctx, r *core.Rand, o histOpts) {
	e, err := kmodel.NewEngine(c, o.Cfg)
	if err != nil {
		c.Violation(o.Prefix+" setup", err.Error(), nil)
		return
	}
	defer e.Close()
	if o.Weights != nil {
		e.W = o.Weights
	}
	if o.Setup != nil {
		o.Setup(e)
	}
	var hist [][]kmodel.Op
	for t := 0; t < o.NTx; t++ {
		if t%6 == 5 {
			// the application restarts: the file is closed and opened again, the stores declare their indexes again. What
			// was committed is all there and nothing else is (the next transactions run against the reopened file)
			before := dumpDb(e)
			if err := e.Reopen(); err != nil {
				c.Violationf(o.Prefix+" closing and reopening the database failed", map[string]any{"cfg": o.Cfg.String()}, "%v", err)
				return
			}
			c.Count("database_reopened", 1)
			c.Eval()
			if after := dumpDb(e); before.Hash() != after.Hash() {
				c.Violationf(o.Prefix+" closing and reopening the database (and declaring the indexes again) changed it", map[string]any{"cfg": o.Cfg.String(), "history": tailHist(hist, 4)}, "diff: %v", dump.Diff(before, after, nil, 6))
			}
			e.Check(o.Prefix+" after reopening the database", map[string]any{"cfg": o.Cfg.String(), "history": tailHist(hist, 4)})
		}
		ops := e.GenTx(r, o.MaxOps, o.Hostile)
		if o.FanIn && t >= o.NTx-9 {
			ops = fanInOps(e, t-(o.NTx-9))
			c.Count("fan_in_steps", 1)
		} else if o.FanIn && t >= o.NTx-13 {
			ops = setSwapOps(e, t-(o.NTx-13))
		} else if o.FanIn && (t == o.NTx-18 || t == o.NTx-17) {
			ops = uniqueReleaseOps(e, t-(o.NTx-18))
		} else if o.FanIn && t >= o.NTx-16 && len(e.EmpPool) > 0 && e.EmpPool[len(e.EmpPool)-2] == "D1" {
			ops = sameIdOps(e, t-(o.NTx-16)) // id universes are shared: an employee and its department with the same id
		}
		if len(ops) == 0 {
			continue
		}
		var before *dump.Dump
		if o.NeedDump || o.Hostile {
			before = dumpDb(e)
		}
		res := e.RunTx(ops, o.Prefix)
		hist = append(hist, res.Ops)
		c.Count("transactions", 1)
		var after *dump.Dump
		if !res.Committed {
			c.Count("transactions_rolled_back", 1)
			if before != nil {
				after = dumpDb(e)
				c.Eval()
				if before.Hash() != after.Hash() {
					c.Violationf(o.Prefix+" rejected transaction changed the database", map[string]any{"cfg": o.Cfg.String(), "history": hist},
						"diff: %v", dump.Diff(before, after, nil, 6))
				}
			}
		} else {
			c.Count("transactions_committed", 1)
			if o.NeedDump {
				after = dumpDb(e)
			}
		}
		ctxInfo := map[string]any{"cfg": o.Cfg.String(), "history": tailHist(hist, 6)}
		ds := e.Check(o.Prefix, ctxInfo)
		c.Eval()
		if o.AfterTx != nil {
			o.AfterTx(e, res, before, after)
		}
		if len(ds) > 0 {
			// one divergence would cascade: resynchronise the model with the database
			e.Resync()
		}
		for _, op := range res.Ops {
			c.Nontrivial(op.Kind, op.Store, op.Exp, len(e.M.Ents[kmodel.Emps]) > 1, o.Cfg.String(), len(op.Fields), len(op.Others))
		}
	}
	if c.WantSample() {
		c.Sample(map[string]any{"cfg": o.Cfg.String(), "first_transactions": tailHistHead(hist, 3)})
	}
}

// uniqueReleaseOps: a unique value is released and taken twice in one transaction. Step 0 gives department X the name
// "rel-1"; step 1 is one transaction: X is renamed (the value is free again), a new department takes "rel-1", and a
// second new department asks for it as well - which is a duplicate, the transaction fails.
func uniqueReleaseOps(e *kmodel.Engine, step int) []kmodel.Op {
	var free []string
	x := ""
	for _, id := range e.DeptPool {
		if _, ok := e.M.Ents[kmodel.Depts][id]; !ok {
			free = append(free, id)
		} else if x == "" {
			x = id
		}
	}
	if step == 0 {
		if x == "" {
			if len(free) == 0 {
				return nil
			}
			return []kmodel.Op{{Kind: "create", Store: kmodel.Depts, Id: free[0], V: map[string]any{"name": "rel-1"}}}
		}
		return []kmodel.Op{{Kind: "update", Store: kmodel.Depts, Id: x, V: map[string]any{"name": "rel-1"}}}
	}
	holder := ""
	for id, ent := range e.M.Ents[kmodel.Depts] {
		if n, _ := ent.V["name"].(string); n == "rel-1" {
			holder = id
		}
	}
	if holder == "" || len(free) < 2 {
		return nil
	}
	return []kmodel.Op{
		{Kind: "update", Store: kmodel.Depts, Id: holder, V: map[string]any{"name": "rel-2"}},
		{Kind: "create", Store: kmodel.Depts, Id: free[0], V: map[string]any{"name": "rel-1"}},
		{Kind: "create", Store: kmodel.Depts, Id: free[1], V: map[string]any{"name": "rel-1"}},
	}
}

// sameIdOps (shared id universes only): department "D1", an employee with the same id "D1" that references it and is
// moved to the front of nobody else's list, then the delete of the department - refused, or cascading to the employee,
// depending on the wiring.
func sameIdOps(e *kmodel.Engine, step int) []kmodel.Op {
	_, haveDept := e.M.Ents[kmodel.Depts]["D1"]
	_, haveEmp := e.M.Ents[kmodel.Emps]["D1"]
	switch step {
	case 0:
		if haveDept {
			return nil
		}
		return []kmodel.Op{{Kind: "create", Store: kmodel.Depts, Id: "D1", V: map[string]any{"name": nil}}}
	case 1:
		if !haveDept {
			return nil
		}
		v := map[string]any{"name": "same-id", "nick": nil, "title": "t1", "roles": []string{"r1"}, "dept": "D1", "boss": nil, "grade": nil}
		if !e.Cfg.BossNullable {
			v["boss"] = "D1"
		}
		kind := "create"
		if haveEmp {
			kind = "update"
		}
		return []kmodel.Op{{Kind: kind, Store: kmodel.Emps, Id: "D1", V: v}}
	}
	return []kmodel.Op{{Kind: "delete", Store: kmodel.Depts, Id: "D1"}}
}

// setSwapOps scripts four patches of one employee's set field with values whose concatenations collide: {ab, c} ->
// {a, bc} (same bytes when joined) -> {a<0x05>b, c} -> {a, b<0x05>c} (same bytes when joined with the storage type tag).
// The set index must follow every step.
func setSwapOps(e *kmodel.Engine, step int) []kmodel.Op {
	var id string
	for _, cand := range []string{"e1", "E1", "or", "e 2"} {
		if _, ok := e.M.Ents[kmodel.Emps][cand]; ok {
			id = cand
			break
		}
	}
	if id == "" {
		return nil
	}
	roles := [][]string{{"ab", "c"}, {"a", "bc"}, {"a\x05b", "c"}, {"a", "b\x05c"}}[step]
	return []kmodel.Op{{Kind: "patch", Store: kmodel.Emps, Id: id, V: map[string]any{"roles": roles}, Fields: []string{"roles"}}}
}

// fanInOps scripts the end of a history: step 0 makes sure dept d1 exists, steps 1-6 create (or rewrite) six employees
// that all reference d1 and, from the second on, have the first one as their boss; step 7 deletes d1 and step 8 the
// first employee. Restrict, nullable and cascade wirings each make something different of it (predicted by the model):
// in particular cascades and restrict checks with three and more direct referrers.
func fanInOps(e *kmodel.Engine, step int) []kmodel.Op {
	emps := []string{"e1", "E1", "or", "e 2", `e"q`, "é3"}
	_, haveDept := e.M.Ents[kmodel.Depts]["d1"]
	switch {
	case step == 0:
		if haveDept {
			return nil
		}
		return []kmodel.Op{{Kind: "create", Store: kmodel.Depts, Id: "d1", V: map[string]any{"name": nil}}}
	case step >= 1 && step <= 6:
		if !haveDept {
			return nil
		}
		id := emps[step-1]
		v := map[string]any{"name": "fan-" + id, "nick": nil, "title": "t1", "roles": []string{"r1"}, "dept": "d1", "boss": nil, "grade": nil}
		if step > 1 {
			if _, ok := e.M.Ents[kmodel.Emps][emps[0]]; ok {
				v["boss"] = emps[0]
			}
		}
		if !e.Cfg.BossNullable && v["boss"] == nil {
			v["boss"] = id // a self reference satisfies the non-nullable constraint
		}
		kind := "create"
		if _, ok := e.M.Ents[kmodel.Emps][id]; ok {
			kind = "update"
		}
		return []kmodel.Op{{Kind: kind, Store: kmodel.Emps, Id: id, V: v}}
	}
	// the deleting transactions first write one more referrer into the referencing store (the delete then walks a
	// bucket the same transaction has already modified)
	extra := func(id string) kmodel.Op {
		v := map[string]any{"name": "fan-" + id, "nick": nil, "title": "t1", "roles": []string{"r1"}, "dept": nil, "boss": nil, "grade": nil}
		if haveDept {
			v["dept"] = "d1"
		} else if e.Cfg.DeptFK != schema.FkIndexNullable {
			for d := range e.M.Ents[kmodel.Depts] {
				v["dept"] = d
			}
		}
		if _, ok := e.M.Ents[kmodel.Emps][emps[0]]; ok {
			v["boss"] = emps[0]
		} else if !e.Cfg.BossNullable {
			v["boss"] = id
		}
		kind := "create"
		if _, ok := e.M.Ents[kmodel.Emps][id]; ok {
			kind = "update"
		}
		return kmodel.Op{Kind: kind, Store: kmodel.Emps, Id: id, V: v}
	}
	if step == 7 {
		return []kmodel.Op{extra("e\n"), {Kind: "delete", Store: kmodel.Depts, Id: "d1"}}
	}
	return []kmodel.Op{extra("e\nl"), {Kind: "delete", Store: kmodel.Emps, Id: emps[0]}}
}

// sharedIds makes the id universes of the two stores overlap (the same string names an employee and a department).
func sharedIds(e *kmodel.Engine) {
	e.EmpPool = append(append([]string{}, kmodel.EmpIds[:5]...), "d1", "D1", "null")
	e.DeptPool = append(append([]string{}, kmodel.DeptIds[:4]...), "e1", "E1", "or")
}

func tailHist(h [][]kmodel.Op, n int) [][]kmodel.Op {
	if len(h) > n {
		return h[len(h)-n:]
	}
	return h
}

func tailHistHead(h [][]kmodel.Op, n int) []string {
	var out []string
	for i := 0; i < len(h) && i < n; i++ {
		out = append(out, fmt.Sprint(h[i]))
	}
	return out
}
