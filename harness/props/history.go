// Package props registers one check per property.
package props

import (
	"fmt"

	"go.etcd.io/bbolt"
	"verif/harness/internal/core"
	"verif/harness/internal/dump"
	"verif/harness/internal/kmodel"
)

type histOpts struct {
	Prefix   string
	Cfg      kmodel.Config
	NTx      int
	MaxOps   int
	Hostile  bool
	Weights  map[string]int
	AfterTx  func(e *kmodel.Engine, res *kmodel.TxResult, before, after *dump.Dump)
	NeedDump bool
	Setup    func(e *kmodel.Engine)
}

func dumpDb(e *kmodel.Engine) *dump.Dump {
	var d *dump.Dump
	_ = e.Db.View(func(tx *bbolt.Tx) error {
		d = dump.Tx(tx)
		return nil
	})
	return d
}

// runHistory drives one random history: every transaction is predicted by the model, executed,
// its outcome compared, a rolled-back transaction must leave the dump unchanged, and the
// structural monitor runs after every transaction.
func runHistory(c *core.Ctx, r *core.Rand, o histOpts) {
	e, err := kmodel.NewEngine(c, o.Cfg)
	if err != nil {
		c.Violation(o.Prefix+" setup", err.Error(), nil)
		return
	}
	defer e.Close()
	if o.Weights != nil {
		e.W = o.Weights
	}
	if o.Setup != nil {
		o.Setup(e)
	}
	var hist [][]kmodel.Op
	for t := 0; t < o.NTx; t++ {
		ops := e.GenTx(r, o.MaxOps, o.Hostile)
		if len(ops) == 0 {
			continue
		}
		var before *dump.Dump
		if o.NeedDump || o.Hostile {
			before = dumpDb(e)
		}
		res := e.RunTx(ops, o.Prefix)
		hist = append(hist, res.Ops)
		c.Count("transactions", 1)
		var after *dump.Dump
		if !res.Committed {
			c.Count("transactions_rolled_back", 1)
			if before != nil {
				after = dumpDb(e)
				c.Eval()
				if before.Hash() != after.Hash() {
					c.Violationf(o.Prefix+" rejected transaction changed the database", map[string]any{"cfg": o.Cfg.String(), "history": hist},
						"diff: %v", dump.Diff(before, after, nil, 6))
				}
			}
		} else {
			c.Count("transactions_committed", 1)
			if o.NeedDump {
				after = dumpDb(e)
			}
		}
		ctxInfo := map[string]any{"cfg": o.Cfg.String(), "history": tailHist(hist, 6)}
		ds := e.Check(o.Prefix, ctxInfo)
		c.Eval()
		if o.AfterTx != nil {
			o.AfterTx(e, res, before, after)
		}
		if len(ds) > 0 {
			// one divergence would cascade: resynchronise the model with the database
			e.Resync()
		}
		for _, op := range res.Ops {
			c.Nontrivial(op.Kind, op.Store, op.Exp, len(e.M.Ents[kmodel.Emps]) > 1, o.Cfg.String(), len(op.Fields), len(op.Others))
		}
	}
	if c.WantSample() {
		c.Sample(map[string]any{"cfg": o.Cfg.String(), "first_transactions": tailHistHead(hist, 3)})
	}
}

func tailHist(h [][]kmodel.Op, n int) [][]kmodel.Op {
	if len(h) > n {
		return h[len(h)-n:]
	}
	return h
}

func tailHistHead(h [][]kmodel.Op, n int) []string {
	var out []string
	for i := 0; i < len(h) && i < n; i++ {
		out = append(out, fmt.Sprint(h[i]))
	}
	return out
}
