package props

import (
	"bytes"
	"fmt"
	"io"
	"os"
	"path/filepath"
	"strings"
	"sync"
	"sync/atomic"
	"time"

	"github.com/openziti/storage/boltz"
	"go.etcd.io/bbolt"
	"verif/harness/internal/core"
)

// C17 part (c): two restores requested at the same time (two peers push their snapshots to the same node), and restore
// listeners which depend on each other.
//
// The database goes through three states A, B, C; snapshots of A and B are taken as byte streams. From state C two
// callers restore at once, one snapshot each, through readers which hand out their data in pieces and wait for each
// other half way (so that the two calls are inside RestoreFromReader together). Afterwards the database holds state A
// or state B in full - every key of that state with that state's value, no key of another state -, neither call
// panicked, and nothing of the restore's temporary files is left next to the database.
//
// Restore listeners are independent callbacks: the first one registered waits (bounded) for the second one to have been
// called, as a listener does which needs what another listener re-initialises. Each restore calls each listener once.
const c17TwoCases = 6

func c17StateValue(state string, i int) []byte {
	pad := map[string]int{"A": 40, "B": 90, "C": 10}[state]
	return []byte(fmt.Sprintf("%s-%04d-%s", state, i, strings.Repeat(state, pad+(i%7))))
}

func c17StateKeys(state string) int {
	return map[string]int{"A": 900, "B": 1400, "C": 300}[state]
}

// rendezvousReader hands out the first half of its data, waits until its peer has done the same (bounded), then the rest
// in small pieces.
type rendezvousReader struct {
	data    []byte
	off     int
	half    int
	arrived *sync.WaitGroup
	met     *atomic.Int64
	waited  bool
	chunk   int
}

func (r *rendezvousReader) Read(p []byte) (int, error) {
	if r.off >= len(r.data) {
		return 0, io.EOF
	}
	if r.off >= r.half && !r.waited {
		r.waited = true
		r.arrived.Done()
		done := make(chan struct{})
		go func() { r.arrived.Wait(); close(done) }()
		select {
		case <-done:
			r.met.Add(1)
		case <-time.After(5 * time.Second):
		}
	}
	n := min(len(p), r.chunk, len(r.data)-r.off)
	if r.off < r.half {
		n = min(n, r.half-r.off)
	}
	copy(p, r.data[r.off:r.off+n])
	r.off += n
	return n, nil
}

func c17TwoRestores(c *core.Ctx, idx int) {
	c17SamePathAfterRestore(c, idx)
	path := c.TempFile("c17t")
	db, err := boltz.Open(path, "root")
	if err != nil {
		c.Violation("C17 setup", err.Error(), nil)
		return
	}
	defer func() {
		_ = db.Close()
		matches, _ := filepath.Glob(path + "*")
		for _, m := range matches {
			_ = os.Remove(m)
		}
	}()
	write := func(state string) error {
		return db.Update(nil, func(ctx boltz.MutateContext) error {
			tx := ctx.Tx()
			root := tx.Bucket([]byte("root"))
			if root == nil {
				var err error
				if root, err = tx.CreateBucket([]byte("root")); err != nil {
					return err
				}
			}
			if old := root.Bucket([]byte("data")); old != nil {
				if err := root.DeleteBucket([]byte("data")); err != nil {
					return err
				}
			}
			b, err := root.CreateBucket([]byte("data"))
			if err != nil {
				return err
			}
			if err := b.Put([]byte("state"), []byte(state)); err != nil {
				return err
			}
			for i := 0; i < c17StateKeys(state); i++ {
				if err := b.Put([]byte(fmt.Sprintf("k%05d", i)), c17StateValue(state, i)); err != nil {
					return err
				}
			}
			return nil
		})
	}
	// what a read transaction sees: "" if everything belongs to one state, else a description
	readState := func() (string, string) {
		state, problem := "", ""
		_ = db.View(func(tx *bbolt.Tx) error {
			root := tx.Bucket([]byte("root"))
			if root == nil || root.Bucket([]byte("data")) == nil {
				problem = "no data bucket"
				return nil
			}
			b := root.Bucket([]byte("data"))
			state = string(b.Get([]byte("state")))
			if c17StateKeys(state) == 0 {
				problem = fmt.Sprintf("state marker %q", state)
				return nil
			}
			n := 0
			_ = b.ForEach(func(k, v []byte) error {
				if string(k) == "state" {
					return nil
				}
				var i int
				if _, err := fmt.Sscanf(string(k), "k%05d", &i); err != nil || !bytes.Equal(v, c17StateValue(state, i)) {
					if problem == "" {
						problem = fmt.Sprintf("key %q holds %.20q... in a database marked as state %s", k, v, state)
					}
				}
				n++
				return nil
			})
			if n != c17StateKeys(state) && problem == "" {
				problem = fmt.Sprintf("%d keys in a database marked as state %s (it has %d)", n, state, c17StateKeys(state))
			}
			return nil
		})
		return state, problem
	}
	snaps := map[string][]byte{}
	for _, state := range []string{"A", "B", "C"} {
		if err := write(state); err != nil {
			c.Violationf("C17 two restores: setup write failed", nil, "%v", err)
			return
		}
		if state != "C" {
			var buf bytes.Buffer
			if err := db.StreamToWriter(&buf); err != nil {
				c.Violationf("C17 StreamToWriter failed", nil, "%v", err)
				return
			}
			snaps[state] = buf.Bytes()
		}
	}
	var first, second, secondDuringFirst, firstGaveUp atomic.Int64
	db.AddRestoreListener(func() {
		// needs what the second listener re-initialises: waits for it (bounded)
		for i := 0; i < 10000 && second.Load() == 0; i++ {
			time.Sleep(time.Millisecond)
		}
		if second.Load() == 0 {
			firstGaveUp.Add(1)
		} else {
			secondDuringFirst.Add(1)
		}
		// and it takes its time (re-reading what the restore replaced): the next restore's notification finds it busy
		time.Sleep(80 * time.Millisecond)
		first.Add(1)
	})
	db.AddRestoreListener(func() { second.Add(1) })

	var arrived sync.WaitGroup
	arrived.Add(2)
	var met atomic.Int64
	var wg sync.WaitGroup
	panics := make([]string, 2)
	chunk := []int{512, 4096, 1 << 16}[idx%3]
	for g, state := range []string{"A", "B"} {
		g, state := g, state
		wg.Add(1)
		go func() {
			defer wg.Done()
			defer func() {
				if p := recover(); p != nil {
					panics[g] = fmt.Sprint(p)
				}
			}()
			data := snaps[state]
			rd := &rendezvousReader{data: data, half: len(data) / 2, arrived: &arrived, met: &met, chunk: chunk}
			if (idx/3)%2 == 1 && g == 1 {
				// the second caller arrives while the first is half way: no waiting on its side after that
				rd.half = 1
			}
			db.RestoreFromReader(rd)
		}()
	}
	wg.Wait()
	c.Eval()
	c.Count("pairs_of_overlapping_restores", 1)
	if met.Load() == 2 {
		c.Count("pairs_of_restores_inside_the_call_together", 1)
	}
	info := map[string]any{"reader_chunk": chunk, "snapshot_bytes": map[string]int{"A": len(snaps["A"]), "B": len(snaps["B"])}, "readers_met_half_way": met.Load()}
	for g, p := range panics {
		if p != "" {
			c.Violationf("C17 two restores at the same time: a restore panicked", info, "restore of snapshot %s: %s", []string{"A", "B"}[g], p)
		}
	}
	if panics[0] == "" && panics[1] == "" {
		state, problem := readState()
		c.Eval()
		c.Nontrivial("two-restores", state, chunk, idx)
		c.Cover("two_restores_final_state", state)
		if problem != "" || (state != "A" && state != "B") {
			c.Violationf("C17 two restores at the same time: the database is neither of the two snapshots in full", info, "marker %q: %s", state, problem)
		}
		if left, _ := filepath.Glob(path + ".snapshot*"); len(left) > 0 {
			c.Violationf("C17 two restores at the same time: temporary files of the restore are left behind", info, "%v", left)
		}
		// the listeners: each restore calls each of them once, whatever the others are doing
		for i := 0; i < 12000 && (first.Load() < 2 || second.Load() < 2); i++ {
			time.Sleep(time.Millisecond)
		}
		c.Eval()
		if first.Load() != 2 || second.Load() != 2 || firstGaveUp.Load() != 0 {
			c.Violationf("C17 restore listeners: a listener was not called while another one was still running", info,
				"after two restores: first listener finished %d times (gave up waiting for the second %d times), second listener called %d times", first.Load(), firstGaveUp.Load(), second.Load())
		}
		// the database keeps working
		if err := write("C"); err != nil {
			c.Violationf("C17 two restores at the same time: the database refuses writes afterwards", info, "%v", err)
		} else if state, problem := readState(); state != "C" || problem != "" {
			c.Violationf("C17 two restores at the same time: a write afterwards is not what is read", info, "marker %q: %s", state, problem)
		}
	}
}

// c17SamePathAfterRestore: a snapshot path that already holds a snapshot is written again after a restore has taken the
// database back. State A; snapshot to p1; ONE more transaction (state B); snapshot to p2; restore p1 (A again);
// snapshot to p2 once more - the file must now hold A, and restoring it after further writes gives A.
func c17SamePathAfterRestore(c *core.Ctx, idx int) {
	path := c.TempFile("c17m")
	db, err := boltz.Open(path, "root")
	if err != nil {
		c.Violation("C17 setup", err.Error(), nil)
		return
	}
	hung := false
	defer func() {
		if !hung {
			_ = db.Close()
		}
		matches, _ := filepath.Glob(path + "*")
		for _, m := range matches {
			_ = os.Remove(m)
		}
	}()
	put := func(state string) error {
		return db.Update(nil, func(ctx boltz.MutateContext) error {
			b := boltz.GetOrCreatePath(ctx.Tx(), "root", "data")
			b.SetString("state", state, nil)
			return b.GetError()
		})
	}
	get := func(d boltz.Db) string {
		out := "<none>"
		_ = d.View(func(tx *bbolt.Tx) error {
			if b := boltz.Path(tx, "root", "data"); b != nil {
				out = b.GetStringWithDefault("state", "<nil>")
			}
			return nil
		})
		return out
	}
	p1, p2 := path+".snap1", path+".snap2"
	fail := func(what string, err error) bool {
		if err != nil {
			c.Violationf("C17 snapshot to a path that holds an earlier snapshot: "+what+" failed", nil, "%v", err)
			return true
		}
		return false
	}
	// a few transactions first, so that transaction ids of the two files can meet in different ways
	for i := 0; i <= idx%3; i++ {
		if fail("setup write", put(fmt.Sprintf("pre-%d", i))) {
			return
		}
	}
	if fail("write A", put("A")) {
		return
	}
	_, idA, err := db.Snapshot(p1)
	if fail("snapshot of A", err) {
		return
	}
	if fail("write B", put("B")) {
		return
	}
	_, idB, err := db.Snapshot(p2)
	if fail("snapshot of B", err) {
		return
	}
	snapA, err := os.ReadFile(p1)
	if fail("reading the first snapshot", err) {
		return
	}
	// a snapshot that cannot be written (its directory does not exist) fails - and leaves nothing behind that would
	// keep the restore from going ahead
	if _, _, err := db.Snapshot(filepath.Join(path+".no-such-dir", "x.snap")); err == nil {
		c.Violationf("C17 a snapshot into a directory that does not exist reports success", nil, "")
	}
	restored := make(chan struct{})
	go func() { defer close(restored); db.RestoreSnapshot(snapA) }()
	select {
	case <-restored:
	case <-time.After(45 * time.Second):
		hung = true
		c.Violationf("C17 a restore after a failed snapshot does not finish", map[string]any{"waited_s": 45}, "RestoreSnapshot still running after 45 s (a failed Db.Snapshot came before it)")
		return
	}
	c.Count("restores_after_a_failed_snapshot", 1)
	if got := get(db); got != "A" {
		c.Violationf("C17 restore of the first snapshot", nil, "state %q, expected A", got)
		return
	}
	_, idA2, err := db.Snapshot(p2)
	if fail("second snapshot to the same path", err) {
		return
	}
	c.Eval()
	c.Count("snapshots_over_an_earlier_snapshot_after_a_restore", 1)
	info := map[string]any{"snapshot_ids": []string{idA, idB, idA2}, "transactions_before_A": idx%3 + 1}
	if other, err := boltz.Open(p2, "root"); err == nil {
		if got := get(other); got != "A" {
			c.Violationf("C17 a snapshot written over an earlier snapshot file holds the earlier snapshot's state, not the database's", info, "the file holds state %q, the database is at A", got)
		}
		if sid, _ := other.GetSnapshotId(); sid == nil || *sid != idA2 {
			c.Violationf("C17 the snapshot file does not carry the id Snapshot returned", info, "file: %v, returned %q", derefS(sid), idA2)
		}
		_ = other.Close()
	} else {
		c.Violationf("C17 the snapshot file cannot be opened", info, "%v", err)
	}
	if fail("write C", put("C")) {
		return
	}
	snap2, err := os.ReadFile(p2)
	if fail("reading the second snapshot", err) {
		return
	}
	db.RestoreSnapshot(snap2)
	c.Nontrivial("samepath", idx%3)
	if got := get(db); got != "A" {
		c.Violationf("C17 restoring the snapshot taken at state A (over an earlier snapshot's file) does not give state A", info, "state %q", got)
	}
}
