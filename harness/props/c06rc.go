package props

import (
	"fmt"
	"os"
	"time"

	"github.com/openziti/storage/boltz"
	"go.etcd.io/bbolt"
	"verif/harness/internal/core"
	"verif/harness/internal/dump"
	"verif/harness/internal/schema"
)

// C06 part (d): two stores joined ONLY by a ref-counted link collection (no plain link collection on either store).
// After a committed delete the id occurs nowhere, and a re-created entity starts with a clean slate: incrementing a
// link count from it works and gives both sides the count 1. Each store also has a nullable unique index over a
// NON-string field (int64 serial, datetime stamp): its entry is keyed by the stored bytes, not by text, and has to go
// with the entity as well.
const c06RcCases = 12

func c06RcOnly(c *core.Ctx, idx int) {
	r := c.Rand()
	alphas := &schema.StoreDef{Type: "alphas", BasePath: []string{"stores"},
		Fields: []schema.Field{{Name: "label", Kind: schema.KStr}, {Name: "serial", Kind: schema.KI64}, {Name: "betas", Kind: schema.KList, FK: "betas", Derived: true}},
		Unique: []schema.UniqueDef{{Field: "serial", Nullable: true}},
		Links:  []schema.LinkDef{{Field: "betas", Target: "betas", TargetField: "alphas", RefCounted: true}}}
	betas := &schema.StoreDef{Type: "betas", BasePath: []string{"stores"},
		Fields: []schema.Field{{Name: "label", Kind: schema.KStr}, {Name: "stamp", Kind: schema.KTime}, {Name: "alphas", Kind: schema.KList, FK: "alphas", Derived: true}},
		Unique: []schema.UniqueDef{{Field: "stamp", Nullable: true}},
		Links:  []schema.LinkDef{{Field: "alphas", Target: "alphas", TargetField: "betas", RefCounted: true}}}
	sc := schema.Build([]*schema.StoreDef{alphas, betas})
	path := c.TempFile("c06rc")
	db, err := sc.OpenDb(path)
	if err != nil {
		c.Violation("C06 setup", err.Error(), nil)
		return
	}
	defer func() { _ = db.Close(); _ = os.Remove(path) }()
	ast, bst := sc.St("alphas"), sc.St("betas")
	ids := map[string][]string{"alphas": {"al-one", "al-two"}, "betas": {"be-one", "be-two"}}
	for step := 0; step < 40; step++ {
		op := core.Pick(r, []string{"create", "create", "inc", "inc", "dec", "set", "delete", "delete"})
		store := core.Pick(r, []string{"alphas", "betas"})
		other := map[string]string{"alphas": "betas", "betas": "alphas"}[store]
		id, oid := core.Pick(r, ids[store]), core.Pick(r, ids[other])
		st := map[string]*schema.St{"alphas": ast, "betas": bst}[store]
		rc := st.RcLinks[other]
		var before *dump.Dump
		existed := false
		_ = db.View(func(tx *bbolt.Tx) error {
			before = dump.Tx(tx)
			existed = st.Store.IsEntityPresent(tx, id)
			return nil
		})
		typedValue := false
		opErr := db.Update(nil, func(ctx boltz.MutateContext) error {
			switch op {
			case "create":
				v := map[string]any{"label": fmt.Sprintf("l%d", step)}
				// the typed unique value: mostly the id's own (so a re-created entity asks for the value its earlier
				// incarnation held), sometimes the other entity's (a duplicate when that one exists), sometimes null
				own := int64(7)
				if id == ids[store][1] {
					own = 1 << 40
				}
				switch x := r.Intn(6); {
				case x == 0:
					own = 7 + (1<<40 - own)
				case x == 1:
					own = -1
				}
				if store == "alphas" && own >= 0 {
					v["serial"] = own
				} else if own >= 0 {
					v["stamp"] = time.Date(2020, 1, 1, 0, 0, 0, 0, time.UTC).Add(time.Duration(own%1000) * time.Hour)
				}
				typedValue = own >= 0
				return st.Store.Create(ctx, &schema.Ent{Id: id, Typ: store, V: v})
			case "inc":
				_, err := rc.IncrementLinkCount(ctx.Tx(), []byte(id), []byte(oid))
				return err
			case "dec":
				_, err := rc.DecrementLinkCount(ctx.Tx(), []byte(id), []byte(oid))
				return err
			case "set":
				_, _, err := rc.SetLinkCount(ctx.Tx(), []byte(id), []byte(oid), r.Intn(3))
				return err
			}
			return st.Store.DeleteById(ctx, id)
		})
		c.Eval()
		info := map[string]any{"step": step, "op": op, "store": store, "id": id, "other": oid, "error": fmt.Sprint(opErr)}
		var after *dump.Dump
		_ = db.View(func(tx *bbolt.Tx) error { after = dump.Tx(tx); return nil })
		if opErr != nil {
			if after.Hash() != before.Hash() {
				c.Violationf("C06 ref-counted-only stores: an operation that returned an error changed the database ("+op+")", info, "diff: %v", dump.Diff(before, after, nil, 4))
			}
			continue
		}
		c.Nontrivial("c06rc", op, store, existed)
		if op == "create" && typedValue {
			c.Count("creates_with_typed_unique_value", 1)
		}
		if op == "delete" && existed {
			c.Count("rc_only_deletes_scanned", 1)
			if hits := after.FindId(id); len(hits) > 0 {
				c.Violationf("C06 ref-counted-only stores: trace of deleted id: "+traceClass(hits[0]), info, "id %q still occurs after the committed delete: %v", id, hits)
			}
		}
		if op == "inc" {
			// both sides agree
			_ = db.View(func(tx *bbolt.Tx) error {
				a, b := rc.GetLinkCounts(tx, []byte(id), []byte(oid))
				if a == nil || b == nil || *a != *b || *a < 1 {
					c.Violationf("C06 ref-counted-only stores: counts differ after an increment (stale entries of an earlier incarnation?)", info, "this side %v, other side %v", derefAny(a), derefAny(b))
				}
				return nil
			})
		}
	}
}
