package props

import (
	"fmt"
	"os"
	"sort"
	"strings"

	"github.com/openziti/storage/boltz"
	"go.etcd.io/bbolt"
	"verif/harness/internal/core"
	"verif/harness/internal/dump"
	"verif/harness/internal/schema"
)

// C06 part (f): deletes whose clean-up is big. The random histories work with a handful of entities, so every bucket
// fits into its parent's page; here a depot is referenced by hundreds of crates (cascade-delete fk index), every crate
// is linked to a few labels (link collection) and carries roles (set index) and a serial (unique index), ids are
// 8-60 bytes long: the back-reference list, the link sets and the index buckets span several pages. The depot is
// deleted in a transaction of its own, or in the transaction that created part of its crates; then a label with
// hundreds of links is deleted; then DeleteWhere removes the crates of one role. After each commit: nothing of a
// deleted id is left anywhere in the file, the survivors' references, links and index entries are exactly theirs.
const c06BigCases = 6

func c06Big(c *core.Ctx, idx int) {
	r := c.Rand()
	depots := &schema.StoreDef{Type: "depots", BasePath: []string{"stores"},
		Fields: []schema.Field{{Name: "crates", Kind: schema.KList, FK: "crates", Derived: true}}}
	labels := &schema.StoreDef{Type: "labels", BasePath: []string{"stores"},
		Fields: []schema.Field{{Name: "crates", Kind: schema.KList, FK: "crates", Derived: true}},
		Links:  []schema.LinkDef{{Field: "crates", Target: "crates", TargetField: "labels"}}}
	fkKind := []schema.FKKind{schema.FkIndexCascade, schema.FkConstraint}[idx%2]
	fk := schema.FKDef{Field: "depot", Target: "depots", Kind: fkKind, BackRef: "crates"}
	if fkKind == schema.FkConstraint {
		fk = schema.FKDef{Field: "depot", Target: "depots", Kind: fkKind, Nullable: false, Cascade: int(boltz.CascadeDelete)}
	}
	crates := &schema.StoreDef{Type: "crates", BasePath: []string{"stores"},
		Fields: []schema.Field{{Name: "depot", Kind: schema.KStr, FK: "depots"}, {Name: "serial", Kind: schema.KStr}, {Name: "roles", Kind: schema.KList},
			{Name: "labels", Kind: schema.KList, FK: "labels", Derived: true}},
		Unique: []schema.UniqueDef{{Field: "serial", Nullable: false}}, SetIdx: []string{"roles"},
		FKs:   []schema.FKDef{fk},
		Links: []schema.LinkDef{{Field: "labels", Target: "labels", TargetField: "crates"}}}
	sc := schema.Build([]*schema.StoreDef{depots, labels, crates})
	path := c.TempFile("c06b")
	db, err := sc.OpenDb(path)
	if err != nil {
		c.Violation("C06 setup", err.Error(), nil)
		return
	}
	defer func() { _ = db.Close(); _ = os.Remove(path) }()
	dst, lst, cst := sc.St("depots"), sc.St("labels"), sc.St("crates")
	n := 240 + r.Intn(200)
	type crate struct {
		id, depot string
		labels    []string
		roles     []string
	}
	var all []*crate
	for i := 0; i < n; i++ {
		// ids of very different lengths, not in creation order
		id := fmt.Sprintf("cr-%03d-%s", (i*7919)%1000, strings.Repeat("x", (i*13)%50))
		cr := &crate{id: id, depot: "dep-A", labels: []string{"lab-one"}, roles: []string{"all", fmt.Sprintf("grp-%d", i%3)}}
		if i%5 == 0 {
			cr.depot = "dep-B"
		}
		if i%2 == 0 {
			cr.labels = append(cr.labels, "lab-two")
		}
		if i%7 == 0 {
			cr.labels = append(cr.labels, "lab-three")
		}
		all = append(all, cr)
	}
	seen := map[string]bool{}
	uniq := all[:0]
	for _, cr := range all {
		if !seen[cr.id] {
			seen[cr.id] = true
			uniq = append(uniq, cr)
		}
	}
	all = uniq
	create := func(ctx boltz.MutateContext, cr *crate) error {
		if err := cst.Store.Create(ctx, &schema.Ent{Id: cr.id, Typ: "crates", V: map[string]any{"depot": cr.depot, "serial": "sn-" + cr.id, "roles": cr.roles}}); err != nil {
			return err
		}
		return cst.Links["labels"].AddLinks(ctx.Tx(), cr.id, cr.labels...)
	}
	sameTx := idx%3 != 0 // the deleting transaction also creates the second half of the crates
	firstPart := all
	if sameTx {
		firstPart = all[:len(all)/2]
	}
	if err := db.Update(nil, func(ctx boltz.MutateContext) error {
		for _, id := range []string{"dep-A", "dep-B"} {
			if err := dst.Store.Create(ctx, &schema.Ent{Id: id, Typ: "depots", V: map[string]any{}}); err != nil {
				return err
			}
		}
		for _, id := range []string{"lab-one", "lab-two", "lab-three"} {
			if err := lst.Store.Create(ctx, &schema.Ent{Id: id, Typ: "labels", V: map[string]any{}}); err != nil {
				return err
			}
		}
		for _, cr := range firstPart {
			if err := create(ctx, cr); err != nil {
				return err
			}
		}
		return nil
	}); err != nil {
		c.Violationf("C06 big clean-up: setup failed", nil, "%v", err)
		return
	}
	live := map[string]*crate{}
	for _, cr := range firstPart {
		live[cr.id] = cr
	}
	liveLabels := map[string]bool{"lab-one": true, "lab-two": true, "lab-three": true}
	liveDepots := map[string]bool{"dep-A": true, "dep-B": true}
	var deleted []string
	verify := func(step string) {
		info := map[string]any{"step": step, "crates": len(all), "fk": map[bool]string{true: "cascade-delete fk index", false: "cascade-delete fk constraint"}[fkKind == schema.FkIndexCascade], "crates_created_in_the_deleting_transaction": sameTx}
		_ = db.View(func(tx *bbolt.Tx) error {
			d := dump.Tx(tx)
			for _, id := range deleted {
				c.Eval()
				if hits := d.FindId(id); len(hits) > 0 {
					c.Violationf("C06 big clean-up: a deleted id is still in the file after "+step+": "+traceClass(hits[0]), info, "id %q: %v", id, hits[:min(3, len(hits))])
					return nil
				}
			}
			var want []string
			for id := range live {
				want = append(want, id)
			}
			sort.Strings(want)
			if got := cst.RawIds(tx); fmt.Sprint(got) != fmt.Sprint(want) {
				c.Violationf("C06 big clean-up: surviving entities differ after "+step, info, "%d in the store, %d expected", len(got), len(want))
				return nil
			}
			for lab := range liveLabels {
				var wantL []string
				for id, cr := range live {
					if contains(cr.labels, lab) {
						wantL = append(wantL, id)
					}
				}
				sort.Strings(wantL)
				got := lst.Links["crates"].GetLinks(tx, lab)
				sort.Strings(got)
				c.Eval()
				if fmt.Sprint(got) != fmt.Sprint(wantL) {
					c.Violationf("C06 big clean-up: link set of a surviving entity differs after "+step, info, "label %s lists %d crates, %d expected; first difference %s", lab, len(got), len(wantL), firstDiff(got, wantL))
				}
			}
			if fkKind == schema.FkIndexCascade {
				for dep := range liveDepots {
					var wantD []string
					for id, cr := range live {
						if cr.depot == dep {
							wantD = append(wantD, id)
						}
					}
					sort.Strings(wantD)
					got := dst.Store.GetRelatedEntitiesIdList(tx, dep, "crates")
					sort.Strings(got)
					if fmt.Sprint(got) != fmt.Sprint(wantD) {
						c.Violationf("C06 big clean-up: back-reference list of a surviving entity differs after "+step, info, "depot %s lists %d crates, %d expected; first difference %s", dep, len(got), len(wantD), firstDiff(got, wantD))
					}
				}
			}
			for _, role := range []string{"all", "grp-0", "grp-1", "grp-2"} {
				var wantR, got []string
				for id, cr := range live {
					if contains(cr.roles, role) {
						wantR = append(wantR, id)
					}
				}
				sort.Strings(wantR)
				cst.SetIdx["roles"].Read(tx, []byte(role), func(v []byte) { got = append(got, string(v)) })
				sort.Strings(got)
				if fmt.Sprint(got) != fmt.Sprint(wantR) {
					c.Violationf("C06 big clean-up: set index differs after "+step, info, "role %s lists %d crates, %d expected; first difference %s", role, len(got), len(wantR), firstDiff(got, wantR))
				}
			}
			for id := range live {
				if holder := string(cst.Unique["serial"].Read(tx, []byte("sn-"+id))); holder != id {
					c.Violationf("C06 big clean-up: unique index entry of a surviving entity differs after "+step, info, "serial of %q held by %q", id, holder)
					break
				}
			}
			return nil
		})
		c.Count("big_cleanup_steps_verified", 1)
		c.Nontrivial("c06big", step, len(all), sameTx, fkKind == schema.FkIndexCascade)
	}
	verify("setup")
	// 1. the depot goes, and with it every crate that references it
	err = db.Update(nil, func(ctx boltz.MutateContext) error {
		if sameTx {
			for _, cr := range all[len(all)/2:] {
				if err := create(ctx, cr); err != nil {
					return err
				}
			}
		}
		return dst.Store.DeleteById(ctx, "dep-A")
	})
	if err != nil {
		c.Violationf("C06 big clean-up: cascading delete of a depot with hundreds of crates failed", map[string]any{"crates": len(all), "same_transaction": sameTx}, "%v", err)
		return
	}
	for _, cr := range all {
		live[cr.id] = cr
	}
	delete(liveDepots, "dep-A")
	deleted = append(deleted, "dep-A")
	for id, cr := range live {
		if cr.depot == "dep-A" {
			delete(live, id)
			deleted = append(deleted, id)
		}
	}
	c.Count("cascades_over_hundreds_of_referrers", 1)
	verify("the cascading delete of depot dep-A")
	// 2. a label with many links goes
	if err := db.Update(nil, func(ctx boltz.MutateContext) error { return lst.Store.DeleteById(ctx, "lab-one") }); err != nil {
		c.Violationf("C06 big clean-up: delete of a label with many links failed", nil, "%v", err)
		return
	}
	delete(liveLabels, "lab-one")
	deleted = append(deleted[:0:0], "lab-one")
	for _, cr := range live {
		cr.labels = without(cr.labels, "lab-one")
	}
	verify("the delete of label lab-one")
	// 3. DeleteWhere over one role
	if err := db.Update(nil, func(ctx boltz.MutateContext) error { return cst.Store.DeleteWhere(ctx, `anyOf(roles) = "grp-1"`) }); err != nil {
		c.Violationf("C06 big clean-up: DeleteWhere failed", nil, "%v", err)
		return
	}
	deleted = deleted[:0:0]
	for id, cr := range live {
		if contains(cr.roles, "grp-1") {
			delete(live, id)
			deleted = append(deleted, id)
		}
	}
	verify("DeleteWhere over role grp-1")
}

func without(l []string, x string) []string {
	var out []string
	for _, e := range l {
		if e != x {
			out = append(out, e)
		}
	}
	return out
}

func firstDiff(got, want []string) string {
	g, w := map[string]bool{}, map[string]bool{}
	for _, x := range got {
		g[x] = true
	}
	for _, x := range want {
		w[x] = true
	}
	for _, x := range got {
		if !w[x] {
			return fmt.Sprintf("%q listed but not expected", x)
		}
	}
	for _, x := range want {
		if !g[x] {
			return fmt.Sprintf("%q expected but not listed", x)
		}
	}
	return "none"
}

// C06 part (g): a foreign key index whose target is a child store - the back-reference list lives below the child
// store's part of the target entity. Deleting (or re-pointing) a referrer takes its id out of that list; a deleted
// referrer's id is nowhere in the file.
const c06ChildTargetCases = 6

func c06ChildTarget(c *core.Ctx, idx int) {
	r := c.Rand()
	people := &schema.StoreDef{Type: "people", BasePath: []string{"stores"}, Fields: []schema.Field{{Name: "label", Kind: schema.KStr}}}
	childPath := [][]string{{"lead"}, {"roles", "lead"}}[idx%2]
	leads := &schema.StoreDef{Type: "people", Parent: "people", ChildPath: childPath,
		Fields: []schema.Field{{Name: "rank", Kind: schema.KStr}, {Name: "tasks", Kind: schema.KList, FK: "tasks", Derived: true}}}
	leadKey := "people/" + strings.Join(childPath, "/")
	fkKind := []schema.FKKind{schema.FkIndexNullable, schema.FkIndex, schema.FkIndexCascade}[idx%3]
	tasks := &schema.StoreDef{Type: "tasks", BasePath: []string{"stores"},
		// levels: a set of integers with a set index (the strategy writes the list bucket itself)
		// code: a unique-indexed field that holds the entity's own id (a natural key used as the id)
		Fields: []schema.Field{{Name: "lead", Kind: schema.KStr, FK: leadKey}, {Name: "levels", Kind: schema.KI64Set}, {Name: "code", Kind: schema.KStr}},
		SetIdx: []string{"levels"}, Unique: []schema.UniqueDef{{Field: "code", Nullable: true}},
		FKs: []schema.FKDef{{Field: "lead", Target: leadKey, Kind: fkKind, BackRef: "tasks"}}}
	sc := schema.Build([]*schema.StoreDef{people, leads, tasks})
	path := c.TempFile("c06t")
	db, err := sc.OpenDb(path)
	if err != nil {
		c.Violation("C06 setup", err.Error(), nil)
		return
	}
	defer func() { _ = db.Close(); _ = os.Remove(path) }()
	pst, lst, tst := sc.St("people"), sc.St(leadKey), sc.St("tasks")
	info := map[string]any{"child_path": childPath, "fk_kind": []string{"nullable fk index", "fk index", "cascade-delete fk index"}[idx%3]}
	if err := db.Update(nil, func(ctx boltz.MutateContext) error {
		for _, id := range []string{"lead-1", "lead-2"} {
			if err := lst.Store.Create(ctx, &schema.Ent{Id: id, Typ: "people", HasChild: true, V: map[string]any{"label": "l", "rank": "r"}}); err != nil {
				return err
			}
		}
		return pst.Store.Create(ctx, &schema.Ent{Id: "plain-1", Typ: "people", V: map[string]any{"label": "p"}})
	}); err != nil {
		c.Violationf("C06 fk index into a child store: setup failed", info, "%v", err)
		return
	}
	refs := map[string]string{} // task -> lead
	var gone []string
	verify := func(step string) {
		_ = db.View(func(tx *bbolt.Tx) error {
			d := dump.Tx(tx)
			for _, id := range gone {
				c.Eval()
				if hits := d.FindId(id); len(hits) > 0 {
					c.Violationf("C06 fk index into a child store: a deleted id is still in the file after "+step+": "+traceClass(hits[0]), info, "id %q: %v", id, hits[:min(3, len(hits))])
				}
			}
			// the set index over the integer set: every living task is listed under 7, nobody else is
			var under7, wantTasks []string
			key7 := make([]byte, 8)
			key7[0] = 7
			tst.SetIdx["levels"].Read(tx, key7, func(v []byte) { under7 = append(under7, string(v)) })
			for t := range refs {
				wantTasks = append(wantTasks, t)
			}
			sort.Strings(under7)
			sort.Strings(wantTasks)
			if fmt.Sprint(under7) != fmt.Sprint(wantTasks) {
				c.Violationf("C06 set index over an integer set differs from the entities after "+step, info, "level 7 lists %q, tasks %q", under7, wantTasks)
			}
			for _, lead := range []string{"lead-1", "lead-2"} {
				if !lst.Store.IsEntityPresent(tx, lead) {
					continue
				}
				var want []string
				for t, l := range refs {
					if l == lead {
						want = append(want, t)
					}
				}
				sort.Strings(want)
				got := lst.Store.GetRelatedEntitiesIdList(tx, lead, "tasks")
				sort.Strings(got)
				if fmt.Sprint(got) != fmt.Sprint(want) {
					c.Violationf("C06 fk index into a child store: back-reference list differs from the committed references after "+step, info, "%s lists %q, expected %q", lead, got, want)
				}
			}
			return nil
		})
		c.Count("child_store_target_steps", 1)
	}
	for step := 0; step < 30; step++ {
		id := fmt.Sprintf("task-%d", r.Intn(5))
		lead := core.Pick(r, []string{"lead-1", "lead-2", "lead-1"})
		_, exists := refs[id]
		op := core.Pick(r, []string{"create", "create", "repoint", "delete", "delete", "create-to-plain"})
		var opErr error
		wantOk := true
		switch op {
		case "create":
			if exists {
				continue
			}
			opErr = db.Update(nil, func(ctx boltz.MutateContext) error {
				return tst.Store.Create(ctx, &schema.Ent{Id: id, Typ: "tasks", V: map[string]any{"lead": lead, "code": id, "levels": []int64{7, int64(step % 3), -1}}})
			})
			if opErr == nil {
				refs[id] = lead
				for i, g := range gone {
					if g == id {
						gone = append(gone[:i], gone[i+1:]...)
						break
					}
				}
			}
		case "create-to-plain":
			// an entity of the parent store without data in the child store is no target
			if exists {
				continue
			}
			wantOk = false
			opErr = db.Update(nil, func(ctx boltz.MutateContext) error {
				return tst.Store.Create(ctx, &schema.Ent{Id: id, Typ: "tasks", V: map[string]any{"lead": "plain-1"}})
			})
		case "repoint":
			if !exists {
				continue
			}
			opErr = db.Update(nil, func(ctx boltz.MutateContext) error {
				return tst.Store.Update(ctx, &schema.Ent{Id: id, Typ: "tasks", V: map[string]any{"lead": lead, "code": id, "levels": []int64{7, int64(step%3) + 10}}}, nil)
			})
			if opErr == nil {
				refs[id] = lead
			}
		case "delete":
			if !exists {
				continue
			}
			opErr = db.Update(nil, func(ctx boltz.MutateContext) error { return tst.Store.DeleteById(ctx, id) })
			if opErr == nil {
				delete(refs, id)
				gone = append(gone, id)
			}
		}
		c.Eval()
		c.Nontrivial("c06childtarget", op, idx%6, len(refs))
		if (opErr == nil) != wantOk {
			c.Violationf("C06 fk index into a child store: "+op+" expected accepted="+fmt.Sprint(wantOk), info, "task %s -> %s: %v", id, lead, opErr)
		}
		verify(op)
	}
}
