package props

import (
	"fmt"

	"github.com/openziti/storage/ast"
	"github.com/openziti/storage/boltz"
	"verif/harness/internal/core"
	"verif/harness/internal/qx"
	"verif/harness/internal/schema"
)

// C20 part (b): who a symbol is public for. A parent store grants its symbols to two child stores; afterwards one child
// publishes some of the names the parent keeps private (and a symbol of its own). A name is public for a store exactly
// when that store inherited it as public or published it itself: what one store publishes does not leak to its parent
// or to its sibling. Judged through IsPublicSymbol and through ValidateSymbolsArePublic on a filter over the name.
const c20GrantCases = 16

var c20GrantFilters = map[string]string{"s": `s = "x"`, "ism": `ism = 1`, "b": `b = true`, "tags": `anyOf(tags) = "x"`, "flt": `flt > 1.5`, "nums": `isEmpty(nums)`}

func c20GrantCase(c *core.Ctx, idx int) {
	r := c.Rand()
	names := []string{"s", "ism", "b", "tags", "flt", "nums"}
	private := map[string]bool{}
	for _, n := range names {
		private[n] = r.P(0.6)
	}
	defs := qx.DefsPrivate(private)
	defs = append(defs,
		&schema.StoreDef{Type: qx.Things, Parent: qx.Things, ChildPath: []string{"kid"}, Fields: []schema.Field{{Name: "extra", Kind: schema.KStr, Private: true}}},
		&schema.StoreDef{Type: qx.Things, Parent: qx.Things, ChildPath: []string{"sib"}, Fields: []schema.Field{{Name: "other", Kind: schema.KStr, Private: true}}})
	sc := schema.Build(defs)
	parent, kid, sib := sc.St(qx.Things), sc.St(qx.Things+"/kid"), sc.St(qx.Things+"/sib")
	published := map[string]bool{}
	for _, n := range names {
		if private[n] && r.P(0.6) {
			kid.Store.MakeSymbolPublic(n)
			published[n] = true
		}
	}
	if r.Bool() {
		kid.Store.MakeSymbolPublic("extra")
		published["extra"] = true
	}
	info := map[string]any{"private_in_parent": fmt.Sprint(private), "published_by_first_child": fmt.Sprint(published)}
	for _, tc := range []struct {
		who   string
		st    *schema.St
		wantF func(n string) bool
	}{
		{"the parent store", parent, func(n string) bool { return !private[n] }},
		{"the child store which published it", kid, func(n string) bool { return !private[n] || published[n] }},
		{"the sibling child store", sib, func(n string) bool { return !private[n] }},
	} {
		for _, n := range names {
			want := tc.wantF(n)
			c.Eval()
			c.Count("grant_checks", 1)
			if got := tc.st.Store.IsPublicSymbol(n); got != want {
				c.Violationf("C20 a symbol published by one child store changes who else it is public for: IsPublicSymbol through "+tc.who, info, "symbol %s: public=%v, expected %v", n, got, want)
			}
			q, err := ast.Parse(tc.st.Store, c20GrantFilters[n])
			if err != nil {
				c.Violationf("C20 grant: filter rejected", info, "%s through %s: %v", c20GrantFilters[n], tc.who, err)
				continue
			}
			verr := boltz.ValidateSymbolsArePublic(q, tc.st.Store)
			if (verr == nil) != want {
				c.Violationf("C20 a symbol published by one child store changes who else it is public for: validation through "+tc.who, info, "filter %q: validation error %v, symbol expected public=%v", c20GrantFilters[n], verr, want)
			}
		}
	}
	// the child's own symbol is nobody else's
	if parent.Store.IsPublicSymbol("extra") || sib.Store.IsPublicSymbol("extra") {
		c.Violationf("C20 a child store's own symbol is public for its parent or sibling", info, "extra: parent %v, sibling %v", parent.Store.IsPublicSymbol("extra"), sib.Store.IsPublicSymbol("extra"))
	}
	c.Nontrivial("c20grant", fmt.Sprint(private), fmt.Sprint(published))
}
