package props

import (
	"fmt"
	"sort"
	"strings"
	"sync"

	"github.com/openziti/storage/ast"
	"github.com/openziti/storage/boltz"
	"go.etcd.io/bbolt"
	"verif/harness/internal/core"
	"verif/harness/internal/dump"
	"verif/harness/internal/kmodel"
	"verif/harness/internal/ql"
	"verif/harness/internal/schema"
)

var c15Configs = []kmodel.Config{
	{DeptFK: schema.FkIndexNullable, BossCascade: boltz.CascadeNone, BossNullable: true, Children: true},
	{DeptFK: schema.FkIndex, BossCascade: boltz.CascadeDelete, BossNullable: true, Children: true},
	{DeptFK: schema.FkIndexCascade, BossCascade: boltz.CascadeCreateUpdate, BossNullable: true, Children: true},
}

// c15Watch is an entity constraint registered on the parent store: it records the initial and final shared fields of
// every update it is shown before the commit.
type c15Watch struct {
	mu   sync.Mutex
	seen []c15Update
}

type c15Update struct {
	id             string
	initial, final map[string]string
}

func c15Fields(e *schema.Ent) map[string]string {
	out := map[string]string{}
	if e == nil {
		return out
	}
	for _, f := range []string{"name", "nick", "title"} {
		out[f], _ = e.V[f].(string)
	}
	return out
}

func (w *c15Watch) ProcessPreCommit(s *boltz.EntityChangeState[*schema.Ent]) error {
	if s.ChangeType == boltz.EntityUpdated {
		w.mu.Lock()
		w.seen = append(w.seen, c15Update{id: s.EntityId, initial: c15Fields(s.InitialState), final: c15Fields(s.FinalState)})
		w.mu.Unlock()
	}
	return nil
}

func (w *c15Watch) ProcessPostCommit(*boltz.EntityChangeState[*schema.Ent]) {}

func (w *c15Watch) take() []c15Update {
	w.mu.Lock()
	defer w.mu.Unlock()
	out := w.seen
	w.seen = nil
	return out
}

func idsOf(c ast.SetCursor) []string {
	var out []string
	for ; c.IsValid(); c.Next() {
		out = append(out, string(c.Current()))
	}
	return out
}

const c15SibCases = 24

func init() {
	core.Register(&core.Property{
		ID:    "C15",
		Level: "exploration",
		Rule: "random histories issuing create/update/patch/delete through the parent store (emps), a plain child store (emps/ext) and an extended child store (emps/xt) over mixed populations; " +
			"after every transaction: FindById/LoadById visibility and shared fields through each store, child data presence, parent unique/set/fk indexes (structural monitor), QueryIds/IterateIds/IterateValidIds through each store vs the model, " +
			"a whole-file scan for the id after deletes through either store, and an entity constraint on the parent store that must be handed the pre-transaction state for updates of plain and child entities alike; part (c): one parent with two sibling child stores, the second plain or extended and owning a link collection of its own: every existing entity - with data in neither, one or both child stores - can be deleted through the parent store, errors change nothing; part (b): a delete refused by a constraint of the child store (veto constraint, fk restrict from a store referencing the child store) must fail and change nothing whether issued through the parent or the child store, and remove both parts once the blocker is gone. non-trivial = distinct (op kind, store routed through, entity child kind, outcome, configuration) tuples",
		Assumptions: []string{"a create through a child store over an entity without data in that store is read as: the entity then exists in both, its shared fields are the payload's, validated like an update (what the repaired code does); deleting a plain parent through the non-extended child store is not generated (undefined by the statement)",
			"the harness update mapper copies the caller's shared fields onto the loaded child entity (what an application mapper must do)"},
		Plan: func(tier core.Tier, seed int64) int {
			if tier == core.Thorough {
				return 60000 + c15VetoCases + c15SibCases*4
			}
			return 600 + c15VetoCases + c15SibCases
		},
		Run: func(c *core.Ctx, idx int) {
			nHist := 600
			if c.Tier == core.Thorough {
				nHist = 60000
			}
			if idx >= nHist+c15VetoCases {
				// a parent with two sibling child stores, the second (plain or extended) with a link collection of its own:
				// every existing entity, with or without data in either child store, can be deleted through the parent
				siblingScenario(c, idx-nHist-c15VetoCases, "C15")
				return
			}
			if idx >= nHist {
				c15VetoCase(c, idx-nHist)
				return
			}
			r := c.Rand()
			cfg := c15Configs[idx%len(c15Configs)]
			w := map[string]int{"create": 10, "update": 8, "patch": 8, "delete": 6, "deletewhere": 2, "addlinks": 1, "rcinc": 1}
			var pre *kmodel.Model
			// a constraint on the PARENT store sees every update, also those issued through a child store; it must be
			// handed the state before the update (plain and child entities alike)
			watch := &c15Watch{}
			runHistory(c, r, histOpts{Prefix: "C15", FanIn: true, Cfg: cfg, NTx: 40, MaxOps: 3, Hostile: true, Weights: w, NeedDump: true,
				Setup: func(e *kmodel.Engine) {
					e.Sc.St(kmodel.Emps).Store.AddEntityConstraint(watch)
					e.M.Upgrade = true // creates through a child store over an entity without data in that store are judged
				},
				AfterTx: func(e *kmodel.Engine, res *kmodel.TxResult, before, after *dump.Dump) {
					defer func() { pre = e.M.Clone() }()
					seen := watch.take()
					if res.Committed && pre != nil {
						touched := map[string]int{}
						for _, op := range res.Ops {
							touched[op.Id]++
						}
						for _, u := range seen {
							old, existed := pre.Ents[kmodel.Emps][u.id]
							if !existed || touched[u.id] != 1 {
								continue // created or touched several times in this transaction: the first state is not the committed one
							}
							c.Eval()
							c.Count("parent_constraint_updates_seen", 1)
							kind := "plain"
							for k := range old.Child {
								kind = k
							}
							c.Cover("parent_constraint", "update of "+kind+" entity")
							for _, f := range []string{"name", "nick", "title"} {
								want, _ := old.V[f].(string)
								if u.initial[f] != want {
									c.Violationf("C15 parent-store constraint was handed a wrong initial state for an update of a "+kind+" entity", map[string]any{"cfg": cfg.String(), "tx": res.Ops, "id": u.id, "field": f},
										"update of %s: initial %s = %q, before the transaction it was %q (final state has %q)", u.id, f, u.initial[f], want, u.final[f])
									break
								}
							}
						}
					}
					for _, op := range res.Ops {
						kind := "plain"
						if pre != nil {
							if ent, ok := pre.Ents[kmodel.Emps][op.Id]; ok {
								for k := range ent.Child {
									kind = k
								}
							}
						}
						if pre != nil && op.Kind == "create" && op.Store != kmodel.Emps && op.Exp == kmodel.ExpOK {
							if _, existed := pre.Ents[kmodel.Emps][op.Id]; existed {
								c.Count("creates_through_a_child_store_over_an_existing_entity", 1)
								c.Cover("create_over_existing", op.Store+" over "+kind)
							}
						}
						if kmodel.RootOf(op.Store) == kmodel.Emps {
							c.Nontrivial(op.Kind, op.Store, kind, op.Exp, cfg.String())
							c.Cover("route", op.Kind+" via "+op.Store+" on "+kind+":"+op.Exp)
						}
					}
					// queries through each store
					var all, mgrs, ctrs []string
					for id, ent := range e.M.Ents[kmodel.Emps] {
						all = append(all, id)
						if _, ok := ent.Child[kmodel.Mgrs]; ok {
							mgrs = append(mgrs, id)
						}
						if _, ok := ent.Child[kmodel.Ctrs]; ok {
							ctrs = append(ctrs, id)
						}
					}
					sort.Strings(all)
					sort.Strings(mgrs)
					sort.Strings(ctrs)
					_ = e.Db.View(func(tx *bbolt.Tx) error {
						type q struct {
							store string
							what  string
							exp   []string
							got   func(st *schema.St) ([]string, error)
						}
						query := func(st *schema.St) ([]string, error) {
							ids, n, err := st.Store.QueryIds(tx, "true")
							if err == nil && int(n) != len(ids) {
								err = fmt.Errorf("count %d != len %d", n, len(ids))
							}
							return ids, err
						}
						queryEmpty := func(st *schema.St) ([]string, error) {
							ids, _, err := st.Store.QueryIds(tx, "")
							return ids, err
						}
						queryDesc := func(st *schema.St) ([]string, error) {
							ids, _, err := st.Store.QueryIds(tx, "true sort by id desc")
							rev := make([]string, len(ids))
							for i, id := range ids {
								rev[len(ids)-1-i] = id
							}
							return rev, err
						}
						querySorted := func(st *schema.St) ([]string, error) {
							ids, _, err := st.Store.QueryIds(tx, "true sort by title desc, grade")
							out := append([]string{}, ids...)
							sort.Strings(out)
							return out, err
						}
						// sorted by the unique-indexed fields (name: non-nullable index, nick: nullable index, many nulls)
						queryByUnique := func(st *schema.St) ([]string, error) {
							var out []string
							for _, text := range []string{"true sort by nick", "true sort by nick desc, name", "sort by name", "true sort by name desc limit none"} {
								ids, n, err := st.Store.QueryIds(tx, text)
								if err != nil {
									return nil, fmt.Errorf("%s: %w", text, err)
								}
								if int(n) != len(ids) {
									return nil, fmt.Errorf("%s: count %d != %d ids", text, n, len(ids))
								}
								sorted := append([]string{}, ids...)
								sort.Strings(sorted)
								if out != nil && !sameList(out, sorted) {
									return sorted, fmt.Errorf("%s returned another id set than the previous sort: %q vs %q", text, sorted, out)
								}
								out = sorted
							}
							return out, nil
						}
						queryPaged := func(st *schema.St) ([]string, error) {
							// two pages must concatenate to the full answer
							a, n1, err := st.Store.QueryIds(tx, "true limit 2")
							if err != nil {
								return nil, err
							}
							b, n2, err := st.Store.QueryIds(tx, "true skip 2 limit none")
							if n1 != n2 {
								err = fmt.Errorf("counts differ between pages: %d vs %d", n1, n2)
							}
							// count-only requests (limit 0), unsorted and sorted: no ids, the same count
							for _, text := range []string{"true limit 0", "true sort by title limit 0", "true sort by nick desc, name limit 0", "sort by name skip 1 limit 0", "true sort by id desc limit 0"} {
								ids, n0, err0 := st.Store.QueryIds(tx, text)
								if err0 != nil {
									return nil, err0
								}
								if len(ids) != 0 || n0 != n1 {
									return append(a, b...), fmt.Errorf("%s: %d ids, count %d; the pages counted %d", text, len(ids), n0, n1)
								}
							}
							return append(a, b...), err
						}
						iter := func(st *schema.St) ([]string, error) {
							return idsOf(st.Store.IterateIds(tx, ast.BoolNodeTrue)), nil
						}
						iterValid := func(st *schema.St) ([]string, error) {
							return idsOf(st.Store.IterateValidIds(tx, ast.BoolNodeTrue)), nil
						}
						// Seek to every id of the parent store (and in front of / behind all of them), then the rest of the
						// enumeration: the store's ids at or behind the target, nothing else
						seekAll := func(valid bool) func(st *schema.St) ([]string, error) {
							return func(st *schema.St) ([]string, error) {
								pop := all
								if st.Def.Parent != "" && (!st.Def.Extended || valid) {
									pop = mgrs
									if st == e.Sc.St(kmodel.Ctrs) {
										pop = ctrs
									}
								}
								for _, target := range append(append([]string{""}, all...), "\xff") {
									cur := st.Store.IterateIds(tx, ast.BoolNodeTrue)
									if valid {
										cur = st.Store.IterateValidIds(tx, ast.BoolNodeTrue)
									}
									cur.Seek([]byte(target))
									got := idsOf(cur)
									var want []string
									for _, id := range pop {
										if id >= target {
											want = append(want, id)
										}
									}
									if !sameList(got, want) {
										return got, fmt.Errorf("after Seek(%q): %q, the store's ids at or behind the target are %q", target, got, want)
									}
								}
								return pop, nil
							}
						}
						// a page of two with the total count, in both id directions and unsorted: the count is the store's population
						pagedCount := func(st *schema.St) ([]string, error) {
							pop := all
							if st.Def.Parent != "" && !st.Def.Extended {
								pop = mgrs
							}
							for _, text := range []string{"true sort by id desc limit 2", "true sort by id limit 2", "true limit 2", "true sort by id desc skip 1 limit 1", "limit 1"} {
								_, n, err := st.Store.QueryIds(tx, text)
								if err != nil || int(n) != len(pop) {
									return nil, fmt.Errorf("%s: count %d err=%v, the store holds %d entities", text, n, err, len(pop))
								}
							}
							return pop, nil
						}
						for _, qq := range []q{
							{kmodel.Emps, "QueryIds(page of two, count)", all, pagedCount}, {kmodel.Mgrs, "QueryIds(page of two, count)", mgrs, pagedCount}, {kmodel.Ctrs, "QueryIds(page of two, count)", all, pagedCount},
							{kmodel.Emps, "IterateIds + Seek", all, seekAll(false)}, {kmodel.Mgrs, "IterateIds + Seek", mgrs, seekAll(false)}, {kmodel.Ctrs, "IterateIds + Seek", all, seekAll(false)},
							{kmodel.Emps, "IterateValidIds + Seek", all, seekAll(true)}, {kmodel.Mgrs, "IterateValidIds + Seek", mgrs, seekAll(true)}, {kmodel.Ctrs, "IterateValidIds + Seek", ctrs, seekAll(true)},
							{kmodel.Emps, "QueryIds(true)", all, query}, {kmodel.Emps, "QueryIds()", all, queryEmpty}, {kmodel.Emps, "IterateIds", all, iter}, {kmodel.Emps, "IterateValidIds", all, iterValid},
							{kmodel.Mgrs, "QueryIds(true)", mgrs, query}, {kmodel.Mgrs, "QueryIds()", mgrs, queryEmpty}, {kmodel.Mgrs, "IterateIds", mgrs, iter}, {kmodel.Mgrs, "IterateValidIds", mgrs, iterValid},
							{kmodel.Emps, "QueryIds(sort by id desc)", all, queryDesc}, {kmodel.Mgrs, "QueryIds(sort by id desc)", mgrs, queryDesc}, {kmodel.Ctrs, "QueryIds(sort by id desc)", all, queryDesc},
							{kmodel.Emps, "QueryIds(sort by title desc, grade)", all, querySorted}, {kmodel.Mgrs, "QueryIds(sort by title desc, grade)", mgrs, querySorted}, {kmodel.Ctrs, "QueryIds(sort by title desc, grade)", all, querySorted},
							{kmodel.Emps, "QueryIds(sort by unique-indexed fields)", all, queryByUnique}, {kmodel.Mgrs, "QueryIds(sort by unique-indexed fields)", mgrs, queryByUnique}, {kmodel.Ctrs, "QueryIds(sort by unique-indexed fields)", all, queryByUnique},
							{kmodel.Emps, "QueryIds(paged)", all, queryPaged}, {kmodel.Mgrs, "QueryIds(paged)", mgrs, queryPaged}, {kmodel.Ctrs, "QueryIds(paged)", all, queryPaged},
							{kmodel.Ctrs, "QueryIds(true)", all, query}, {kmodel.Ctrs, "QueryIds()", all, queryEmpty}, {kmodel.Ctrs, "IterateIds", all, iter}, {kmodel.Ctrs, "IterateValidIds", ctrs, iterValid},
						} {
							got, err := qq.got(e.Sc.St(qq.store))
							c.Eval()
							if err != nil || !sameList(got, qq.exp) {
								c.Violationf("C15 query through store: "+qq.store+" "+qq.what, map[string]any{"cfg": cfg.String(), "tx": res.Ops},
									"%s on %s returned %q err=%v, model expects %q", qq.what, qq.store, got, err, qq.exp)
							}
						}
						// lookups by id through each store: visible exactly when the store's population holds the id
						inList := func(l []string, id string) bool {
							for _, x := range l {
								if x == id {
									return true
								}
							}
							return false
						}
						for _, id := range append(append([]string{}, all...), "no-such-id") {
							for _, sp := range []struct {
								store string
								pop   []string
							}{{kmodel.Emps, all}, {kmodel.Mgrs, mgrs}, {kmodel.Ctrs, all}} {
								var exp []string
								if inList(sp.pop, id) {
									exp = []string{id}
								}
								for _, text := range []string{"id = " + ql.Lit(id), "id in [" + ql.Lit(id) + "]", "id = " + ql.Lit(id) + " sort by title", "id = " + ql.Lit(id) + " and true"} {
									got, n, err := e.Sc.St(sp.store).Store.QueryIds(tx, text)
									c.Eval()
									if err != nil || !sameList(got, exp) || int(n) != len(exp) {
										c.Violationf("C15 query through store: "+sp.store+" lookup by id ("+strings.SplitN(text, " ", 3)[1]+")", map[string]any{"cfg": cfg.String(), "tx": res.Ops, "query": text},
											"%q on %s returned %q count %d err=%v, model expects %q", text, sp.store, got, n, err, exp)
									}
								}
							}
						}
						// a page in the middle, with a constant filter, through each store
						for _, sp := range []struct {
							store string
							pop   []string
						}{{kmodel.Emps, all}, {kmodel.Mgrs, mgrs}, {kmodel.Ctrs, all}} {
							for _, text := range []string{"true skip 1 limit 2", "skip 1 limit 2", "false skip 1"} {
								var exp []string
								total := len(sp.pop)
								if text[0] == 'f' {
									total = 0
								} else if len(sp.pop) > 1 {
									exp = sp.pop[1:min(3, len(sp.pop))]
								}
								got, n, err := e.Sc.St(sp.store).Store.QueryIds(tx, text)
								c.Eval()
								if err != nil || !sameList(got, exp) || int(n) != total {
									c.Violationf("C15 query through store: "+sp.store+" page with a constant filter", map[string]any{"cfg": cfg.String(), "tx": res.Ops, "query": text},
										"%q on %s returned %q count %d err=%v, model expects %q count %d", text, sp.store, got, n, err, exp, total)
								}
							}
						}
						return nil
					})
					// deletes leave both parts gone
					if res.Committed && after != nil && pre != nil {
						for id := range pre.Ents[kmodel.Emps] {
							if _, still := e.M.Ents[kmodel.Emps][id]; !still {
								c.Eval()
								c.Count("deletes_scanned", 1)
								var real []string
								for _, h := range after.FindId(id) {
									if cfg.BossCascade == boltz.CascadeCreateUpdate && containsBoss(h) {
										continue
									}
									real = append(real, h)
								}
								if len(real) > 0 {
									c.Violationf("C15 delete left a part behind: "+traceClass(real[0]), map[string]any{"cfg": cfg.String(), "tx": res.Ops, "id": id}, "id %q still occurs: %v", id, real)
								}
							}
						}
					}
				}})
		},
		Promises: func(core.Tier) map[string][]string {
			return map[string][]string{"create_over_existing": {kmodel.Mgrs + " over plain", kmodel.Ctrs + " over plain", kmodel.Ctrs + " over " + kmodel.Mgrs, kmodel.Mgrs + " over " + kmodel.Ctrs},
				"child_level_block": {"veto constraint on the child store / through parent", "veto constraint on the child store / through child", "fk restrict from a store referencing the child store / through parent", "fk restrict from a store referencing the child store / through child",
					"update veto on the parent store / plain entity through parent", "update veto on the parent store / " + kmodel.Mgrs + " entity through parent", "update veto on the parent store / " + kmodel.Mgrs + " entity through child", "update veto on the parent store / " + kmodel.Ctrs + " entity through child"},
				"parent_constraint": {"update of plain entity", "update of " + kmodel.Mgrs + " entity", "update of " + kmodel.Ctrs + " entity"}, "route": {
					"create via emps/ext on plain:ok", "create via emps/xt on plain:ok", "create via emps on plain:ok",
					"update via emps on emps/ext:ok", "update via emps on emps/xt:ok", "update via emps/ext on emps/ext:ok", "update via emps/xt on emps/xt:ok",
					"patch via emps on emps/ext:ok", "patch via emps/ext on emps/ext:ok", "patch via emps/xt on emps/xt:ok",
					"delete via emps on emps/ext:ok", "delete via emps/ext on emps/ext:ok", "delete via emps/xt on emps/xt:ok", "delete via emps/xt on plain:ok",
					"update via emps/ext on plain:notfound", "update via emps/xt on plain:notfound",
				}} // "update via emps on emps/ext:dup" occurs at most seeds but is not promised (seed 2 never generates it)
		},
	})
}

func containsBoss(h string) bool {
	return strings.Contains(h, `/"bs"`) // the boss field is stored under the key "bs"
}

func sameList(a, b []string) bool {
	if len(a) != len(b) {
		return false
	}
	for i := range a {
		if a[i] != b[i] {
			return false
		}
	}
	return true
}
