package props

import (
	"verif/harness/internal/core"
	"verif/harness/internal/kmodel"
)

func init() {
	core.Register(&core.Property{
		ID:    "C03",
		Level: "exploration",
		Rule: "random histories (create/update/patch/delete, accepted and rejected, 1-4 ops per transaction, value reuse, hand-overs) over schema K; " +
			"after every transaction a structural monitor recomputes unique and set index contents from the entities and compares raw index buckets and index API reads; " +
			"part (b): one parent with two sibling child stores (own unique and set indexes), entities with data in one / the other / both, operations through all three stores: after every operation the five raw index buckets equal what the raw entity buckets imply (no missing, stale or empty entries). non-trivial = distinct (op kind, store, predicted outcome, population class, configuration, checker size) tuples",
		Assumptions: []string{"entity state is read through FindById and compared with the reference model first; the index expectation is derived from that verified state",
			"a rejected operation's error is returned by the transaction body (the library's rollback contract)"},
		Plan: func(tier core.Tier, seed int64) int {
			if tier == core.Thorough {
				return 60000 + 48*20 + c03DeepCases*10
			}
			return 640 + 48 + c03DeepCases
		},
		Run: func(c *core.Ctx, idx int) {
			nHist := 640
			if c.Tier == core.Thorough {
				nHist = 60000
			}
			nSib := 48
			if c.Tier == core.Thorough {
				nSib *= 20
			}
			if idx >= nHist+nSib {
				c03Deep(c, idx-nHist-nSib) // a store three buckets deep with four indexes
				return
			}
			if idx >= nHist {
				siblingScenario(c, idx-nHist, "C03") // two sibling child stores with their own indexes, model-free index mirror
				return
			}
			r := c.Rand()
			cfg := kmodel.AllConfigs[idx%len(kmodel.AllConfigs)]
			w := map[string]int{"create": 10, "update": 8, "patch": 8, "delete": 5, "deletewhere": 2}
			runHistory(c, r, histOpts{Prefix: "C03", FanIn: true, Cfg: cfg, NTx: 40, MaxOps: 4, Hostile: true, Weights: w})
		},
		Promises: func(core.Tier) map[string][]string {
			return map[string][]string{"op_outcome": {"create:ok", "create:dup", "update:ok", "update:dup", "patch:ok", "patch:dup", "delete:ok", "create:reject", "update:notfound"}}
		},
	})
}
