package props

import (
	"context"
	"fmt"
	"os"
	"sort"
	"strings"
	"sync"

	"github.com/openziti/storage/boltz"
	"go.etcd.io/bbolt"
	"verif/harness/internal/core"
	"verif/harness/internal/dump"
	"verif/harness/internal/ql"
	"verif/harness/internal/schema"
)

// C06 part (b): one parent store with TWO sibling child stores (each with its own unique and set index), a link
// collection on the parent and an fk from another store. An id may get data in one, the other or both child stores
// (created through the first, then through the second). Judged without a model: after a committed delete - through
// the parent or either child store - the id occurs nowhere in the file, and a re-created entity reads back with the
// new values only. What a create through the second child store over existing data does is not judged.
const c06SibCases = 48

func c06Siblings(c *core.Ctx, idx int) { siblingScenario(c, idx, "C06") }

// sibIndexProblems recomputes what the five indexes of the sibling schema must hold from the raw entity buckets and
// compares with the raw index buckets; it also lists owner references (fk constraints of both child stores) that name
// a missing hub.
func sibIndexProblems(tx *bbolt.Tx, sc *schema.Schema) (index []string, dangling []string) {
	type idx struct {
		sym    string
		unique bool
		path   []string // below the entity bucket
	}
	idxs := []idx{{"tags", false, []string{"tags"}}, {"acode", true, []string{"kids", "ka", "acode"}}, {"aroles", false, []string{"kids", "ka", "aroles"}}, {"bcode", true, []string{"kids", "kb", "bcode"}}, {"broles", false, []string{"kids", "kb", "broles"}}}
	ids := sc.St("nodes").RawIds(tx)
	hubs := map[string]bool{}
	for _, h := range sc.St("hubs").RawIds(tx) {
		hubs[h] = true
	}
	for _, ix := range idxs {
		want := map[string]map[string]bool{}
		for _, id := range ids {
			b := bpath(tx, append([]string{"stores", "nodes", id}, ix.path[:len(ix.path)-1]...)...)
			if b == nil {
				continue
			}
			last := ix.path[len(ix.path)-1]
			if ix.unique {
				if v := boltz.FieldToString(boltz.GetTypeAndValue(b.Get([]byte(last)))); v != nil && *v != "" {
					if want[*v] == nil {
						want[*v] = map[string]bool{}
					}
					want[*v][id] = true
				}
			} else if lb := b.Bucket([]byte(last)); lb != nil {
				_ = lb.ForEach(func(k, _ []byte) error {
					if len(k) > 1 {
						if want[string(k[1:])] == nil {
							want[string(k[1:])] = map[string]bool{}
						}
						want[string(k[1:])][id] = true
					}
					return nil
				})
			}
		}
		got := map[string]map[string]bool{}
		if ib := bpath(tx, "stores", "indexes", "nodes", ix.sym); ib != nil {
			_ = ib.ForEach(func(k, v []byte) error {
				if ix.unique {
					got[string(k)] = map[string]bool{string(v): true}
					return nil
				}
				got[string(k)] = map[string]bool{}
				if vb := ib.Bucket(k); vb != nil {
					_ = vb.ForEach(func(ek, _ []byte) error {
						if len(ek) > 1 {
							got[string(k)][string(ek[1:])] = true
						}
						return nil
					})
				}
				return nil
			})
		}
		for v, holders := range want {
			for id := range holders {
				if !got[v][id] {
					index = append(index, fmt.Sprintf("index %s: entry %q -> %s missing", ix.sym, v, id))
				}
			}
		}
		for v, holders := range got {
			if len(holders) == 0 {
				index = append(index, fmt.Sprintf("index %s: empty key %q left behind", ix.sym, v))
			}
			for id := range holders {
				if !want[v][id] {
					index = append(index, fmt.Sprintf("index %s: stale entry %q -> %s", ix.sym, v, id))
				}
			}
		}
	}
	for _, id := range ids {
		for _, kid := range []string{"ka", "kb"} {
			if b := bpath(tx, "stores", "nodes", id, "kids", kid); b != nil {
				if v := boltz.FieldToString(boltz.GetTypeAndValue(b.Get([]byte("owner")))); v != nil && *v != "" && !hubs[*v] {
					dangling = append(dangling, fmt.Sprintf("nodes[%s].%s.owner = %s which does not exist", id, kid, *v))
				}
			}
		}
	}
	sort.Strings(index)
	sort.Strings(dangling)
	return
}

// siblingScenario runs the sibling-child-stores history for property prop (violation keys carry its id).
func siblingScenario(c *core.Ctx, idx int, prop string) {
	r := c.Rand()
	hubs := &schema.StoreDef{Type: "hubs", BasePath: []string{"stores"},
		Fields: []schema.Field{{Name: "nodes", Kind: schema.KList, FK: "nodes", Derived: true}, {Name: "bnodes", Kind: schema.KList, FK: "nodes/kids/kb", Derived: true}},
		Links:  []schema.LinkDef{{Field: "nodes", Target: "nodes", TargetField: "hubs"}, {Field: "bnodes", Target: "nodes/kids/kb", TargetField: "bhubs"}}}
	// for C03 / C15 the parent store knows system entities: a delete from an ordinary context is refused at the parent
	// level, and a caller which notes that and commits must find every index of every part untouched
	sysNodes := prop == "C03" || prop == "C15"
	nodes := &schema.StoreDef{Type: "nodes", BasePath: []string{"stores"}, Ext: sysNodes, System: sysNodes,
		Fields: []schema.Field{{Name: "label", Kind: schema.KStr}, {Name: "tags", Kind: schema.KList}, {Name: "hubs", Kind: schema.KList, FK: "hubs", Derived: true}},
		SetIdx: []string{"tags"},
		Links:  []schema.LinkDef{{Field: "hubs", Target: "hubs", TargetField: "nodes"}}}
	// the two sibling child stores live below one shared path element (kids/ka, kids/kb)
	kidA := &schema.StoreDef{Type: "nodes", Parent: "nodes", ChildPath: []string{"kids", "ka"},
		Fields: []schema.Field{{Name: "acode", Kind: schema.KStr}, {Name: "aroles", Kind: schema.KList}, {Name: "owner", Kind: schema.KStr, FK: "hubs"}},
		Unique: []schema.UniqueDef{{Field: "acode", Nullable: true}}, SetIdx: []string{"aroles"},
		FKs: []schema.FKDef{{Field: "owner", Target: "hubs", Kind: schema.FkConstraint, Nullable: true, Cascade: int(boltz.CascadeNone)}}}
	kidB := &schema.StoreDef{Type: "nodes", Parent: "nodes", ChildPath: []string{"kids", "kb"}, Extended: idx%2 == 1,
		// the second child store owns a link collection of its own (below its child path)
		Fields: []schema.Field{{Name: "bcode", Kind: schema.KStr}, {Name: "broles", Kind: schema.KList}, {Name: "owner", Kind: schema.KStr, FK: "hubs"}, {Name: "bhubs", Kind: schema.KList, FK: "hubs", Derived: true}},
		Links:  []schema.LinkDef{{Field: "bhubs", Target: "hubs", TargetField: "bnodes"}},
		Unique: []schema.UniqueDef{{Field: "bcode", Nullable: prop != "C09"}}, SetIdx: []string{"broles"},
		FKs: []schema.FKDef{{Field: "owner", Target: "hubs", Kind: schema.FkConstraint, Nullable: true, Cascade: int(boltz.CascadeNone)}}}
	if prop == "C09" {
		// a foreign key constraint whose target is a child store: a reference must name an entity that has data in that
		// child store, an entity of the parent store alone is no target
		hubs.Fields = append(hubs.Fields, schema.Field{Name: "fav", Kind: schema.KStr, FK: "nodes/kids/ka"})
		hubs.FKs = append(hubs.FKs, schema.FKDef{Field: "fav", Target: "nodes/kids/ka", Kind: schema.FkConstraint, Nullable: true, Cascade: int(boltz.CascadeNone)})
	}
	sc := schema.Build([]*schema.StoreDef{hubs, nodes, kidA, kidB})
	path := c.TempFile("c06s")
	db, err := sc.OpenDb(path)
	if err != nil {
		c.Violation("C06 setup", err.Error(), nil)
		return
	}
	defer func() { _ = db.Close(); _ = os.Remove(path) }()
	stores := map[string]*schema.St{"parent": sc.St("nodes"), "childA": sc.St("nodes/kids/ka"), "childB": sc.St("nodes/kids/kb")}
	_ = db.Update(nil, func(ctx boltz.MutateContext) error {
		for _, h := range []string{"hub-zz", "hub-own"} {
			if err := sc.St("hubs").Store.Create(ctx, &schema.Ent{Id: h, Typ: "hubs", V: map[string]any{}}); err != nil {
				return err
			}
		}
		return nil
	})
	ids := []string{"nd-one", "nd-two", "nd-three"}
	isSys := map[string]bool{"nd-two": sysNodes}
	if prop == "C09" {
		// more ids: runs of neighbours without data in the second child store, whose unique index is not nullable
		ids = append(ids, "nd-four", "nd-five", "nd-six")
	}
	seq := 0
	ent := func(id, via string) *schema.Ent {
		seq++
		v := map[string]any{"label": fmt.Sprintf("label-%d", seq), "tags": []string{fmt.Sprintf("tag-%d", seq%3), "tag-shared"}}
		if via == "childA" {
			v["acode"], v["aroles"] = fmt.Sprintf("acode-%d", seq%5), []string{"ar-shared", fmt.Sprintf("ar-%d", seq%2)}
		}
		if via == "childB" {
			v["bcode"], v["broles"] = fmt.Sprintf("bcode-%d", seq%5), []string{"br-shared", fmt.Sprintf("br-%d", seq%2)}
		}
		if via != "parent" && seq%3 != 0 {
			v["owner"] = "hub-own"
		}
		e := &schema.Ent{Id: id, Typ: "nodes", V: v}
		if sysNodes {
			e.Ext.Id = id
			e.Ext.IsSystem = isSys[id] // fixed per id for the lifetime of the case
		}
		return e
	}
	// which context an operation on id uses: the one that is allowed to (deletes are tried from an ordinary one first)
	ctxFor := func(ctx boltz.MutateContext, id string) boltz.MutateContext {
		if sysNodes && isSys[id] {
			return ctx.GetSystemContext()
		}
		return ctx
	}
	has := func(tx *bbolt.Tx, id string) (parent, a, b bool) {
		return stores["parent"].Store.IsEntityPresent(tx, id), bpath(tx, "stores", "nodes", id, "kids", "ka") != nil, bpath(tx, "stores", "nodes", id, "kids", "kb") != nil
	}
	// C08: delete events per store (sync listeners: delivered by the time the transaction function has returned)
	var evMu sync.Mutex
	delEvents := map[string]int{}
	if prop == "C08" {
		for name, st := range stores {
			name := name
			st.Store.AddEntityIdListener(func(string) {
				evMu.Lock()
				delEvents[name]++
				evMu.Unlock()
			}, boltz.EntityDeleted)
		}
	}
	tolerated := 0
	for step := 0; step < 40; step++ {
		id := core.Pick(r, ids)
		kind := core.Pick(r, []string{"create", "create", "create-second-child", "update", "link", "link-b", "delete", "delete", "delete-owner-hub", "create-owner-hub"})
		via := core.Pick(r, []string{"parent", "childA", "childB"})
		var before *dump.Dump
		var hadP, hadA, hadB bool
		_ = db.View(func(tx *bbolt.Tx) error { before = dump.Tx(tx); hadP, hadA, hadB = has(tx, id); return nil })
		if kind == "create-second-child" {
			// give an id that has data in exactly one child store data in the other one as well
			switch {
			case hadA && !hadB:
				via = "childB"
			case hadB && !hadA:
				via = "childA"
			default:
				continue
			}
		}
		if kind == "delete" && via != "parent" && ((via == "childA" && !hadA) || (via == "childB" && !hadB)) {
			via = "parent" // deleting a parent-only id through a child store is left open
		}
		var newEnt *schema.Ent
		evMu.Lock()
		delEvents = map[string]int{}
		evMu.Unlock()
		keptAfterRefusal := false
		opErr := db.Update(nil, func(ctx boltz.MutateContext) error {
			switch kind {
			case "create", "create-second-child":
				newEnt = ent(id, via)
				return stores[via].Store.Create(ctxFor(ctx, id), newEnt)
			case "update":
				return stores[via].Store.Update(ctxFor(ctx, id), ent(id, via), nil)
			case "link":
				return stores["parent"].Links["hubs"].AddLinks(ctx.Tx(), id, "hub-zz")
			case "link-b":
				return stores["childB"].Links["bhubs"].AddLinks(ctx.Tx(), id, "hub-zz")
			case "delete":
				if sysNodes && isSys[id] {
					// first from an ordinary context: refused when the entity exists; the caller notes the error, goes on
					// in the same transaction (from the context that may) every other time, and commits either way
					refusal := stores[via].Store.DeleteById(ctx, id)
					if hadP && refusal == nil {
						return fmt.Errorf("delete of a system entity from an ordinary context was not refused")
					}
					tolerated++
					if tolerated%2 == 0 {
						keptAfterRefusal = true
						return nil // committed with the refused delete in it: nothing may have changed
					}
				}
				return stores[via].Store.DeleteById(ctxFor(ctx, id), id)
			case "delete-owner-hub":
				return sc.St("hubs").Store.DeleteById(ctx, "hub-own")
			case "create-owner-hub":
				return sc.St("hubs").Store.Create(ctx, &schema.Ent{Id: "hub-own", Typ: "hubs", V: map[string]any{}})
			}
			return nil
		})
		c.Eval()
		info := map[string]any{"step": step, "op": kind, "through": via, "id": id, "had_parent": hadP, "had_child_a": hadA, "had_child_b": hadB, "child_b_extended": kidB.Extended, "error": fmt.Sprint(opErr)}
		var after *dump.Dump
		var nowA, nowB bool
		_ = db.View(func(tx *bbolt.Tx) error { after = dump.Tx(tx); _, nowA, nowB = has(tx, id); return nil })
		// after every operation: the five indexes mirror the entities, no owner reference dangles
		_ = db.View(func(tx *bbolt.Tx) error {
			ixp, dang := sibIndexProblems(tx, sc)
			c.Count("sibling_states_checked", 1)
			if len(ixp) > 0 && (prop == "C03" || prop == "C06") {
				c.Violationf(prop+" siblings: index does not mirror the entities after "+kind+" through "+via+": "+firstWords(ixp[0]), info, "%v", ixp)
			}
			if len(dang) > 0 && prop == "C04" {
				c.Violationf(prop+" siblings: dangling reference after "+kind, info, "%v", dang)
			}
			return nil
		})
		if prop == "C09" {
			c09SiblingSoundness(c, sc, db, after, info, kidB.Extended)
		}
		if prop == "C15" {
			// lookups through each store: the parent finds every entity, a plain child store those with data in it, the
			// extended one every entity of the parent (its own fields empty where there is no data)
			_ = db.View(func(tx *bbolt.Tx) error {
				for _, nid := range ids {
					p, a, b := has(tx, nid)
					for _, via := range []string{"parent", "childA", "childB"} {
						want := map[string]bool{"parent": p, "childA": p && a, "childB": p && (b || kidB.Extended)}[via]
						func() {
							defer func() {
								if rec := recover(); rec != nil {
									c.Violationf(fmt.Sprintf("C15 siblings: lookup through %s panicked (entity has data in child B: %v, child B extended: %v)", via, b, kidB.Extended), info, "FindById(%s): %v", nid, rec)
								}
							}()
							// presence through a store: the entity has data in that store (for the extended store too)
							wantPresent := map[string]bool{"parent": p, "childA": p && a, "childB": p && b}[via]
							if got := stores[via].Store.IsEntityPresent(tx, nid); got != wantPresent {
								c.Violationf(fmt.Sprintf("C15 siblings: IsEntityPresent through %s: %v, expected %v", via, got, wantPresent), info, "IsEntityPresent(%s) (parent=%v, child A data=%v, child B data=%v)", nid, p, a, b)
							}
							ids1, n1, qerr := stores[via].Store.QueryIds(tx, "id = "+ql.Lit(nid))
							if qerr != nil || (len(ids1) == 1) != want || (n1 == 1) != want {
								c.Violationf(fmt.Sprintf("C15 siblings: query by id through %s: found=%v, expected %v", via, len(ids1) == 1, want), info, "QueryIds(id = %s) = %q count %d err=%v (parent=%v, child A data=%v, child B data=%v, child B extended=%v)", nid, ids1, n1, qerr, p, a, b, kidB.Extended)
							}
							e, found, err := stores[via].Store.FindById(tx, nid)
							c.Eval()
							c.Count("sibling_lookups", 1)
							if err != nil || found != want || (found && e == nil) {
								c.Violationf(fmt.Sprintf("C15 siblings: lookup through %s: found=%v, expected %v", via, found, want), info, "FindById(%s) err=%v (parent=%v, child A data=%v, child B data=%v, child B extended=%v)", nid, err, p, a, b, kidB.Extended)
							}
						}()
					}
				}
				return nil
			})
		}
		if keptAfterRefusal {
			c.Count("refused_deletes_committed_by_a_tolerant_caller", 1)
			if after.Hash() != before.Hash() {
				c.Violationf(prop+" siblings: a delete refused at the parent level changed the database (committed by a caller that noted the error; through "+via+")", info, "diff: %v", dump.Diff(before, after, nil, 4))
			}
			continue
		}
		if opErr != nil {
			if after.Hash() != before.Hash() {
				c.Violationf(prop+" siblings: an operation that returned an error changed the database ("+kind+" through "+via+")", info, "diff: %v", dump.Diff(before, after, nil, 4))
			}
			if prop == "C15" && kind == "delete" && hadP && via == "parent" {
				// nothing restricts the delete of a node (nodes are referrers, never targets of an fk)
				shape := fmt.Sprintf("parent%s%s", map[bool]string{true: "+A"}[hadA], map[bool]string{true: "+B"}[hadB])
				c.Violationf("C15 siblings: an existing entity cannot be deleted through the parent store ("+shape+", second child store extended="+fmt.Sprint(kidB.Extended)+")", info, "%v", opErr)
			}
			continue
		}
		if nowA && nowB {
			c.Cover("sibling", "data in both child stores")
		}
		switch kind {
		case "delete":
			if !hadP {
				continue
			}
			shape := fmt.Sprintf("parent%s%s", map[bool]string{true: "+A"}[hadA], map[bool]string{true: "+B"}[hadB])
			if prop == "C08" {
				// one delete event on the parent store and one on every child store that held data for the entity
				evMu.Lock()
				got := fmt.Sprintf("parent=%d childA=%d childB=%d", delEvents["parent"], delEvents["childA"], delEvents["childB"])
				wrong := delEvents["parent"] != 1 || delEvents["childA"] != map[bool]int{true: 1}[hadA] || (hadB && delEvents["childB"] != 1) || (!hadB && !kidB.Extended && delEvents["childB"] != 0)
				evMu.Unlock()
				c.Count("sibling_delete_events_checked", 1)
				if wrong {
					c.Violationf("C08 siblings: delete events differ from the parts the entity had ("+shape+" deleted through "+via+")", info, "deliveries %s (second child store extended=%v)", got, kidB.Extended)
				}
			}
			c.Count("sibling_deletes_scanned", 1)
			c.Cover("sibling_delete", shape+" through "+via)
			c.Nontrivial("sibling", shape, via, kidB.Extended)
			if hits := after.FindId(id); len(hits) > 0 {
				c.Violationf(prop+" siblings: trace of deleted id ("+shape+" deleted through "+via+"): "+traceClass(hits[0]), info, "id %q still occurs after the committed delete: %v", id, hits)
			}
		case "create":
			if hadP {
				continue // create over existing data: not judged
			}
			// a fresh entity carries nothing but what was just written
			_ = db.View(func(tx *bbolt.Tx) error {
				e, found, err := stores["parent"].Store.FindById(tx, id)
				if err != nil || !found {
					c.Violationf(prop+" siblings: created entity not found", info, "%v", err)
					return nil
				}
				if l, _ := e.V["label"].(string); l != newEnt.V["label"] {
					c.Violationf(prop+" siblings: re-created entity carries old data", info, "label %q, written %q", l, newEnt.V["label"])
				}
				if links := stores["parent"].Links["hubs"].GetLinks(tx, id); len(links) != 0 {
					c.Violationf(prop+" siblings: re-created entity carries old links", info, "links %q", links)
				}
				if (nowA && via != "childA") || (nowB && via != "childB") {
					c.Violationf(prop+" siblings: re-created entity carries old child data", info, "child A data %v, child B data %v, created through %s", nowA, nowB, via)
				}
				return nil
			})
		}
	}
}

// c09SiblingSoundness: the state was reached through the API alone and the raw scan found the indexes mirroring the
// entities and no dangling owner, so the integrity check (check-only, in a read-only and in a writable transaction) has
// nothing to report and changes nothing.
func c09SiblingSoundness(c *core.Ctx, sc *schema.Schema, db *boltz.DbImpl, state *dump.Dump, info map[string]any, extended bool) {
	clean := true
	parentOnlyRun := 0
	_ = db.View(func(tx *bbolt.Tx) error {
		ixp, dang := sibIndexProblems(tx, sc)
		clean = len(ixp) == 0 && len(dang) == 0
		run := 0
		for _, id := range sc.St("nodes").RawIds(tx) {
			if bpath(tx, "stores", "nodes", id, "kids", "kb") == nil {
				run++
				if run > parentOnlyRun {
					parentOnlyRun = run
				}
			} else {
				run = 0
			}
		}
		return nil
	})
	if !clean {
		return
	}
	for _, mode := range []string{"view", "update"} {
		var reps []string
		run := func(ctx boltz.MutateContext) error {
			for _, k := range []string{"hubs", "nodes", "nodes/kids/ka", "nodes/kids/kb"} {
				k := k
				if err := sc.St(k).Store.CheckIntegrity(ctx, false, func(err error, fixed bool) {
					reps = append(reps, fmt.Sprintf("[%s] %v (fixed=%v)", k, err, fixed))
				}); err != nil {
					return fmt.Errorf("store %s: %w", k, err)
				}
			}
			return nil
		}
		var err error
		if mode == "view" {
			err = db.View(func(tx *bbolt.Tx) error { return run(boltz.NewTxMutateContext(context.Background(), tx)) })
		} else {
			err = db.Update(nil, run)
		}
		c.Eval()
		c.Count("sibling_consistent_states_checked", 1)
		if parentOnlyRun >= 2 && extended {
			c.Count("extended_store_checked_over_a_run_of_parent_only_neighbours", 1)
		}
		if err != nil {
			c.Violationf("C09 siblings: integrity check failed on a consistent database ("+mode+")", info, "%v", err)
		}
		if len(reps) > 0 {
			c.Violationf("C09 siblings: integrity check reports on a consistent database: "+firstWords(reps[0]), info, "%d reports: %v", len(reps), reps)
		}
		var after *dump.Dump
		_ = db.View(func(tx *bbolt.Tx) error { after = dump.Tx(tx); return nil })
		if after.Hash() != state.Hash() {
			c.Violationf("C09 siblings: check-only integrity run changed the database ("+mode+")", info, "diff: %v", dump.Diff(state, after, nil, 4))
		}
	}
	// completeness for the foreign key whose target is a child store: written raw, the reference names an entity with
	// data in that child store (no report), an entity of the parent store without such data, or nothing at all (reported)
	var withA, withoutA string
	_ = db.View(func(tx *bbolt.Tx) error {
		for _, id := range sc.St("nodes").RawIds(tx) {
			if bpath(tx, "stores", "nodes", id, "kids", "ka") != nil {
				withA = id
			} else {
				withoutA = id
			}
		}
		return nil
	})
	for _, tc := range []struct {
		what, ref string
		dangling  bool
	}{{"an entity with data in the child store", withA, false}, {"an entity of the parent store without data in the child store", withoutA, true}, {"no entity at all", "nd-nowhere", true}} {
		if tc.ref == "" {
			continue
		}
		var reps []string
		err := db.Update(nil, func(ctx boltz.MutateContext) error {
			if err := bpath(ctx.Tx(), "stores", "hubs", "hub-zz").Put([]byte("fav"), append([]byte{byte(boltz.TypeString)}, tc.ref...)); err != nil {
				return err
			}
			return sc.St("hubs").Store.CheckIntegrity(ctx, false, func(err error, fixed bool) { reps = append(reps, err.Error()) })
		})
		c.Eval()
		c.Count("child_store_target_references_checked", 1)
		c.Cover("fk_to_child_store", tc.what)
		reported := false
		for _, rep := range reps {
			reported = reported || (strings.Contains(rep, tc.ref) && strings.Contains(rep, "fav"))
		}
		tinfo := map[string]any{"reference": tc.ref, "names": tc.what, "reports": reps}
		if err != nil {
			c.Violationf("C09 siblings: integrity check failed (fk constraint to a child store)", tinfo, "%v", err)
		} else if tc.dangling && !reported {
			c.Violationf("C09 siblings: a reference to "+tc.what+" is not reported by the fk constraint whose target is the child store", tinfo, "hubs[hub-zz].fav = %q: %d reports", tc.ref, len(reps))
		} else if !tc.dangling && len(reps) > 0 {
			c.Violationf("C09 siblings: a valid reference to a child-store entity is reported", tinfo, "%v", reps)
		}
	}
	_ = db.Update(nil, func(ctx boltz.MutateContext) error {
		return bpath(ctx.Tx(), "stores", "hubs", "hub-zz").Delete([]byte("fav"))
	})
}
