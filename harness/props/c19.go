package props

import (
	"fmt"
	"time"

	"github.com/openziti/storage/ast"
	"github.com/openziti/storage/objectz"
	"go.etcd.io/bbolt"
	"sync"
	"verif/harness/internal/core"
	"verif/harness/internal/ql"
	"verif/harness/internal/qx"
	"verif/harness/internal/schema"
)

type c19Obj struct {
	id    string
	s     *string
	ism   *int64
	ibig  *int64
	flt   *float64
	b     *bool
	t     *time.Time
	grp   *string
	owner *string
	uk    *string
}

type sliceIter struct {
	objs []*c19Obj
	pos  int
}

func (s *sliceIter) IsValid() bool { return s.pos < len(s.objs) }
func (s *sliceIter) Next()         { s.pos++ }
func (s *sliceIter) Current() *c19Obj {
	if s.pos < len(s.objs) {
		return s.objs[s.pos]
	}
	return nil
}

func ptr[T any](v any) *T {
	if v == nil {
		return nil
	}
	x := v.(T)
	return &x
}

func init() {
	core.Register(&core.Property{
		ID:    "C19",
		Level: "exploration",
		Rule: "collections of 0-12 objects whose five scalar kinds (string, int64, float64, bool, datetime; pointer-valued so null is expressible) mirror the scalar fields of a bolt store holding the same values; the collection is iterated in a fresh random order for every query. " +
			"Filters over non-set symbols (all operators, = null / != null, and/or/not) x sort specifications of 0-5 fields (each followed by its direction-flipped twin and a repeat on the same store instance; plus 6-8 field sorts compared between the two stores only) x the complete 10 x 10 skip/limit boundary grid. Queries answered sequentially are re-run from six goroutines at once on the same store and must get the same answers. Three-way comparison: ObjectStore.QueryEntities (ids in order, count) vs bolt QueryIds vs the reference evaluator + sort/page oracle, " +
			"so a defect common to both copies of the paging code is still seen. non-trivial = distinct (query, dataset) whose page is a proper non-empty sub-sequence or a boundary point",
		Assumptions: []string{"only scalar symbols (the object store has no set symbols)", "bare bool symbols holding null and icontains over non-ASCII are executed but not judged"},
		Plan: func(tier core.Tier, seed int64) int {
			if tier == core.Thorough {
				return 12000
			}
			return 64
		},
		Run: runC19,
		Promises: func(core.Tier) map[string][]string {
			return map[string][]string{"null_test": {"= null", "!= null"}, "sort_type": {"s", "ism", "ibig", "flt", "b", "t", "grp", "owner", "id"}}
		},
		MinCounters: func(core.Tier) map[string]int64 { return map[string]int64{"three_way_comparisons": 15000} },
	})
}

// newC19Store builds an object store over the things of a world (nullable fields as nil pointers); every query
// iterates the objects in a freshly shuffled order.
func newC19Store(w *qx.World, r *core.Rand) *objectz.ObjectStore[*c19Obj] {
	var objs []*c19Obj
	for _, id := range w.Ids(qx.Things) {
		v := w.Rows[qx.Things][id].V
		objs = append(objs, &c19Obj{id: id, s: ptr[string](v["s"]), ism: ptr[int64](v["ism"]), ibig: ptr[int64](v["ibig"]), flt: ptr[float64](v["flt"]), b: ptr[bool](v["b"]),
			t: ptr[time.Time](v["t"]), grp: ptr[string](v["grp"]), owner: ptr[string](v["owner"]), uk: ptr[string](v["uk"])})
	}
	var shuffleMu sync.Mutex // the generator is shared; queries may come from several goroutines
	os := objectz.NewObjectStore(func() objectz.ObjectIterator[*c19Obj] {
		shuffleMu.Lock()
		defer shuffleMu.Unlock()
		return &sliceIter{objs: core.Shuffle(r, objs)}
	})
	os.AddStringSymbol("id", func(o *c19Obj) *string { return &o.id })
	os.AddStringSymbol("s", func(o *c19Obj) *string { return o.s })
	os.AddInt64Symbol("ism", func(o *c19Obj) *int64 { return o.ism })
	os.AddInt64Symbol("ibig", func(o *c19Obj) *int64 { return o.ibig })
	os.AddFloat64Symbol("flt", func(o *c19Obj) *float64 { return o.flt })
	os.AddBoolSymbol("b", func(o *c19Obj) *bool { return o.b })
	os.AddDatetimeSymbol("t", func(o *c19Obj) *time.Time { return o.t })
	os.AddStringSymbol("grp", func(o *c19Obj) *string { return o.grp })
	os.AddStringSymbol("owner", func(o *c19Obj) *string { return o.owner })
	os.AddStringSymbol("uk", func(o *c19Obj) *string { return o.uk })
	return os
}

func g0(r *core.Rand, w *qx.World) *qx.Gen {
	return &qx.Gen{R: r, W: w, Store: qx.Things, ScalarOnly: true}
}

// strictIter is what a caller writes over a slice: Current is only defined while IsValid.
type strictIter struct {
	objs []*c19Obj
	pos  int
}

func (s *strictIter) IsValid() bool    { return s.pos < len(s.objs) }
func (s *strictIter) Next()            { s.pos++ }
func (s *strictIter) Current() *c19Obj { return s.objs[s.pos] }

// c19Empty: an object store without objects, behind a slice iterator, answers like an empty bolt store - no rows,
// count 0, no error for a valid query - whatever the filter, sort and paging.
func c19Empty(c *core.Ctx, r *core.Rand, st *schema.St, g *qx.Gen) {
	os2 := objectz.NewObjectStore(func() objectz.ObjectIterator[*c19Obj] { return &strictIter{} })
	for _, n := range []string{"id", "s", "grp", "owner", "uk"} {
		os2.AddStringSymbol(n, func(o *c19Obj) *string { return nil })
	}
	os2.AddInt64Symbol("ism", func(o *c19Obj) *int64 { return o.ism })
	os2.AddInt64Symbol("ibig", func(o *c19Obj) *int64 { return o.ibig })
	os2.AddFloat64Symbol("flt", func(o *c19Obj) *float64 { return o.flt })
	os2.AddBoolSymbol("b", func(o *c19Obj) *bool { return o.b })
	os2.AddDatetimeSymbol("t", func(o *c19Obj) *time.Time { return o.t })
	for k := 0; k < 6; k++ {
		q := &qx.Query{Pred: g.Expr(r.Intn(3)), Sort: g.Sort(3)}
		if k == 0 {
			q = &qx.Query{}
		}
		if k%2 == 1 {
			sk, lm := int64(r.Intn(3)), int64(r.Intn(3))
			q.Skip, q.Limit = &sk, &lm
		}
		text := q.Stream().Canon()
		if _, err := ast.Parse(st.Store, text); err != nil {
			continue // not a valid query for the bolt store either
		}
		func() {
			defer func() {
				if p := recover(); p != nil {
					c.Violationf("C19 a query of an empty object store panics", map[string]any{"query": text}, "query %q over an object store whose iterator has no elements: %v", text, p)
				}
			}()
			ents, count, err := os2.QueryEntities(text)
			c.Eval()
			c.Count("empty_object_store_queries", 1)
			if err != nil || len(ents) != 0 || count != 0 {
				c.Violationf("C19 empty object store differs from an empty bolt store", map[string]any{"query": text}, "query %q: %d rows, count %d, err %v; expected no rows, count 0", text, len(ents), count, err)
			}
		}()
	}
}

type c19Replay struct {
	text  string
	ids   []string
	count int64
}

// c19Concurrent re-runs queries whose answers are known from several goroutines at once on the same object store:
// every goroutine must get the answer the query got when it ran alone.
func c19Concurrent(c *core.Ctx, os *objectz.ObjectStore[*c19Obj], replay []c19Replay) {
	if len(replay) < 4 {
		return
	}
	var wg sync.WaitGroup
	for g := 0; g < 6; g++ {
		wg.Add(1)
		go func(g int) {
			defer wg.Done()
			for round := 0; round < 3; round++ {
				for i := range replay {
					q := replay[(i*7+g*5+round)%len(replay)]
					ents, n, err := os.QueryEntities(q.text)
					c.Eval()
					c.Count("concurrent_object_store_queries", 1)
					var ids []string
					for _, e := range ents {
						ids = append(ids, e.id)
					}
					if err != nil || !sameIds(ids, q.ids) || n != q.count {
						c.Violationf("C19 object store answers differently when queried from several goroutines", map[string]any{"query": q.text},
							"query %q: got %q count %d err=%v, alone it returned %q count %d", q.text, ids, n, err, q.ids, q.count)
						return
					}
				}
			}
		}(g)
	}
	wg.Wait()
}

func runC19(c *core.Ctx, idx int) {
	r := c.Rand()
	env, err := newQEnv(c, r, 12, idx%2 == 0)
	if err != nil {
		c.Violation("C19 setup", err.Error(), nil)
		return
	}
	defer env.close()
	st := env.sc.St(qx.Things)
	os := newC19Store(env.w, r)

	c19Empty(c, r, st, g0(r, env.w))
	// the first queries of this object store: literals that differ in letter case or inner blanks only, one right after
	// the other - each selects the objects holding exactly its own string
	// (the last pairs come after a case-insensitive query over the same field: the objects are what they were)
	for pi, pair := range [][2]string{{"a", "A"}, {"A", "a"}, {"ab", "AB"}, {"a b", "a  b"}, {"a  b", "a b"}, {"a", "ab"}, {"b", "A"}} {
		if pi == 5 {
			for _, text := range []string{`s icontains "a" sort by id`, `s not icontains "B"`, `s icontains "A" or grp icontains "a"`} {
				_, _, _ = os.QueryEntities(text)
			}
		}
		for _, lit := range pair {
			text := "s = " + ql.Lit(lit) + " sort by id"
			ents, n, err := os.QueryEntities(text)
			var got, want []string
			for _, e := range ents {
				got = append(got, e.id)
			}
			for _, id := range env.w.Ids(qx.Things) {
				if sv, ok := env.w.Rows[qx.Things][id].V["s"].(string); ok && sv == lit {
					want = append(want, id)
				}
			}
			c.Eval()
			c.Count("literal_variant_queries", 1)
			if err != nil || !sameIds(got, want) || int(n) != len(want) {
				c.Violationf("C19 object store: a literal differing from the previous query's in letter case or blanks only selects the wrong objects", map[string]any{"query": text, "asked_in_this_order": pair},
					"query %q: %q count %d err=%v, the objects holding %q are %q", text, got, n, err, lit, want)
			}
		}
	}
	var replay []c19Replay
	defer func() { c19Concurrent(c, os, replay) }()
	g := &qx.Gen{R: r, W: env.w, Store: qx.Things, ScalarOnly: true}
	wd := worldDigest(env.w)
	_ = env.db.View(func(tx *bbolt.Tx) error {
		for fi := 0; fi < 5; fi++ {
			var pred qx.Expr
			switch fi {
			case 0:
			case 1:
				pred = qx.Cmp{L: qx.LHS{Kind: "sym", Sym: core.Pick(r, []string{"s", "ism", "flt", "b", "t", "owner"})}, Op: core.Pick(r, []string{"=", "!="}), R: []qx.Lit{qx.LNull()}}
				c.Cover("null_test", pred.(qx.Cmp).Op+" null")
			default:
				pred = g.Expr(r.Intn(3))
			}
			match, judged, _ := env.w.Match(pred, qx.Things)
			n := int64(len(match))
			// unsorted, a random sort, then the same symbols with every direction flipped and the first one again: the
			// object store instance is shared, so anything it remembers about an earlier sort would show
			nSorts := 5
			var firstSort []qx.SortF
			for si := 0; si < nSorts; si++ {
				var sortSpec []qx.SortF
				switch si {
				case 1:
					sortSpec = g.Sort(5)
					if r.P(0.2) {
						sortSpec = append([]qx.SortF{{Sym: "id", Desc: true, Dir: "desc"}}, sortSpec...)
					}
					firstSort = sortSpec
				case 2:
					for _, f := range firstSort {
						f.Desc = !f.Desc
						f.Dir = map[bool]string{true: "desc", false: core.Pick(r, []string{"", "asc"})}[f.Desc]
						sortSpec = append(sortSpec, f)
					}
					c.Count("flipped_sorts", 1)
				case 3:
					sortSpec = firstSort
				case 4:
					// more than five sort fields: five low-cardinality keys (repeats allowed) so that rows tie on them, then
					// one to three discriminating ones; compared between the two stores only
					for k := 0; k < 5; k++ {
						desc := r.Bool()
						sortSpec = append(sortSpec, qx.SortF{Sym: core.Pick(r, []string{"b", "grp", "owner"}), Desc: desc, Dir: map[bool]string{true: "desc", false: core.Pick(r, []string{"", "asc"})}[desc]})
					}
					for k, m := 0, 1+r.Intn(3); k < m; k++ {
						desc := r.Bool()
						sortSpec = append(sortSpec, qx.SortF{Sym: core.Pick(r, []string{"s", "ism", "ibig", "flt", "t"}), Desc: desc, Dir: map[bool]string{true: "desc", false: core.Pick(r, []string{"", "asc"})}[desc]})
					}
					c.Count("sorts_with_more_than_five_fields", 1)
				}
				for _, f := range sortSpec {
					c.Cover("sort_type", f.Sym)
				}
				skips, limits := c02Grid(n)
				for _, sk := range skips {
					for _, lm := range limits {
						if (fi >= 2 || si >= 2) && r.P(0.6) {
							continue // the full grid on the first two filters, a sample on the others and on the flipped / repeated sorts
						}
						q := &qx.Query{Pred: pred, Sort: sortSpec, Skip: sk, Limit: lm.v, LimitNone: lm.none}
						text := q.Stream().Canon()
						info := map[string]any{"query": text, "world": describeWorld(env.w)}
						gridKey := fmt.Sprintf("skip=%s limit=%s", skipClass(sk, n), limitClass(lm.v, lm.none, n))
						if pred != nil {
							if cm, ok := pred.(qx.Cmp); ok && len(cm.R) == 1 && cm.R[0].IsNull {
								gridKey = "null test " + cm.Op + " null; " + gridKey
							}
						}
						ents, ocount, oerr := os.QueryEntities(text)
						bids, bcount, berr := st.Store.QueryIds(tx, text)
						c.Eval()
						c.Count("three_way_comparisons", 1)
						var oids []string
						for _, e := range ents {
							oids = append(oids, e.id)
						}
						if (oerr == nil) != (berr == nil) {
							c.Violationf("C19 one store rejects the query the other accepts: "+gridKey, info, "query %q: object store err=%v, bolt err=%v", text, oerr, berr)
							continue
						}
						if oerr != nil {
							continue
						}
						// a compiled query belongs to its caller: it is run twice (a caller that keeps its parsed query for the
						// next poll) and must answer the same both times, with the paging it was given
						if (sk != nil || lm.v != nil) && (fi+si+len(text))%3 == 0 {
							if cq, perr := ast.Parse(os, text); perr == nil {
								for run := 1; run <= 2; run++ {
									cents, ccount, cerr := os.QueryEntitiesC(cq)
									var cids []string
									for _, e := range cents {
										cids = append(cids, e.id)
									}
									c.Eval()
									c.Count("compiled_query_runs", 1)
									if cerr != nil || !sameIds(cids, oids) || ccount != ocount {
										c.Violationf(fmt.Sprintf("C19 object store: run %d of a compiled query differs from the answer to its text: %s", run, gridKey), info, "query %q: run %d gave %q count %d err=%v, QueryEntities gave %q count %d", text, run, cids, ccount, cerr, oids, ocount)
										break
									}
								}
							}
						}
						if len(replay) < 40 && (len(replay) == 0 || replay[len(replay)-1].text != text) {
							replay = append(replay, c19Replay{text: text, ids: append([]string{}, oids...), count: ocount})
						}
						if !sameIds(oids, bids) || ocount != bcount {
							c.Violationf("C19 object store differs from the bolt store: "+gridKey, info, "query %q: object store %q count %d, bolt %q count %d", text, oids, ocount, bids, bcount)
						}
						if judged && len(sortSpec) <= 5 {
							wantIds, wantCount := env.w.Page(qx.Things, match, q)
							if !sameIds(oids, wantIds) || ocount != wantCount {
								c.Violationf("C19 object store differs from the reference: "+gridKey, info, "query %q: object store %q count %d, reference %q count %d", text, oids, ocount, wantIds, wantCount)
							}
							proper := len(wantIds) > 0 && int64(len(wantIds)) < n
							if proper || sk != nil || lm.v != nil {
								c.Nontrivial(text, wd)
							}
							if c.WantSample() && proper {
								c.Sample(map[string]any{"query": text, "objects": len(env.w.Ids(qx.Things)), "page": wantIds, "count": wantCount})
							}
						}
					}
				}
			}
		}
		return nil
	})
}
