package props

import (
	"encoding/binary"
	"fmt"
	"os"
	"sort"

	"github.com/openziti/storage/boltz"
	"go.etcd.io/bbolt"
	"verif/harness/internal/core"
	"verif/harness/internal/schema"
)

// C03 part (c): a store that lives three buckets deep (base path app / v1 / stores) with two unique indexes and two
// set indexes. A tiny model (id -> values) is kept; after every committed operation each index, read through the API,
// holds exactly what the model implies: unique value -> holder, set value -> holders, set index keys = values in use.
const c03DeepCases = 16

func c03Deep(c *core.Ctx, idx int) {
	r := c.Rand()
	def := &schema.StoreDef{Type: "gizmos", BasePath: []string{"app", "v1", "stores"},
		Fields: []schema.Field{{Name: "code", Kind: schema.KStr}, {Name: "alt", Kind: schema.KStr}, {Name: "tags", Kind: schema.KList}, {Name: "zones", Kind: schema.KList}, {Name: "num", Kind: schema.KI64}},
		// num: a unique index over an integer field (its entries are keyed by the stored bytes)
		Unique: []schema.UniqueDef{{Field: "code", Nullable: false}, {Field: "alt", Nullable: true}, {Field: "num", Nullable: true}}, SetIdx: []string{"tags", "zones"}}
	sc := schema.Build([]*schema.StoreDef{def})
	path := c.TempFile("c03d")
	db, err := sc.OpenDb(path)
	if err != nil {
		c.Violation("C03 setup", err.Error(), nil)
		return
	}
	defer func() { _ = db.Close(); _ = os.Remove(path) }()
	st := sc.St("gizmos")
	type giz struct {
		code, alt   string
		tags, zones []string
		num         int64 // 0 = null
	}
	nums := []int64{1, 2, 1 << 40, -5}
	numKey := func(v int64) []byte {
		b := make([]byte, 8)
		binary.LittleEndian.PutUint64(b, uint64(v))
		return b
	}
	model := map[string]*giz{}
	ids := []string{"g1", "g2", "g3", "g4"}
	// values shared between the indexes on purpose: a code that is also a tag, a tag that is also a zone
	codes := []string{"alice", "bob", "eng", "ops"}
	tags := []string{"eng", "ops", "alice", "red"}
	for step := 0; step < 40; step++ {
		id := core.Pick(r, ids)
		op := core.Pick(r, []string{"create", "create", "update", "update", "delete"})
		g := &giz{code: core.Pick(r, codes), alt: core.Pick(r, []string{"", "", "bob", "red", "x"}), tags: core.Subset(r, tags, 0.4), zones: core.Subset(r, tags, 0.3), num: core.Pick(r, append([]int64{0, 0}, nums...))}
		_, exists := model[id]
		expectOk := true
		switch op {
		case "create":
			expectOk = !exists
		case "update", "delete":
			expectOk = exists
		}
		if op != "delete" {
			for oid, o := range model {
				if oid != id && (o.code == g.code || (g.alt != "" && o.alt == g.alt) || (g.num != 0 && o.num == g.num)) {
					expectOk = false
				}
			}
		}
		var altV any = g.alt
		if g.alt == "" {
			altV = nil
		}
		opErr := db.Update(nil, func(ctx boltz.MutateContext) error {
			var numV any
			if g.num != 0 {
				numV = g.num
			}
			e := &schema.Ent{Id: id, Typ: "gizmos", V: map[string]any{"code": g.code, "alt": altV, "tags": g.tags, "zones": g.zones, "num": numV}}
			switch op {
			case "create":
				return st.Store.Create(ctx, e)
			case "update":
				return st.Store.Update(ctx, e, nil)
			}
			return st.Store.DeleteById(ctx, id)
		})
		c.Eval()
		info := map[string]any{"step": step, "op": op, "id": id, "code": g.code, "alt": g.alt, "tags": g.tags, "zones": g.zones, "error": fmt.Sprint(opErr)}
		if (opErr == nil) != expectOk {
			c.Violationf("C03 deep base path outcome: "+op+" expected ok="+fmt.Sprint(expectOk), info, "returned %v", opErr)
		}
		if opErr == nil {
			if op == "delete" {
				delete(model, id)
			} else {
				model[id] = g
			}
		}
		c.Count("deep_states_checked", 1)
		c.Nontrivial("c03deep", op, opErr == nil, len(model))
		_ = db.View(func(tx *bbolt.Tx) error {
			for _, u := range []struct {
				name string
				val  func(*giz) string
			}{{"code", func(x *giz) string { return x.code }}, {"alt", func(x *giz) string { return x.alt }}} {
				for _, v := range append(append([]string{}, codes...), "red", "x") {
					want := ""
					for oid, o := range model {
						if u.val(o) == v {
							want = oid
						}
					}
					if got := string(st.Unique[u.name].Read(tx, []byte(v))); got != want {
						c.Violationf("C03 deep base path: unique index "+u.name+" does not mirror the entities", info, "index %s[%q] = %q, expected %q", u.name, v, got, want)
					}
				}
			}
			for _, v := range nums {
				want := ""
				for oid, o := range model {
					if o.num == v {
						want = oid
					}
				}
				if got := string(st.Unique["num"].Read(tx, numKey(v))); got != want {
					c.Violationf("C03 deep base path: unique index over an integer field does not mirror the entities", info, "index num[%d] = %q, expected %q", v, got, want)
				}
			}
			for _, sidx := range []struct {
				name string
				val  func(*giz) []string
			}{{"tags", func(x *giz) []string { return x.tags }}, {"zones", func(x *giz) []string { return x.zones }}} {
				wantKeys := map[string]bool{}
				for _, v := range tags {
					var want []string
					for oid, o := range model {
						for _, t := range sidx.val(o) {
							if t == v {
								want = append(want, oid)
								wantKeys[v] = true
							}
						}
					}
					sort.Strings(want)
					var got []string
					st.SetIdx[sidx.name].Read(tx, []byte(v), func(b []byte) { got = append(got, string(b)) })
					if fmt.Sprint(got) != fmt.Sprint(want) {
						c.Violationf("C03 deep base path: set index "+sidx.name+" does not mirror the entities", info, "index %s[%q] = %q, expected %q", sidx.name, v, got, want)
					}
				}
				var keys, wk []string
				st.SetIdx[sidx.name].ReadKeys(tx, func(b []byte) { keys = append(keys, string(b)) })
				for k := range wantKeys {
					wk = append(wk, k)
				}
				sort.Strings(wk)
				if fmt.Sprint(keys) != fmt.Sprint(wk) {
					c.Violationf("C03 deep base path: set index "+sidx.name+" keys do not mirror the entities", info, "keys %q, expected %q", keys, wk)
				}
			}
			return nil
		})
	}
}
