package props

import (
	"bytes"
	"fmt"
	"io"
	"os"
	"runtime"
	"strings"
	"sync"
	"sync/atomic"
	"testing/iotest"
	"time"

	"github.com/anishathalye/porcupine"
	"github.com/openziti/storage/boltz"
	"go.etcd.io/bbolt"
	"verif/harness/internal/core"
	"verif/harness/internal/dump"
	"verif/harness/internal/kmodel"
)

func init() {
	core.Register(&core.Property{
		ID:    "C17",
		Race:  true,
		Level: "exploration",
		Rule: "sequential cases: random history A over schema K (indexes, fks, links, child stores) -> whole-file dump D_A -> snapshot by each route (Snapshot(path), SnapshotInTx inside a read transaction, StreamToWriter) -> further committed transactions -> restore (RestoreSnapshot / RestoreFromReader with readers that report EOF separately, together with the last bytes, byte-wise, in halves, in 4 kB chunks) -> " +
			"dump must equal D_A except meta/snapshotId and meta/resetTimeline (exactly equal for the unmarked StreamToWriter route); GetSnapshotId equals the id Snapshot returned; every restore listener fired exactly once; the next GetTimelineId (default or initIfEmpty mode; the database started with a timeline id, without one, or was only asked in default mode) calls the id function exactly once and returns its value, " +
			"the following two return the same value without calling it (in half of the cases a request whose id function fails comes first: it must return that error and leave the reset pending); the structural monitor is clean against the model of time A and the database accepts further transactions. " +
			"concurrent cases (race detector): a mutator takes snapshots and restores them (hook sleeps of 0-3 ms between the persist / close / rename / reopen steps), 2 writers rewrite the whole database into stamped state(g), 6 readers verify in every read transaction that the entire content equals state(g) of one generation (every other one keeps the transaction open for up to 0.6 ms and then asks Db.RootBucket(tx) for the root bucket, as the migration manager does), " +
			"a snapshotter calls Db.Snapshot(path) in a loop next to the restores and opens every snapshot file as a database of its own: it must hold state(g) of one generation; bounded progress: if no client completes an operation for 20 s the case is a violation with the goroutine dump as witness; " +
			"two restores at once: from state C two callers restore the snapshots of states A and B through readers that wait for each other half way; afterwards the database is A or B in full (every key, every value, the marker), neither call panicked, no temporary file of a restore is left, a write afterwards works; restore listeners are independent: a listener that waits (bounded, 10 s) for another listener to have been called finds it called; each restore calls each listener once; " +
			"all clients log call/return, and porcupine checks the history against a register model (write(g) sets, restore(g_s) sets to the snapshot's generation, read returns the current one). non-trivial = distinct (route, restore call, history digest) and reads overlapping a restore",
		Assumptions: []string{"interleavings are sampled",
			"a porcupine timeout is inconclusive"},
		MaxWorkers: 6,
		Plan: func(tier core.Tier, seed int64) int {
			if tier == core.Thorough {
				return 300 + 40 + 4*c17TwoCases
			}
			return 36 + 6 + c17TwoCases
		},
		Run: func(c *core.Ctx, idx int) {
			nSeq := 36
			if c.Tier == core.Thorough {
				nSeq = 300
			}
			nConc := 6
			if c.Tier == core.Thorough {
				nConc = 40
			}
			if idx < nSeq {
				c17Sequential(c, idx)
			} else if idx >= nSeq+nConc {
				c17TwoRestores(c, idx-nSeq-nConc)
			} else {
				c17Concurrent(c, idx)
			}
		},
		Promises: func(core.Tier) map[string][]string {
			return map[string][]string{"route": {"Snapshot+RestoreSnapshot", "Snapshot+RestoreFromReader", "SnapshotInTx+RestoreSnapshot", "SnapshotInTx+RestoreFromReader", "StreamToWriter+RestoreSnapshot", "StreamToWriter+RestoreFromReader"},
				"porcupine": {"ok"}, "snapshot_path": {"path already holds an earlier snapshot"},
				"restore_reader":         {"*os.File", "the same file a second time", "bytes.Reader", "data+EOF together", "half reads", "4096-byte chunks, EOF with the last", "single read with EOF", "bytes.Reader positioned behind a header", "*os.File positioned behind a header"},
				"timeline_after_restore": {"round 0, start initialised", "round 0, start never requested", "round 0, start default on empty", "round 1, start never requested", "failing id function first", "two concurrent requests"}}
		},
		MinCounters: func(core.Tier) map[string]int64 {
			return map[string]int64{"restores_sequential": 30, "reads_overlapping_a_restore": 20, "restores_concurrent": 30, "root_bucket_in_tx": 500, "snapshots_overlapping_a_restore": 10, "pairs_of_restores_inside_the_call_together": 4}
		},
		WorkerTimeoutS: func(core.Tier) int { return 2400 },
	})
}

// eofChunkReader hands out data in chunks and returns io.EOF together with the last bytes (as gzip streams, HTTP bodies
// with a content length and section readers do).
type eofChunkReader struct {
	data  []byte
	chunk int
}

func (r *eofChunkReader) Read(p []byte) (int, error) {
	if len(r.data) == 0 {
		return 0, io.EOF
	}
	n := r.chunk
	if n > len(p) {
		n = len(p)
	}
	if n > len(r.data) {
		n = len(r.data)
	}
	copy(p, r.data[:n])
	r.data = r.data[n:]
	if len(r.data) == 0 {
		return n, io.EOF
	}
	return n, nil
}

func metaIgnore(e dump.Entry) bool {
	// the two markers, and the meta bucket that holds them (the snapshot operation creates it when the database had none)
	if e.Path == "" && e.Bucket && string(e.Key) == boltz.Metadata {
		return true
	}
	return e.Path == `/"meta"` && (string(e.Key) == boltz.SnapshotId || string(e.Key) == boltz.ResetTimeline)
}

func c17Sequential(c *core.Ctx, idx int) {
	r := c.Rand()
	cfg := kmodel.AllConfigs[idx%len(kmodel.AllConfigs)]
	e, err := kmodel.NewEngine(c, cfg)
	if err != nil {
		c.Violation("C17 setup", err.Error(), nil)
		return
	}
	defer e.Close()
	db := e.Db
	var listenerCalls [3]atomic.Int64
	for i := range listenerCalls {
		i := i
		db.AddRestoreListener(func() { listenerCalls[i].Add(1) })
	}
	baseline := settledGoroutines()
	keptFile, keptIgnoreMeta := "", false
	var keptDump *dump.Dump
	// timeline id before anything: initIfEmpty creates one, a second call returns it
	idCalls := 0
	var idMu sync.Mutex
	idF := func() (string, error) {
		idMu.Lock()
		defer idMu.Unlock()
		idCalls++
		return fmt.Sprintf("timeline-%d-%d", idx, idCalls), nil
	}
	// three starting points: a timeline id exists before the first snapshot, none was ever requested, or it was
	// only asked for in default mode (which leaves the database without one)
	tlStart := []string{"initialised", "never requested", "default on empty"}[(idx/6)%3]
	c.Cover("timeline_start", tlStart)
	switch tlStart {
	case "initialised":
		t1, err := db.GetTimelineId(boltz.TimelineModeInitIfEmpty, idF)
		t1b, _ := db.GetTimelineId(boltz.TimelineModeDefault, idF)
		c.Eval()
		if err != nil || idCalls != 1 || t1 != "timeline-"+fmt.Sprint(idx)+"-1" || t1b != t1 {
			c.Violationf("C17 timeline id initialisation", nil, "first=%q second=%q idF calls=%d err=%v", t1, t1b, idCalls, err)
		}
	case "default on empty":
		_, _ = db.GetTimelineId(boltz.TimelineModeDefault, idF)
	}
	e.W = map[string]int{"create": 10, "update": 5, "patch": 4, "delete": 3, "addlinks": 4, "setlinks": 2, "rcinc": 3}
	for round := 0; round < 2; round++ {
		for t := 0; t < 10+r.Intn(10); t++ {
			e.RunTx(e.GenTx(r, 4, false), "C17 history")
		}
		modelA := e.M.Clone()
		dA := dumpDb(e)
		route := []string{"Snapshot", "SnapshotInTx", "StreamToWriter"}[(idx+round)%3]
		restoreCall := []string{"RestoreSnapshot", "RestoreFromReader"}[(idx/3+round)%2]
		c.Cover("route", route+"+"+restoreCall)
		// a third of the cases write both snapshots to the same path and leave the first one there
		reusePath := idx%3 == 0 // routes: Snapshot in the first round, SnapshotInTx in the second
		snapPath := e.Path + fmt.Sprintf(".snap-%d", round)
		if reusePath {
			snapPath = e.Path + ".snap"
			if round == 1 {
				c.Cover("snapshot_path", "path already holds an earlier snapshot")
			}
		}
		var snapId string
		var snapBytes []byte
		switch route {
		case "Snapshot":
			p, id, err := db.Snapshot(snapPath)
			if err != nil || p != snapPath {
				c.Violationf("C17 Snapshot failed", nil, "path=%q err=%v", p, err)
				return
			}
			snapId = id
		case "SnapshotInTx":
			err := db.View(func(tx *bbolt.Tx) error {
				_, id, err := db.SnapshotInTx(tx, snapPath)
				snapId = id
				return err
			})
			if err != nil {
				c.Violationf("C17 SnapshotInTx failed", nil, "%v", err)
				return
			}
		case "StreamToWriter":
			var buf bytes.Buffer
			if err := db.StreamToWriter(&buf); err != nil {
				c.Violationf("C17 StreamToWriter failed", nil, "%v", err)
				return
			}
			snapBytes = buf.Bytes()
		}
		if snapBytes == nil {
			snapBytes, err = os.ReadFile(snapPath)
			if !reusePath || round == 1 {
				_ = os.Remove(snapPath)
			}
			if err != nil {
				c.Violationf("C17 cannot read snapshot file", nil, "%v", err)
				return
			}
		}
		// taking the snapshot must not change the live database
		if d := dumpDb(e); d.Hash() != dA.Hash() {
			c.Violationf("C17 taking a snapshot changed the live database ("+route+")", nil, "diff: %v", dump.Diff(dA, d, nil, 4))
		}
		// arbitrary further transactions
		for t := 0; t < 5+r.Intn(10); t++ {
			e.RunTx(e.GenTx(r, 4, r.P(0.3)), "C17 after snapshot")
		}
		if r.P(0.5) {
			_, _ = db.GetTimelineId(boltz.TimelineModeForceReset, idF)
		}
		quiesce(baseline)
		var before [3]int64
		for i := range listenerCalls {
			before[i] = listenerCalls[i].Load()
		}
		// restore
		readerKind := ""
		if restoreCall == "RestoreSnapshot" {
			db.RestoreSnapshot(snapBytes)
		} else {
			// readers differ in how they report the end: on a separate empty read, together with the last bytes, in
			// small pieces
			kinds := []string{"bytes.Reader", "data+EOF together", "one byte at a time", "half reads", "4096-byte chunks, EOF with the last", "single read with EOF", "*os.File",
				"bytes.Reader positioned behind a header", "*os.File positioned behind a header"}
			readerKind = kinds[(idx*7+round*5+idx/6)%len(kinds)]
			if len(snapBytes) > 1<<20 && readerKind == "one byte at a time" {
				readerKind = "half reads"
			}
			c.Cover("restore_reader", readerKind)
			var rd io.Reader = bytes.NewReader(snapBytes)
			switch readerKind {
			case "data+EOF together":
				rd = iotest.DataErrReader(rd)
			case "one byte at a time":
				rd = iotest.OneByteReader(rd)
			case "half reads":
				rd = iotest.HalfReader(rd)
			case "4096-byte chunks, EOF with the last":
				rd = &eofChunkReader{data: snapBytes, chunk: 4096}
			case "single read with EOF":
				rd = &eofChunkReader{data: snapBytes, chunk: len(snapBytes) + 1}
			case "bytes.Reader positioned behind a header":
				// the snapshot travels inside a container (a header in front of it); the caller has read the header and hands
				// the reader over where the snapshot begins
				br := bytes.NewReader(append([]byte("SNAPSHOT-CONTAINER v1\n0123456789abcdef"), snapBytes...))
				_, _ = br.Seek(int64(len("SNAPSHOT-CONTAINER v1\n0123456789abcdef")), io.SeekStart)
				rd = br
			case "*os.File positioned behind a header":
				hdr := []byte("SNAPSHOT-CONTAINER v1\n0123456789abcdef")
				srcPath := e.Path + fmt.Sprintf(".container-%d", round)
				if err := os.WriteFile(srcPath, append(append([]byte{}, hdr...), snapBytes...), 0600); err == nil {
					if f, err := os.Open(srcPath); err == nil {
						defer f.Close()
						_, _ = io.ReadFull(f, make([]byte, len(hdr)))
						rd = f
					}
				}
				defer os.Remove(srcPath)
			case "*os.File":
				// the caller's own snapshot file, which it keeps: restoring from it a second time later must give the same state
				srcPath := e.Path + fmt.Sprintf(".restore-src-%d", round)
				if err := os.WriteFile(srcPath, snapBytes, 0600); err == nil {
					if f, err := os.Open(srcPath); err == nil {
						defer f.Close()
						rd = f
						if keptFile == "" {
							keptFile, keptDump, keptIgnoreMeta = srcPath, dA, route != "StreamToWriter"
						}
					}
				}
				defer os.Remove(srcPath)
			}
			db.RestoreFromReader(rd)
		}
		c.Count("restores_sequential", 1)
		quiesce(baseline)
		dR := dumpDb(e)
		c.Eval()
		info := map[string]any{"cfg": cfg.String(), "route": route, "restore": restoreCall, "reader": readerKind}
		ignore := metaIgnore
		if route == "StreamToWriter" {
			ignore = nil
		}
		if diff := dump.Diff(dA, dR, ignore, 6); len(diff) > 0 {
			c.Violationf("C17 restored database differs from the state at snapshot time ("+route+")", info, "diff: %v", diff)
		}
		if route != "StreamToWriter" {
			got, err := db.GetSnapshotId()
			if err != nil || got == nil || *got != snapId {
				c.Violationf("C17 GetSnapshotId after restore", info, "got %v err=%v, Snapshot returned %q", derefS(got), err, snapId)
			}
		}
		for i := range listenerCalls {
			if d := listenerCalls[i].Load() - before[i]; d != 1 {
				c.Violationf(fmt.Sprintf("C17 restore listener fired %d times", d), info, "listener %d", i)
			}
		}
		// model of time A is current again
		e.M = modelA
		ds := e.Check("C17 after restore", info)
		if len(ds) > 0 {
			e.Resync()
		}
		if route != "StreamToWriter" {
			calls0 := idCalls
			// an id function that fails must not use up the reset: the request fails, the next one still gets a fresh id
			if (idx/8+round)%2 == 1 {
				failCalls := 0
				got, ferr := db.GetTimelineId(boltz.TimelineModeDefault, func() (string, error) { failCalls++; return "never", fmt.Errorf("id source down") })
				c.Eval()
				c.Cover("timeline_after_restore", "failing id function first")
				if ferr == nil || failCalls != 1 || got == "never" {
					c.Violationf("C17 timeline id request with a failing id function", info, "returned %q err=%v, id function called %d times (expected one call and its error)", got, ferr, failCalls)
				}
			}
			// the request after a restore and the ones following it, in either non-forcing mode
			modes := []boltz.TimelineMode{boltz.TimelineModeDefault, boltz.TimelineModeInitIfEmpty}
			m1, m2 := modes[(idx/2+round)%2], modes[(idx/4)%2]
			var a, b string
			var err1, err2 error
			if (idx/5+round)%3 == 1 {
				// two callers at once (e.g. two restore listeners): still one fresh id, the same for both
				slowIdF := func() (string, error) { time.Sleep(3 * time.Millisecond); return idF() }
				var wg sync.WaitGroup
				wg.Add(2)
				go func() { defer wg.Done(); a, err1 = db.GetTimelineId(m1, slowIdF) }()
				go func() { defer wg.Done(); b, err2 = db.GetTimelineId(m2, slowIdF) }()
				wg.Wait()
				c.Cover("timeline_after_restore", "two concurrent requests")
			} else {
				a, err1 = db.GetTimelineId(m1, idF)
				b, err2 = db.GetTimelineId(m2, idF)
			}
			b2, err3 := db.GetTimelineId(boltz.TimelineModeDefault, idF)
			c.Eval()
			info["timeline_start"] = tlStart
			if err1 != nil || err2 != nil || err3 != nil || idCalls != calls0+1 || a != fmt.Sprintf("timeline-%d-%d", idx, calls0+1) || b != a || b2 != a {
				c.Violationf("C17 timeline id after restore", info, "first=%q second=%q third=%q, id function called %d times (expected exactly once, returning a fresh id)", a, b, b2, idCalls-calls0)
			}
			c.Cover("timeline_after_restore", fmt.Sprintf("round %d, start %s", round, tlStart))
		}
		c.Nontrivial(route, restoreCall, dA.Hash())
		if c.WantSample() {
			c.Sample(map[string]any{"cfg": cfg.String(), "route": route, "restore": restoreCall, "entries_in_dump": len(dA.Entries)})
		}
	}
	// the database keeps working
	for t := 0; t < 5; t++ {
		e.RunTx(e.GenTx(r, 3, false), "C17 after restore")
	}
	e.Check("C17 after restore", nil)
	// the snapshot file a restore was fed from is still the caller's: restoring it again, after all those transactions,
	// gives the state it was taken at
	if keptFile != "" {
		if f, err := os.Open(keptFile); err == nil {
			quiesce(baseline)
			db.RestoreFromReader(f)
			_ = f.Close()
			quiesce(baseline)
			c.Eval()
			c.Cover("restore_reader", "the same file a second time")
			ignore := metaIgnore
			if !keptIgnoreMeta {
				ignore = nil
			}
			if diff := dump.Diff(keptDump, dumpDb(e), ignore, 6); len(diff) > 0 {
				c.Violationf("C17 restoring the same snapshot file a second time gives another state", map[string]any{"cfg": cfg.String()}, "diff: %v", diff)
			}
			e.Resync()
		}
	}
}

// ---- concurrent part ----

type regInput struct {
	Kind string // write | restore | read
	Gen  int64
}

func c17Concurrent(c *core.Ctx, idx int) {
	r := c.Rand()
	path := c.TempFile("c17c")
	s, err := openStamp(path)
	if err != nil {
		c.Violation("C17 setup", err.Error(), nil)
		return
	}
	stuck := false
	defer func() {
		if !stuck { // a deadlocked database cannot be closed; its goroutines are left behind
			_ = s.db.Close()
		}
		_ = os.Remove(path)
		_ = os.Remove(path + ".previous")
		_ = os.Remove(path + ".csnap0")
		_ = os.Remove(path + ".csnap1")
	}()
	var reads atomic.Int64
	defer boltz.VerifSetHook(nil)
	var hookRand atomic.Uint64
	hookRand.Store(r.Uint64())
	var restoring atomic.Int64 // number of restores started
	var restoresDone atomic.Int64
	boltz.VerifSetHook(func(point string) error {
		if strings.HasPrefix(point, "restore.") {
			x := hookRand.Add(0x9e3779b97f4a7c15)
			time.Sleep(time.Duration((x>>33)%4) * time.Millisecond)
		}
		return nil
	})
	if err := s.writeState(s.gen.Add(1)); err != nil {
		c.Violationf("C17 initial write failed", nil, "%v", err)
		return
	}
	h := &histLog{start: time.Now()}
	h.add(histOp{Client: 0, Kind: "write", Gen: 1, Call: 0, Ret: 1, Ok: true})
	var stop atomic.Bool
	var wg, rwg sync.WaitGroup
	// writers
	for w := 0; w < 2; w++ {
		wg.Add(1)
		go func(w int) {
			defer wg.Done()
			for i := 0; i < 60 && !stop.Load(); i++ {
				g := s.gen.Add(1)
				call := h.now()
				err := s.writeStateVia(g, w == 1) // the second writer goes through Db.Batch
				ret := h.now()
				if err != nil {
					c.Violationf("C17 write transaction failed during concurrent restores", nil, "generation %d: %v", g, err)
					return
				}
				h.add(histOp{Client: 1 + w, Kind: "write", Gen: g, Call: call, Ret: ret, Ok: true})
				s.commits.Add(1)
				time.Sleep(time.Duration(i%3) * time.Millisecond)
			}
		}(w)
	}
	// mutator: snapshots and restores
	wg.Add(1)
	go func() {
		defer wg.Done()
		for i := 0; i < 8; i++ {
			time.Sleep(3 * time.Millisecond)
			var buf bytes.Buffer
			var gs int64 = -1
			if i%2 == 0 {
				if err := s.db.StreamToWriter(&buf); err != nil {
					c.Violationf("C17 StreamToWriter failed", nil, "%v", err)
					return
				}
			} else {
				sp := path + ".snap"
				if _, _, err := s.db.Snapshot(sp); err != nil {
					c.Violationf("C17 Snapshot failed", nil, "%v", err)
					return
				}
				b, _ := os.ReadFile(sp)
				_ = os.Remove(sp)
				buf.Write(b)
			}
			// which generation does the snapshot hold? open it as a separate database
			tmp := path + ".probe"
			_ = os.WriteFile(tmp, buf.Bytes(), 0600)
			if pdb, err := bbolt.Open(tmp, 0600, &bbolt.Options{ReadOnly: true}); err == nil {
				_ = pdb.View(func(tx *bbolt.Tx) error {
					gs = s.readGen(tx)
					_, bad := s.verifyTx(tx, false)
					for _, b := range bad {
						c.Violationf("C17 snapshot is not a consistent copy: "+firstWords(b), nil, "%s", b)
					}
					return nil
				})
				_ = pdb.Close()
			}
			_ = os.Remove(tmp)
			if gs < 0 {
				c.Violationf("C17 snapshot unreadable", nil, "snapshot %d", i)
				return
			}
			time.Sleep(2 * time.Millisecond)
			restoring.Add(1)
			call := h.now()
			if i%3 == 0 {
				s.db.RestoreFromReader(bytes.NewReader(buf.Bytes()))
			} else {
				s.db.RestoreSnapshot(buf.Bytes())
			}
			ret := h.now()
			restoresDone.Add(1)
			h.add(histOp{Client: 3, Kind: "restore", Gen: gs, Call: call, Ret: ret, Ok: true})
			c.Count("restores_concurrent", 1)
		}
	}()
	// snapshotter: file snapshots taken while restores, writers and readers run; each must be a consistent copy
	rwg.Add(1)
	go func() {
		defer rwg.Done()
		for n := 0; !stop.Load(); n++ {
			sp := fmt.Sprintf("%s.csnap%d", path, n%2)
			_ = os.Remove(sp)
			startedBefore, doneBefore := restoring.Load(), restoresDone.Load()
			// where a snapshot would go by default (the migration manager asks the same way), asked while restores swap
			// the database underneath
			if dp := s.db.GetDefaultSnapshotPath(); !strings.HasPrefix(dp, path+"-") {
				c.Violationf("C17 default snapshot path does not name the database", nil, "%q for database %q", dp, path)
			}
			var err error
			if n%3 == 2 {
				// the stream route, into a writer that takes its time (a peer on the network): writers commit meanwhile
				f, ferr := os.Create(sp)
				if ferr != nil {
					continue
				}
				err = s.db.StreamToWriter(&slowWriter{w: f})
				_ = f.Close()
				c.Count("streams_to_a_slow_writer", 1)
			} else {
				_, _, err = s.db.Snapshot(sp)
			}
			reads.Add(1)
			c.Eval()
			if err != nil {
				c.Violationf("C17 Snapshot failed during concurrent restores: "+firstWords(err.Error()), nil, "%v", err)
				_ = os.Remove(sp)
				continue
			}
			if restoring.Load() > doneBefore || startedBefore > doneBefore {
				c.Count("snapshots_overlapping_a_restore", 1)
			}
			if pdb, err := bbolt.Open(sp, 0600, &bbolt.Options{ReadOnly: true}); err == nil {
				_ = pdb.View(func(tx *bbolt.Tx) error {
					_, bad := s.verifyTx(tx, n%2 == 0)
					for _, b := range bad {
						c.Violationf("C17 snapshot taken during concurrent restores is not a consistent copy: "+firstWords(b), nil, "%s", b)
					}
					return nil
				})
				_ = pdb.Close()
			} else {
				c.Violationf("C17 snapshot taken during concurrent restores cannot be opened", nil, "%v", err)
			}
			_ = os.Remove(sp)
			c.Count("concurrent_snapshots", 1)
			time.Sleep(time.Duration(n%3) * time.Millisecond)
		}
	}()
	// readers
	for rd := 0; rd < 6; rd++ {
		rwg.Add(1)
		go func(rd int) {
			defer rwg.Done()
			for n := 0; !stop.Load(); n++ {
				startedBefore := restoring.Load()
				doneBefore := restoresDone.Load()
				call := h.now()
				var g int64
				var bad []string
				err := s.db.View(func(tx *bbolt.Tx) error {
					g, bad = s.verifyTx(tx, n%3 == 0)
					if (rd+n)%2 == 0 {
						// the documented way to reach the root bucket from inside a transaction (the migration
						// manager does the same inside Db.Update); the transaction stays open a little while
						time.Sleep(time.Duration((rd+n)%3) * 300 * time.Microsecond)
						if rb, err := s.db.RootBucket(tx); err != nil || rb == nil {
							bad = append(bad, fmt.Sprintf("RootBucket inside a read transaction: bucket %v err %v", rb != nil, err))
						}
						c.Count("root_bucket_in_tx", 1)
					}
					return nil
				})
				ret := h.now()
				reads.Add(1)
				c.Eval()
				c.Count("read_tx", 1)
				if err != nil {
					c.Violationf("C17 read transaction failed during concurrent restores: "+firstWords(err.Error()), nil, "%v", err)
					continue
				}
				if restoring.Load() > doneBefore || startedBefore > doneBefore {
					c.Count("reads_overlapping_a_restore", 1)
					c.Nontrivial("overlap", g, rd, n)
				}
				for _, b := range bad {
					c.Violationf("C17 transaction saw a mixture of old and new database: "+firstWords(b), map[string]any{"reader": rd, "generation": g}, "%s", b)
				}
				h.add(histOp{Client: 4 + rd, Kind: "read", Gen: g, Call: call, Ret: ret, Ok: true})
				time.Sleep(time.Duration(n%2) * time.Millisecond)
			}
		}(rd)
	}
	// bounded progress: the workload normally finishes within a second or two. If no client completes any
	// operation (commit, restore or read transaction) for 20 consecutive seconds, the clients are deadlocked.
	done := make(chan struct{})
	go func() { wg.Wait(); close(done) }()
	progress := func() int64 { return s.commits.Load() + restoresDone.Load() + reads.Load() }
	last, idle := progress(), 0
	for finished := false; !finished; {
		select {
		case <-done:
			finished = true
		case <-time.After(time.Second):
			if p := progress(); p == last {
				idle++
			} else {
				idle, last = 0, p
			}
			if idle >= 20 {
				buf := make([]byte, 1<<20)
				buf = buf[:runtime.Stack(buf, true)]
				stuck = true
				stop.Store(true)
				c.Violationf("C17 no transaction or restore completed for 20 s: clients and restore are deadlocked", map[string]any{"goroutines": blockedSummary(string(buf))},
					"commits=%d restores started=%d done=%d reads=%d; blocked goroutines:\n%s", s.commits.Load(), restoring.Load(), restoresDone.Load(), reads.Load(), blockedSummary(string(buf)))
				return
			}
		}
	}
	stop.Store(true)
	rwg.Wait()
	// linearizability of the generation register
	var ops []porcupine.Operation
	h.mu.Lock()
	for _, o := range h.ops {
		ops = append(ops, porcupine.Operation{ClientId: o.Client, Input: regInput{Kind: o.Kind, Gen: o.Gen}, Call: o.Call, Output: o.Gen, Return: o.Ret})
	}
	nOps := len(h.ops)
	h.mu.Unlock()
	model := porcupine.Model{
		Init: func() any { return int64(0) },
		Step: func(state, input, output any) (bool, any) {
			in := input.(regInput)
			switch in.Kind {
			case "write", "restore":
				return true, in.Gen
			default:
				return output.(int64) == state.(int64), state
			}
		},
		Equal: func(a, b any) bool { return a.(int64) == b.(int64) },
		DescribeOperation: func(input, output any) string {
			in := input.(regInput)
			return fmt.Sprintf("%s(%d)", in.Kind, in.Gen)
		},
	}
	res := porcupine.CheckOperationsTimeout(model, ops, 2*time.Minute)
	c.Eval()
	c.Count("history_ops_checked", int64(nOps))
	switch res {
	case porcupine.Ok:
		c.Cover("porcupine", "ok")
	case porcupine.Illegal:
		var lines []string
		h.mu.Lock()
		for _, o := range h.ops {
			if o.Kind != "read" || len(lines) < 60 {
				lines = append(lines, fmt.Sprintf("client %d %s(%d) [%d,%d]", o.Client, o.Kind, o.Gen, o.Call, o.Ret))
			}
		}
		h.mu.Unlock()
		c.Violationf("C17 history of generations is not linearizable (register model: write / restore / read)", map[string]any{"history": lines}, "porcupine: illegal history of %d operations", nOps)
	default:
		c.Cover("porcupine", "unknown(timeout)")
	}
	if c.WantSample() {
		c.Sample(map[string]any{"history_ops": nOps, "restores": restoresDone.Load(), "commits": s.commits.Load(), "porcupine": fmt.Sprint(res)})
	}
}

// blockedSummary keeps, for every goroutine of a full dump, its state line and the first frames in
// openziti/storage, bbolt or sync (enough to see who waits for which lock).
func blockedSummary(dumpText string) string {
	var out []string
	for _, g := range strings.Split(dumpText, "\n\n") {
		lines := strings.Split(g, "\n")
		if len(lines) == 0 || !strings.HasPrefix(lines[0], "goroutine ") {
			continue
		}
		var keep []string
		for _, l := range lines[1:] {
			if strings.HasPrefix(l, "\t") {
				continue
			}
			if strings.Contains(l, "openziti/storage") || strings.Contains(l, "bbolt") || strings.HasPrefix(l, "sync.") {
				if i := strings.LastIndex(l, "("); i > 0 {
					l = l[:i]
				}
				keep = append(keep, strings.TrimPrefix(strings.TrimPrefix(l, "github.com/openziti/storage/"), "go.etcd.io/"))
			}
			if len(keep) >= 5 {
				break
			}
		}
		if len(keep) > 0 {
			out = append(out, lines[0]+" "+strings.Join(keep, " < "))
		}
		if len(out) >= 14 {
			break
		}
	}
	return strings.Join(out, "\n")
}

// slowWriter passes the data on in small pieces with pauses in between.
type slowWriter struct {
	w io.Writer
	n int
}

func (s *slowWriter) Write(p []byte) (int, error) {
	total := 0
	for len(p) > 0 {
		k := min(len(p), 8192)
		n, err := s.w.Write(p[:k])
		total += n
		if err != nil {
			return total, err
		}
		p = p[k:]
		s.n++
		time.Sleep(2 * time.Millisecond)
	}
	return total, nil
}
