package props

import (
	"fmt"
	"os"
	"sort"

	"github.com/openziti/storage/boltz"
	"go.etcd.io/bbolt"
	"verif/harness/internal/core"
	"verif/harness/internal/dump"
	"verif/harness/internal/schema"
)

// C05 part (d): links written by the entity strategy (PersistContext.SetLinkedIds) on create and update. The requested
// list comes with duplicates and in any order; after a committed create / update the entity's link set is exactly the
// set of the requested ids, mirrored on the other side; a list naming a missing entity fails and changes nothing.
const c05LinkedCases = 12

func c05Linked(c *core.Ctx, idx int) {
	r := c.Rand()
	hosts := &schema.StoreDef{Type: "hosts", BasePath: []string{"stores"},
		Fields: []schema.Field{{Name: "label", Kind: schema.KStr}, {Name: "svcs", Kind: schema.KLinks, FK: "svcs"}},
		Links:  []schema.LinkDef{{Field: "svcs", Target: "svcs", TargetField: "hosts"}}}
	svcs := &schema.StoreDef{Type: "svcs", BasePath: []string{"stores"},
		Fields: []schema.Field{{Name: "label", Kind: schema.KStr}, {Name: "hosts", Kind: schema.KList, FK: "hosts", Derived: true}},
		Links:  []schema.LinkDef{{Field: "hosts", Target: "hosts", TargetField: "svcs"}}}
	sc := schema.Build([]*schema.StoreDef{svcs, hosts})
	path := c.TempFile("c05l")
	db, err := sc.OpenDb(path)
	if err != nil {
		c.Violation("C05 setup", err.Error(), nil)
		return
	}
	defer func() { _ = db.Close(); _ = os.Remove(path) }()
	hst, sst := sc.St("hosts"), sc.St("svcs")
	hostIds, svcIds := []string{"h1", "h2"}, []string{"s1", "s2", "s3", "s4"}
	links := map[string]map[string]bool{} // host -> svcs (the harness's record of what was requested last)
	liveSvc := map[string]bool{}
	for step := 0; step < 40; step++ {
		op := core.Pick(r, []string{"create-svc", "create-svc", "delete-svc", "create-host", "update-host", "update-host", "update-host", "delete-host"})
		h, s := core.Pick(r, hostIds), core.Pick(r, svcIds)
		var requested []string
		for i, n := 0, r.Intn(5); i < n; i++ {
			requested = append(requested, core.Pick(r, svcIds))
		}
		if len(links[h]) > 0 && r.P(0.4) {
			// as long as the current set, made of currently linked ids only, with a repeat
			var cur []string
			for k := range links[h] {
				cur = append(cur, k)
			}
			sort.Strings(cur)
			requested = nil
			for range cur {
				requested = append(requested, cur[0])
			}
		}
		var before *dump.Dump
		_ = db.View(func(tx *bbolt.Tx) error { before = dump.Tx(tx); return nil })
		_, hostExists := links[h]
		opErr := db.Update(nil, func(ctx boltz.MutateContext) error {
			switch op {
			case "create-svc":
				return sst.Store.Create(ctx, &schema.Ent{Id: s, Typ: "svcs", V: map[string]any{"label": "l"}})
			case "delete-svc":
				return sst.Store.DeleteById(ctx, s)
			case "create-host":
				return hst.Store.Create(ctx, &schema.Ent{Id: h, Typ: "hosts", V: map[string]any{"label": "l", "svcs": append([]string{}, requested...)}})
			case "update-host":
				return hst.Store.Update(ctx, &schema.Ent{Id: h, Typ: "hosts", V: map[string]any{"label": "m", "svcs": append([]string{}, requested...)}}, nil)
			}
			return hst.Store.DeleteById(ctx, h)
		})
		c.Eval()
		info := map[string]any{"step": step, "op": op, "host": h, "svc": s, "requested": requested, "error": fmt.Sprint(opErr)}
		if opErr != nil {
			var after *dump.Dump
			_ = db.View(func(tx *bbolt.Tx) error { after = dump.Tx(tx); return nil })
			if after.Hash() != before.Hash() {
				c.Violationf("C05 strategy-written links: an operation that returned an error changed the database ("+op+")", info, "diff: %v", dump.Diff(before, after, nil, 4))
			}
			if (op == "create-host" && !hostExists) || (op == "update-host" && hostExists) {
				missing := false
				for _, x := range requested {
					missing = missing || !liveSvc[x]
				}
				if !missing {
					c.Violationf("C05 strategy-written links: "+op+" with a list of existing entities was refused", info, "%v", opErr)
				}
			}
			continue
		}
		switch op {
		case "create-svc":
			liveSvc[s] = true
		case "delete-svc":
			delete(liveSvc, s)
			for _, m := range links {
				delete(m, s)
			}
		case "create-host", "update-host":
			links[h] = map[string]bool{}
			for _, x := range requested {
				links[h][x] = true
			}
			c.Count("strategy_written_link_lists", 1)
			if len(requested) != len(links[h]) {
				c.Count("strategy_written_link_lists_with_repeats", 1)
			}
		case "delete-host":
			delete(links, h)
		}
		c.Nontrivial("c05linked", op, len(requested), len(links[h]))
		_ = db.View(func(tx *bbolt.Tx) error {
			for _, hid := range hostIds {
				var want []string
				for k := range links[hid] {
					want = append(want, k)
				}
				sort.Strings(want)
				var got []string
				if _, ok := links[hid]; ok {
					got = hst.Links["svcs"].GetLinks(tx, hid)
					sort.Strings(got)
				}
				if fmt.Sprint(got) != fmt.Sprint(want) {
					c.Violationf("C05 strategy-written links: the entity's link set is not the requested set after "+op, info, "host %s links %q, requested set %q", hid, got, want)
				}
			}
			for _, sid := range svcIds {
				if !liveSvc[sid] {
					continue
				}
				var want []string
				for hid, m := range links {
					if m[sid] {
						want = append(want, hid)
					}
				}
				sort.Strings(want)
				got := sst.Links["hosts"].GetLinks(tx, sid)
				sort.Strings(got)
				if fmt.Sprint(got) != fmt.Sprint(want) {
					c.Violationf("C05 strategy-written links: the other side does not mirror the entity's links after "+op, info, "svc %s lists %q, expected %q", sid, got, want)
				}
			}
			return nil
		})
	}
	// scripted end: a host with links is persisted again with no ids at all (an empty list, which reaches the persist
	// context as "no list"): the links are gone from both sides
	err = db.Update(nil, func(ctx boltz.MutateContext) error {
		for _, sid := range []string{"s1", "s2"} {
			if !liveSvc[sid] {
				if err := sst.Store.Create(ctx, &schema.Ent{Id: sid, Typ: "svcs", V: map[string]any{"label": "l"}}); err != nil {
					return err
				}
				liveSvc[sid] = true
			}
		}
		ent := &schema.Ent{Id: "h1", Typ: "hosts", V: map[string]any{"label": "l", "svcs": []string{"s1", "s2"}}}
		if _, ok := links["h1"]; ok {
			return hst.Store.Update(ctx, ent, nil)
		}
		return hst.Store.Create(ctx, ent)
	})
	if err == nil {
		err = db.Update(nil, func(ctx boltz.MutateContext) error {
			return hst.Store.Update(ctx, &schema.Ent{Id: "h1", Typ: "hosts", V: map[string]any{"label": "n", "svcs": []string{}}}, nil)
		})
	}
	c.Eval()
	c.Count("strategy_written_empty_link_lists_over_existing_links", 1)
	if err != nil {
		c.Violationf("C05 strategy-written links: scripted update to the empty list failed", nil, "%v", err)
		return
	}
	_ = db.View(func(tx *bbolt.Tx) error {
		if got := hst.Links["svcs"].GetLinks(tx, "h1"); len(got) != 0 {
			c.Violationf("C05 strategy-written links: the entity's link set is not the requested set after an update to the empty list", map[string]any{"host": "h1", "links_before": []string{"s1", "s2"}}, "host h1 still links %q", got)
		}
		for _, sid := range []string{"s1", "s2"} {
			if got := sst.Links["hosts"].GetLinks(tx, sid); contains(got, "h1") {
				c.Violationf("C05 strategy-written links: the other side does not mirror the entity's links after an update to the empty list", map[string]any{"svc": sid}, "svc %s still lists %q", sid, got)
			}
		}
		return nil
	})
}
