package props

import (
	"context"
	"fmt"
	"os"
	"sort"

	"github.com/openziti/storage/boltz"
	"go.etcd.io/bbolt"
	"verif/harness/internal/core"
	"verif/harness/internal/dump"
	"verif/harness/internal/schema"
)

// C16 part (b): deletes that reach system entities indirectly. gadgets reference widgets through a cascade-delete fk
// constraint; both stores carry the system-entity constraint. Deleting a widget deletes the gadgets that reference it,
// so from an ordinary context it may only succeed when neither the widget nor any of those gadgets is a system entity;
// refused deletes leave everything in place. All (widget flag, gadget flags, context, delete call) combinations.
const c16CascadeCases = 32

func c16Cascade(c *core.Ctx, idx int) {
	wdef := &schema.StoreDef{Type: "widgets", BasePath: []string{"stores"}, Ext: true, System: true,
		Fields: []schema.Field{{Name: "name", Kind: schema.KStr}}}
	gdef := &schema.StoreDef{Type: "gadgets", BasePath: []string{"stores"}, Ext: true, System: true,
		Fields: []schema.Field{{Name: "name", Kind: schema.KStr}, {Name: "widget", Kind: schema.KStr, FK: "widgets"}},
		FKs:    []schema.FKDef{{Field: "widget", Target: "widgets", Kind: schema.FkConstraint, Nullable: false, Cascade: int(boltz.CascadeDelete)}}}
	sc := schema.Build([]*schema.StoreDef{wdef, gdef})
	path := c.TempFile("c16c")
	db, err := sc.OpenDb(path)
	if err != nil {
		c.Violation("C16 setup", err.Error(), nil)
		return
	}
	defer func() { _ = db.Close(); _ = os.Remove(path) }()
	wst, gst := sc.St("widgets"), sc.St("gadgets")
	widgetSys := idx&1 != 0
	gadgetSys := []bool{idx&2 != 0, idx&4 != 0}
	sysCtx := idx&8 != 0
	call := []string{"DeleteById", "DeleteWhere"}[(idx>>4)&1]
	mk := func(id string, sys bool, v map[string]any, typ string) *schema.Ent {
		e := &schema.Ent{Id: id, Typ: typ, V: v}
		e.Ext.Id, e.Ext.IsSystem = id, sys
		return e
	}
	err = db.Update(boltz.NewSystemMutateContext(boltz.NewMutateContext(context.Background())), func(ctx boltz.MutateContext) error {
		for _, w := range []struct {
			id  string
			sys bool
		}{{"w-target", widgetSys}, {"w-other", true}} {
			if err := wst.Store.Create(ctx, mk(w.id, w.sys, map[string]any{"name": w.id}, "widgets")); err != nil {
				return err
			}
		}
		for i, sys := range gadgetSys {
			id := fmt.Sprintf("g-%d", i)
			if err := gst.Store.Create(ctx, mk(id, sys, map[string]any{"name": id, "widget": "w-target"}, "gadgets")); err != nil {
				return err
			}
		}
		return gst.Store.Create(ctx, mk("g-unrelated", true, map[string]any{"name": "u", "widget": "w-other"}, "gadgets"))
	})
	if err != nil {
		c.Violationf("C16 cascade setup failed", nil, "%v", err)
		return
	}
	var before *dump.Dump
	_ = db.View(func(tx *bbolt.Tx) error { before = dump.Tx(tx); return nil })
	anySystem := widgetSys || gadgetSys[0] || gadgetSys[1]
	expectOk := sysCtx || !anySystem
	opErr := db.Update(nil, func(ctx boltz.MutateContext) error {
		use := ctx
		if sysCtx {
			use = ctx.GetSystemContext()
		}
		if call == "DeleteWhere" {
			return wst.Store.DeleteWhere(use, `id = "w-target"`)
		}
		return wst.Store.DeleteById(use, "w-target")
	})
	c.Eval()
	c.Count("cascade_cases", 1)
	info := map[string]any{"widget_is_system": widgetSys, "gadgets_are_system": gadgetSys, "system_context": sysCtx, "call": call, "error": fmt.Sprint(opErr)}
	combo := fmt.Sprintf("widget system=%v, gadgets system=%v/%v, %s context, %s", widgetSys, gadgetSys[0], gadgetSys[1], ctxName(sysCtx), call)
	c.Cover("cascade", fmt.Sprintf("any-system=%v:%s:%s", anySystem, ctxName(sysCtx), call))
	c.Nontrivial("cascade", combo)
	var after *dump.Dump
	var wids, gids []string
	_ = db.View(func(tx *bbolt.Tx) error {
		after = dump.Tx(tx)
		wids, gids = wst.RawIds(tx), gst.RawIds(tx)
		return nil
	})
	sort.Strings(wids)
	sort.Strings(gids)
	if (opErr == nil) != expectOk {
		c.Violationf("C16 cascade: delete reaching a system entity: expected success="+fmt.Sprint(expectOk)+" ("+combo+")", info, "returned %v; widgets now %q gadgets now %q", opErr, wids, gids)
	}
	if opErr != nil {
		if after.Hash() != before.Hash() {
			c.Violationf("C16 cascade: a refused delete changed the database ("+combo+")", info, "diff: %v", dump.Diff(before, after, nil, 6))
		}
		return
	}
	if fmt.Sprint(wids) != "[w-other]" || fmt.Sprint(gids) != "[g-unrelated]" {
		c.Violationf("C16 cascade: an accepted delete did not remove exactly the widget and its gadgets ("+combo+")", info, "widgets %q gadgets %q", wids, gids)
	}
}
