package props

import (
	"context"
	"fmt"
	"sort"

	"github.com/openziti/storage/boltz"
	"go.etcd.io/bbolt"
	"verif/harness/internal/core"
)

// C13 part (3b): field checkers behind override tables. The caller's checker speaks in API names; the entity strategy
// (and the parent strategy a child strategy delegates to) registers tables storage-field -> API-name on the persist
// context (PersistContext.WithFieldOverrides). A restricted write touches exactly the fields whose name, translated
// through the tables in the order last-registered-first, is selected by the caller's checker. The checker object and
// the tables belong to their owners: the same checker is used for a second write with fewer tables, the tables are
// compared with copies afterwards.
const c13OverrideCases = 8

func c13OverrideCase(c *core.Ctx, part int) {
	c13TwoHandles(c)
	r := c.Rand()
	d, err := openC13(c)
	if err != nil {
		c.Violation("C13 setup", err.Error(), nil)
		return
	}
	defer d.close()
	fields := c13Fields()
	mk := func(b *boltz.TypedBucket, checker boltz.FieldChecker) *boltz.PersistContext {
		return &boltz.PersistContext{MutateContext: boltz.NewTxMutateContext(context.Background(), b.Tx()), Id: "ent", Bucket: b, FieldChecker: checker}
	}
	copyMap := func(m map[string]string) map[string]string {
		out := map[string]string{}
		for k, v := range m {
			out[k] = v
		}
		return out
	}
	for round := 0; round < 48; round++ {
		// tables: storage field -> alias; o2 is registered after o1 (so it is consulted first)
		o1, o2, callerMap := map[string]string{}, map[string]string{}, map[string]string{}
		for _, f := range fields {
			if r.P(0.4) {
				o1[f.name] = "api_" + f.name
			}
			if r.P(0.3) {
				// a second-level table may rename to something the first table renames again, or to a final name
				o2[f.name] = core.Pick(r, []string{"api2_" + f.name, core.Pick(r, fields).name})
			}
			if r.P(0.3) {
				callerMap["api_"+f.name] = "ext_" + f.name
			}
		}
		// what the caller selects: final names drawn from everything a field can translate to
		selected := boltz.MapFieldChecker{}
		for _, f := range fields {
			for _, n := range []string{f.name, "api_" + f.name, "api2_" + f.name, "ext_" + f.name} {
				if r.P(0.3) {
					selected[n] = struct{}{}
				}
			}
		}
		callerKind := []string{"plain", "mapped"}[round%2]
		var ck boltz.FieldChecker = selected
		if callerKind == "mapped" {
			ck = boltz.NewMappedFieldChecker(selected, callerMap)
		}
		resolve := func(field string, tables ...map[string]string) bool {
			name := field
			for i := len(tables) - 1; i >= 0; i-- {
				if o, ok := tables[i][name]; ok {
					name = o
				}
			}
			if callerKind == "mapped" {
				if o, ok := callerMap[name]; ok {
					name = o
				}
			}
			_, ok := selected[name]
			return ok
		}
		o1c, o2c, cmc := copyMap(o1), copyMap(o2), copyMap(callerMap)
		for write, tables := range [][]map[string]string{{o1, o2}, {o1}, {o2}, {}} {
			via := (round+write)%2 == 0
			var before, full []any
			err := d.update(func(b *boltz.TypedBucket) {
				pc := mk(b, nil)
				for _, f := range fields {
					f.write(b, pc, via, 0, nil)
				}
			})
			if err != nil {
				c.Violationf("C13 overrides: baseline write failed", nil, "%v", err)
				return
			}
			d.view(func(b *boltz.TypedBucket) {
				for _, f := range fields {
					before = append(before, f.read(b))
				}
			})
			err = d.update(func(b *boltz.TypedBucket) {
				pc := mk(b, ck)
				for _, t := range tables {
					pc.WithFieldOverrides(t)
				}
				for _, f := range fields {
					f.write(b, pc, via, 1, pc.FieldChecker)
				}
			})
			if err != nil {
				c.Violationf("C13 overrides: restricted write failed", nil, "%v", err)
				return
			}
			_ = d.db.Update(func(tx *bbolt.Tx) error {
				b := boltz.GetOrCreatePath(tx, "root", "ref")
				pc := mk(b, nil)
				for _, f := range fields {
					f.write(b, pc, via, 0, nil)
					f.write(b, pc, via, 1, nil)
				}
				return nil
			})
			_ = d.db.View(func(tx *bbolt.Tx) error {
				b := boltz.Path(tx, "root", "ref")
				for _, f := range fields {
					full = append(full, f.read(b))
				}
				return nil
			})
			info := map[string]any{"tables_registered": len(tables), "write": write, "caller_checker": callerKind, "o1": fmt.Sprint(o1c), "o2": fmt.Sprint(o2c), "caller_map": fmt.Sprint(cmc), "selected": sortedKeys(selected)}
			d.view(func(b *boltz.TypedBucket) {
				for i, f := range fields {
					got, want := f.read(b), before[i]
					sel := resolve(f.name, tables...)
					if sel {
						want = full[i]
					}
					c.Eval()
					if !f.eq(want, got) {
						what := "a field outside the checker's selection changed"
						if sel {
							what = "a selected field was not written"
						}
						c.Violationf(fmt.Sprintf("C13 field checker behind override tables: %s (write %d of the same checker, %d tables, caller checker %s)", what, write, len(tables), callerKind), info,
							"field %s selected=%v expected %s got %s", f.name, sel, short(want), short(got))
					}
				}
			})
			c.Count("override_writes", 1)
			c.Nontrivial("override", round, write, callerKind)
			for name, pair := range map[string][2]map[string]string{"first table": {o1, o1c}, "second table": {o2, o2c}, "caller's own mapping": {callerMap, cmc}} {
				if fmt.Sprint(pair[0]) != fmt.Sprint(pair[1]) {
					c.Violationf("C13 field checker behind override tables: the "+name+" was modified by a restricted write", info, "now %v, was %v", pair[0], pair[1])
					return
				}
			}
		}
	}
	_ = part
}

func sortedKeys(m boltz.MapFieldChecker) []string {
	var out []string
	for k := range m {
		out = append(out, k)
	}
	sort.Strings(out)
	return out
}

// c13TwoHandles: two TypedBucket handles on the same bucket inside one transaction (the entity strategy's bucket and
// the one a constraint or a link collection looked up for itself). What one handle writes - a list or a map replacing
// an earlier one - is what the other handle reads next, however often it has read the old value before.
// c13TypeChange: a field is overwritten with a value of another type whose text equals the old value's rendering
// (int64 42 -> string "42", bool true -> string "true", and back): what is read afterwards is the new value with the
// new type.
func c13TypeChange(c *core.Ctx) {
	d, err := openC13(c)
	if err != nil {
		c.Violation("C13 setup", err.Error(), nil)
		return
	}
	defer d.close()
	for _, tc := range []struct {
		name  string
		first func(b *boltz.TypedBucket)
		text  string
	}{
		{"int64 42", func(b *boltz.TypedBucket) { b.SetInt64("tc", 42, nil) }, "42"},
		{"bool true", func(b *boltz.TypedBucket) { b.SetBool("tc", true, nil) }, "true"},
		{"float64 2.5", func(b *boltz.TypedBucket) { b.SetFloat64("tc", 2.5, nil) }, "2.5"},
		{"int32 -7", func(b *boltz.TypedBucket) { b.SetInt32("tc", -7, nil) }, "-7"},
	} {
		if err := d.update(func(b *boltz.TypedBucket) { tc.first(b) }); err != nil {
			c.Violationf("C13 type change: first write failed", tc.name, "%v", err)
			continue
		}
		if err := d.update(func(b *boltz.TypedBucket) { b.SetString("tc", tc.text, nil) }); err != nil {
			c.Violationf("C13 type change: write of the string failed", tc.name, "%v", err)
			continue
		}
		d.view(func(b *boltz.TypedBucket) {
			typ, _ := boltz.GetTypeAndValue(b.Get([]byte("tc")))
			got := b.GetString("tc")
			c.Eval()
			c.Count("type_changes", 1)
			if typ != boltz.TypeString || got == nil || *got != tc.text || b.GetInt64("tc") != nil || b.GetBool("tc") != nil || b.GetFloat64("tc") != nil {
				c.Violationf("C13 a string written over a "+tc.name+" field with the same text is not what is read back", map[string]any{"field_before": tc.name, "string_written": tc.text},
					"stored type tag %d (string is %d), GetString %v, GetInt64 %v, GetBool %v, GetFloat64 %v", typ, boltz.TypeString, derefS(got), b.GetInt64("tc"), b.GetBool("tc"), b.GetFloat64("tc"))
			}
		})
	}
}

// c13CheckedContainers: a map / list written under a field checker that selects its field is written whole - the
// containers nested inside it included.
func c13CheckedContainers(c *core.Ctx) {
	d, err := openC13(c)
	if err != nil {
		c.Violation("C13 setup", err.Error(), nil)
		return
	}
	defer d.close()
	m := map[string]any{"plain": "x", "inner": map[string]any{"deep": int64(3), "deeper": map[string]any{"z": true}}, "items": []any{"a", int64(2), map[string]any{"k": "v"}}}
	l := []any{"a", []any{"nested", int64(1)}, map[string]any{"in": "list"}}
	for _, sel := range []boltz.MapFieldChecker{{"cm": {}, "cl": {}}, {"cm": {}}, {"other": {}}} {
		if err := d.update(func(b *boltz.TypedBucket) {
			b.PutMap("cm", map[string]any{"old": "o"}, nil, true)
			b.PutList("cl", []any{"old"}, nil)
		}); err != nil {
			c.Violationf("C13 checked containers: baseline write failed", nil, "%v", err)
			return
		}
		if err := d.update(func(b *boltz.TypedBucket) {
			b.PutMap("cm", m, sel, true)
			b.PutList("cl", l, sel)
		}); err != nil {
			c.Violationf("C13 checked containers: write failed", nil, "%v", err)
			return
		}
		d.view(func(b *boltz.TypedBucket) {
			_, mSel := sel["cm"]
			_, lSel := sel["cl"]
			wantM, wantL := any(map[string]any{"old": "o"}), any([]any{"old"})
			if mSel {
				wantM = expectNested(m)
			}
			if lSel {
				wantL = expectNested(l)
			}
			c.Eval()
			c.Count("checked_container_writes", 1)
			if gm := b.GetMap("cm"); !nestedEq(wantM, gm) {
				c.Violationf("C13 a map written under a field checker is not read back whole (selected: "+fmt.Sprint(mSel)+")", map[string]any{"checker": sortedKeys(sel)}, "read %s, expected %s", short(gm), short(wantM))
			}
			if gl := b.GetList("cl"); !nestedEq(wantL, any(gl)) {
				c.Violationf("C13 a list written under a field checker is not read back whole (selected: "+fmt.Sprint(lSel)+")", map[string]any{"checker": sortedKeys(sel)}, "read %s, expected %s", short(gl), short(wantL))
			}
		})
	}
}

func c13TwoHandles(c *core.Ctx) {
	c13TypeChange(c)
	c13CheckedContainers(c)
	r := c.Rand()
	d, err := openC13(c)
	if err != nil {
		c.Violation("C13 setup", err.Error(), nil)
		return
	}
	defer d.close()
	pool := []string{"a", "b", "", "c c", "d", "é"}
	for round := 0; round < 24; round++ {
		l1, l2 := core.Subset(r, pool, 0.5), core.Subset(r, pool, 0.5)
		m1 := map[string]any{"k": core.Pick(r, pool), "n": int64(round), "in": map[string]any{"x": core.Pick(r, pool)}}
		m2 := map[string]any{"k": core.Pick(r, pool), "other": true}
		name := fmt.Sprintf("two%d", round%3)
		err := d.db.Update(func(tx *bbolt.Tx) error {
			a := boltz.GetOrCreatePath(tx, "root", name)
			b := boltz.Path(tx, "root", name)
			if b == nil {
				return fmt.Errorf("second handle is nil")
			}
			check := func(step string, wantL []string, wantM map[string]any) {
				for hn, h := range map[string]*boltz.TypedBucket{"the first handle": a, "the second handle": b, "a fresh handle": boltz.Path(tx, "root", name)} {
					got := h.GetStringList("l")
					want := uniqSortedStrs(wantL)
					c.Eval()
					if fmt.Sprint(got) != fmt.Sprint(want) && !(len(got) == 0 && len(want) == 0) {
						c.Violationf("C13 two handles on one bucket: a list written through one handle is not what another handle reads ("+step+")", map[string]any{"round": round, "written_first": l1, "written_second": l2}, "%s reads %q, expected %q", hn, got, want)
					}
					gm := h.GetMap("m")
					if !nestedEq(expectNested(wantM), gm) {
						c.Violationf("C13 two handles on one bucket: a map written through one handle is not what another handle reads ("+step+")", map[string]any{"round": round}, "%s reads %v, expected %v", hn, gm, wantM)
					}
				}
			}
			a.SetStringList("l", l1, nil)
			a.PutMap("m", m1, nil, true)
			check("first write, through the first handle", l1, m1)
			b.SetStringList("l", l2, nil)
			b.PutMap("m", m2, nil, true)
			check("replaced through the second handle", l2, m2)
			a.SetStringList("l", l1, nil)
			check("list replaced again through the first handle", l1, m2)
			if a.HasError() || b.HasError() {
				return fmt.Errorf("bucket error: %v / %v", a.GetError(), b.GetError())
			}
			return nil
		})
		c.Count("two_handle_rounds", 1)
		c.Nontrivial("twohandles", fmt.Sprint(l1), fmt.Sprint(l2))
		if err != nil {
			c.Violationf("C13 two handles on one bucket: transaction failed", nil, "%v", err)
			return
		}
	}
}

func uniqSortedStrs(l []string) []string {
	seen := map[string]bool{}
	var out []string
	for _, s := range l {
		if !seen[s] {
			seen[s] = true
			out = append(out, s)
		}
	}
	sort.Strings(out)
	return out
}
