package props

import (
	"errors"
	"fmt"
	"os"
	"path/filepath"
	"sync/atomic"
	"time"

	"github.com/openziti/storage/boltz"
	"go.etcd.io/bbolt"
	"verif/harness/internal/core"
	"verif/harness/internal/dump"
	"verif/harness/internal/schema"
)

// C07 part (c): the migration manager, a transaction body the library itself supplies. Migrate runs the caller's
// migrator step by step inside ONE Db.Update and records the version reached. A step fails the way the API offers
// (step.SetError) - with the version it returns left unchanged or advanced, after a rejected store operation, or
// through a failing pre-commit action it registered. Whatever the position of the failing step: Migrate returns a
// non-nil error, the database (version record, the earlier steps' writes) is exactly as before, no commit action ran.
// With no failing step the target version is recorded, every step ran once, in order, and the writes are there.
const c07MigCases = 24

var c07MigFailKinds = []string{"none", "SetError, version unchanged", "SetError, version advanced", "rejected store operation", "pre-commit action fails", "none"}

func c07MigCase(c *core.Ctx, idx int) {
	r := c.Rand()
	def := &schema.StoreDef{Type: "boxes", BasePath: []string{"stores"}, Fields: []schema.Field{{Name: "label", Kind: schema.KStr}},
		Unique: []schema.UniqueDef{{Field: "label", Nullable: true}}}
	sc := schema.Build([]*schema.StoreDef{def})
	path := c.TempFile("c07m")
	db, err := sc.OpenDb(path)
	if err != nil {
		c.Violation("C07 setup", err.Error(), nil)
		return
	}
	defer func() {
		_ = db.Close()
		_ = os.Remove(path)
		// Migrate snapshots the database next to it before migrating from a recorded version
		if snaps, _ := filepath.Glob(path + "-*"); len(snaps) > 0 {
			for _, s := range snaps {
				_ = os.Remove(s)
			}
		}
	}()
	st := sc.St("boxes")
	mm := boltz.NewMigratorManager(db)
	var commitActs atomic.Int64
	version := 0 // the version the database is at according to the harness
	for round := 0; round < 3; round++ {
		steps := 1 + r.Intn(4)
		target := version + steps
		failKind := c07MigFailKinds[(idx+round*5)%len(c07MigFailKinds)]
		failAt := version + r.Intn(steps) // the step migrating from this version fails
		var before *dump.Dump
		_ = db.View(func(tx *bbolt.Tx) error { before = dump.Tx(tx); return nil })
		actsBefore := commitActs.Load()
		var called []int
		stepErr := errors.New("step failed")
		migrator := func(step *boltz.MigrationStep) int {
			v := step.CurrentVersion
			called = append(called, v)
			step.Ctx.AddCommitAction(func() { commitActs.Add(1) })
			id := fmt.Sprintf("m%d", v)
			if err := st.Store.Create(step.Ctx, &schema.Ent{Id: id, Typ: "boxes", V: map[string]any{"label": "l-" + id}}); err != nil {
				step.SetError(err)
				return v
			}
			if v == failAt {
				switch failKind {
				case "SetError, version unchanged":
					step.SetError(stepErr)
					return v
				case "SetError, version advanced":
					step.SetError(stepErr)
					return v + 1
				case "rejected store operation":
					// the label is taken by the entity this step just created
					if err := st.Store.Create(step.Ctx, &schema.Ent{Id: id + "-dup", Typ: "boxes", V: map[string]any{"label": "l-" + id}}); err != nil {
						step.SetError(err)
						return v
					}
				case "pre-commit action fails":
					step.Ctx.AddPreCommitAction(func(boltz.MutateContext) error { return stepErr })
				}
			}
			return v + 1
		}
		done := make(chan error, 1)
		go func() { done <- mm.Migrate("comp", target, migrator) }()
		var migErr error
		select {
		case migErr = <-done:
		case <-time.After(60 * time.Second):
			// a migrator which reports an error and is called again and again never returns; the goroutine is left behind
			c.Violationf("C07 migration: Migrate did not return within 60 s ("+failKind+")", map[string]any{"round": round, "from": version, "target": target, "fail_at": failAt}, "steps called so far: %d", len(called))
			return
		}
		c.Eval()
		// commit actions run asynchronously after the commit
		if migErr == nil {
			for i := 0; i < 200 && commitActs.Load() < actsBefore+int64(len(called)); i++ {
				time.Sleep(time.Millisecond)
			}
		} else {
			time.Sleep(2 * time.Millisecond)
		}
		var after *dump.Dump
		_ = db.View(func(tx *bbolt.Tx) error { after = dump.Tx(tx); return nil })
		info := map[string]any{"round": round, "from": version, "target": target, "failure": failKind, "fail_at": failAt, "called": fmt.Sprint(called), "error": fmt.Sprint(migErr)}
		c.Cover("migration_failure", failKind)
		c.Nontrivial("c07mig", failKind, failAt-version, steps, round)
		recorded, verr := mm.GetComponentVersion("comp")
		if verr != nil {
			c.Violationf("C07 migration: GetComponentVersion failed", info, "%v", verr)
			return
		}
		if failKind != "none" {
			c.Count("migrations_with_a_failing_step", 1)
			if migErr == nil {
				c.Violationf("C07 migration: a step failed ("+failKind+") but Migrate reported success", info, "recorded version %d, commit actions run %d", recorded, commitActs.Load()-actsBefore)
			}
			if after.Hash() != before.Hash() {
				c.Violationf("C07 migration: a failed migration ("+failKind+") changed the database", info, "diff: %v", dump.Diff(before, after, nil, 4))
			}
			if n := commitActs.Load() - actsBefore; n != 0 {
				c.Violationf("C07 migration: commit actions ran for a failed migration ("+failKind+")", info, "%d commit actions", n)
			}
			if recorded != version {
				c.Violationf("C07 migration: recorded version moved by a failed migration ("+failKind+")", info, "recorded %d, was %d", recorded, version)
			}
			if migErr == nil {
				return // the harness no longer knows the state
			}
			continue
		}
		c.Count("migrations_completed", 1)
		if migErr != nil {
			c.Violationf("C07 migration: a migration without a failing step was refused", info, "%v", migErr)
			return
		}
		if recorded != target {
			c.Violationf("C07 migration: recorded version differs from the target after a successful migration", info, "recorded %d", recorded)
		}
		if len(called) != steps {
			c.Violationf("C07 migration: wrong number of steps ran", info, "%d steps for %d versions", len(called), steps)
		}
		for i, v := range called {
			if v != version+i {
				c.Violationf("C07 migration: steps ran out of order", info, "step %d saw version %d", i, v)
				break
			}
		}
		if n := commitActs.Load() - actsBefore; n != int64(len(called)) {
			c.Violationf("C07 migration: commit actions of a successful migration", info, "%d ran, %d registered", n, len(called))
		}
		_ = db.View(func(tx *bbolt.Tx) error {
			for v := version; v < target; v++ {
				if !st.Store.IsEntityPresent(tx, fmt.Sprintf("m%d", v)) {
					c.Violationf("C07 migration: a step's write is missing after a successful migration", info, "entity m%d", v)
				}
			}
			return nil
		})
		version = target
	}
}
