package props

import (
	"github.com/openziti/storage/boltz"
	"verif/harness/internal/core"
	"verif/harness/internal/kmodel"
	"verif/harness/internal/schema"
)

// C05 part (a): bounded-exhaustive SetLinks. Universe: 4 existing targets + 1 missing id.
// A case = (side, current subset); it enumerates all (or a seeded sample of) requested lists of length <= 4.
var c05Targets = map[string][]string{
	kmodel.Emps:  {"d1", "D1", `d"q`, "null"}, // targets of emps.watching (depts)
	kmodel.Depts: {"e1", "E1", `e"q`, "or"},   // targets of depts.watchers (emps)
}
var c05Missing = map[string]string{kmodel.Emps: "true", kmodel.Depts: "é3"}

func c05Lists() [][]int { // all index lists of length 0..4 over 5 symbols (4 = missing)
	var out [][]int
	var rec func(cur []int)
	rec = func(cur []int) {
		out = append(out, append([]int{}, cur...))
		if len(cur) == 4 {
			return
		}
		for s := 0; s < 5; s++ {
			rec(append(cur, s))
		}
	}
	rec(nil)
	return out
}

const c05SetCases = 32 // 2 sides x 16 current subsets

func init() {
	lists := c05Lists() // 781
	core.Register(&core.Property{
		ID:    "C05",
		Level: "exploration",
		Rule: "(a) SetLinks over every (current subset of a 4-element universe, requested list of length <= 4 over the universe plus one missing id, duplicates and every order) from both sides " +
			"(thorough: all 2 x 16 x 781 pairs, quick: a seeded sample of 60 lists per current subset); (b) random histories of AddLinks/AddLink/RemoveLinks/RemoveLink/SetLinks/" +
			"IncrementLinkCount/DecrementLinkCount/SetLinkCount and entity deletes; model predicts outcome and return values; structural monitor compares both sides raw and via the API after every transaction; " +
			"(c) the same operations, one per transaction, over entities whose ids are 32766-32768 bytes long (legal ids that cannot be written as list keys on one side), judged without a model: an operation that returned an error changed nothing (whole-file dump), " +
			"after every commit each plain link is on both sides or on neither, both sides of a ref-counted link hold the same positive count, no link names a missing entity, and an operation that reported success had its effect on the issuing side; " +
			"Part (d): links written by the entity strategy (SetLinkedIds) on create and update of a host, the requested list with repeats and in any order (also as long as the current set and made of linked ids only): the link set is exactly the requested set, mirrored on the other side. " +
			"non-trivial = distinct (side, current set, requested list) pairs with a non-empty symmetric difference or a missing target, plus distinct history op tuples",
		Assumptions: []string{"counts that are no counts (negative, beyond int32) must never be stored; the model-based histories use counts 0-3"},
		Exhaustive:  func(t core.Tier) bool { return t == core.Thorough },
		Plan: func(tier core.Tier, seed int64) int {
			if tier == core.Thorough {
				return c05SetCases + c05EdgeCases*20 + 60000 + c05LinkedCases*20 + c06SymCases*4
			}
			return c05SetCases + c05EdgeCases + 480 + c05LinkedCases + c06SymCases/2
		},
		Run: func(c *core.Ctx, idx int) {
			r := c.Rand()
			nEdge := c05EdgeCases
			if c.Tier == core.Thorough {
				nEdge *= 20
			}
			if nHist := map[bool]int{false: 480, true: 60000}[c.Tier == core.Thorough]; idx >= c05SetCases+nEdge+nHist {
				nLinked := c05LinkedCases
				if c.Tier == core.Thorough {
					nLinked *= 20
				}
				if idx >= c05SetCases+nEdge+nHist+nLinked {
					// link collections inside one store (one symbol on both sides, or two fields of the store)
					c06Symmetric(c, idx-c05SetCases-nEdge-nHist-nLinked)
					return
				}
				c05Linked(c, idx-c05SetCases-nEdge-nHist)
				return
			}
			if idx >= c05SetCases && idx < c05SetCases+nEdge {
				c05Edge(c, idx-c05SetCases)
				return
			}
			if idx >= c05SetCases {
				cfg := kmodel.AllConfigs[idx%len(kmodel.AllConfigs)]
				w := map[string]int{"create": 8, "delete": 4, "update": 1, "addlinks": 5, "addlink": 3, "removelinks": 4, "removelink": 3, "setlinks": 6, "rcinc": 6, "rcdec": 5, "rcset": 4}
				// every third history lets the two stores share id strings (an employee and a department with the same id)
				var setup func(e *kmodel.Engine)
				if idx%3 == 2 {
					setup = sharedIds
					c.Cover("id_universe", "shared-between-stores")
				}
				runHistory(c, r, histOpts{Prefix: "C05", Cfg: cfg, NTx: 40, MaxOps: 4, Hostile: true, Weights: w, Setup: setup})
				return
			}
			side := kmodel.Emps
			if idx >= 16 {
				side = kmodel.Depts
			}
			cur := idx % 16
			cfg := kmodel.Config{DeptFK: schema.FkIndexNullable, BossCascade: boltz.CascadeNone, BossNullable: true}
			e, err := kmodel.NewEngine(c, cfg)
			if err != nil {
				c.Violation("C05 setup", err.Error(), nil)
				return
			}
			defer e.Close()
			// population: the source entity plus the 4 targets
			src := "e1"
			var setup []kmodel.Op
			if side == kmodel.Emps {
				for _, d := range c05Targets[side] {
					setup = append(setup, kmodel.Op{Kind: "create", Store: kmodel.Depts, Id: d, V: map[string]any{"name": nil}})
				}
				setup = append(setup, kmodel.Op{Kind: "create", Store: kmodel.Emps, Id: src, V: map[string]any{"name": "n1", "title": "t1"}})
			} else {
				src = "d1"
				setup = append(setup, kmodel.Op{Kind: "create", Store: kmodel.Depts, Id: src, V: map[string]any{"name": nil}})
				for i, em := range c05Targets[side] {
					setup = append(setup, kmodel.Op{Kind: "create", Store: kmodel.Emps, Id: em, V: map[string]any{"name": kmodel.NamePool[i], "title": "t1"}})
				}
			}
			if res := e.RunTx(setup, "C05 setup"); !res.Committed {
				c.Violationf("C05 setup transaction failed", nil, "%v", res.Err)
				return
			}
			var current []string
			for b := 0; b < 4; b++ {
				if cur&(1<<b) != 0 {
					current = append(current, c05Targets[side][b])
				}
			}
			sel := lists
			if c.Tier != core.Thorough {
				sel = nil
				for _, j := range r.Perm(len(lists))[:60] {
					sel = append(sel, lists[j])
				}
			}
			for _, l := range sel {
				var req []string
				missing := false
				for _, s := range l {
					if s == 4 {
						req = append(req, c05Missing[side])
						missing = true
					} else {
						req = append(req, c05Targets[side][s])
					}
				}
				if req == nil {
					req = []string{}
				}
				e.RunTx([]kmodel.Op{{Kind: "setlinks", Store: side, Id: src, Others: append([]string{}, current...)}}, "C05 reset")
				res := e.RunTx([]kmodel.Op{{Kind: "setlinks", Store: side, Id: src, Others: req}}, "C05 setlinks")
				info := map[string]any{"side": side, "current": current, "requested": req}
				e.Check("C05 setlinks", info)
				c.Count("setlinks_pairs", 1)
				if missing {
					c.Cover("setlinks", "missing-target")
					if res.Committed {
						// reported by RunTx already (expected notfound) unless the missing id was shadowed
					}
				}
				diff := !sameStrSet(current, req)
				if diff || missing {
					c.Nontrivial(side, cur, l)
				}
				if len(req) != len(kmodel.NormSet(req)) {
					c.Cover("setlinks", "duplicates")
				}
				if c.WantSample() && diff {
					c.Sample(info)
				}
			}
		},
		Promises: func(core.Tier) map[string][]string {
			return map[string][]string{
				"setlinks":   {"missing-target", "duplicates"},
				"edge_op":    {"addlinks:ok", "addlinks:error", "addlink:error", "setlinks:error", "rcinc:ok", "rcinc:error", "rcset:error", "removelinks:ok"},
				"op_outcome": {"setlinks:ok", "setlinks:notfound", "addlinks:ok", "addlinks:notfound", "removelinks:ok", "rcinc:ok", "rcdec:ok", "rcset:ok", "rcinc:notfound", "delete:ok"},
			}
		},
	})
}

func sameStrSet(a, b []string) bool {
	x, y := kmodel.NormSet(a), kmodel.NormSet(b)
	if len(x) != len(y) {
		return false
	}
	for i := range x {
		if x[i] != y[i] {
			return false
		}
	}
	return true
}
