package props

import (
	"errors"
	"fmt"
	"os"
	"sort"
	"sync"
	"sync/atomic"
	"time"

	"github.com/openziti/storage/ast"
	"github.com/openziti/storage/boltz"
	"github.com/openziti/storage/zitiql"
	"go.etcd.io/bbolt"
	"verif/harness/internal/core"
)

func init() {
	core.Register(&core.Property{
		ID:    "C18",
		Race:  true,
		Level: "exploration",
		Rule: "race-detector build. 8 reader goroutines each run read transactions that parse and run queries (scalar, set, map, dotted), IterateIds, unique / set index reads and link reads, against 2 writers committing multi-operation transactions that rewrite the whole database into a self-certifying stamped state(g); " +
			"every read transaction must observe exactly one generation in full (entities, index entries, links, query results). In parallel goroutines hammer ast.Parse on identical and distinct strings incl. invalid ones (parser / lexer pools, error listeners), Store.GetSymbol for plain, set, dotted and map names on one shared store, " +
			"and IsErrNotFoundErr / IsReferenceExistsError / IsUniqueIndexDuplicateError on matching and non-matching errors (results checked). zitiql.ParseWithDebug with the debug switch on and off on valid and invalid sentences (a non-debug parse of a valid sentence has no errors, an invalid one has errors); the readers start with a rendezvous right in front of their first read transactions, which begin with a >5-field sort and first use of new symbol names, and ask two IteratorMatchingAnyOf providers shared by all goroutines and transactions (membership swaps with every generation). Any race-detector report whose racing access is in openziti/storage or antlr is a violation. " +
			"non-trivial = distinct generations observed by read transactions that spanned at least one commit",
		Assumptions: []string{"interleavings are sampled, not enumerated; compiled queries are not shared between goroutines (not claimed)", "a race report whose racing accesses are both in the harness makes the run inconclusive"},
		MaxWorkers:  4,
		Plan: func(tier core.Tier, seed int64) int {
			if tier == core.Thorough {
				return 40
			}
			return 6
		},
		Run: runC18,
		MinCounters: func(core.Tier) map[string]int64 {
			return map[string]int64{"read_tx": 2000, "read_tx_spanning_a_commit": 50, "concurrent_parses": 5000, "helper_calls": 20000}
		},
		WorkerTimeoutS: func(t core.Tier) int { return 1800 },
	})
}

// alphaName spells n with letters only (identifiers of the filter language have no digits).
func alphaName(n int) string {
	s := ""
	for {
		s = string(rune('a'+n%26)) + s
		n = n/26 - 1
		if n < 0 {
			return s
		}
	}
}

func runC18(c *core.Ctx, idx int) {
	path := c.TempFile("c18")
	s, err := openStamp(path)
	if err != nil {
		c.Violation("C18 setup", err.Error(), nil)
		return
	}
	defer func() { _ = s.db.Close(); _ = os.Remove(path) }()
	if err := s.writeState(s.gen.Add(1)); err != nil {
		c.Violationf("C18 initial write failed", nil, "%v", err)
		return
	}
	var stop atomic.Bool
	var wg sync.WaitGroup
	nWrites := 400
	if c.Tier != core.Thorough {
		nWrites = 220
	}
	// writers
	for w := 0; w < 2; w++ {
		wg.Add(1)
		go func() {
			defer wg.Done()
			for i := 0; i < nWrites && !stop.Load(); i++ {
				g := s.gen.Add(1)
				if err := s.writeState(g); err != nil {
					c.Violationf("C18 writer transaction failed", nil, "generation %d: %v", g, err)
					return
				}
				s.commits.Add(1)
			}
		}()
	}
	// readers
	var rwg sync.WaitGroup
	var firstTouch sync.WaitGroup
	firstTouch.Add(8)
	for rd := 0; rd < 8; rd++ {
		rwg.Add(1)
		go func(rd int) {
			defer rwg.Done()
			// first touch: whatever a store sets up lazily on its read path (per sort shape, per symbol name) is reached by
			// all readers at the same moment, each in its own read transaction
			// (the rendezvous is in front of the transactions: a reader waiting for another one INSIDE its transaction would
			// deadlock with a writer that has to grow the memory map - it waits for the open read transaction and keeps new
			// ones from starting)
			firstTouch.Done()
			firstTouch.Wait()
			_ = s.db.View(func(tx *bbolt.Tx) error {
				for _, q := range []string{"sort by gen, name desc, hub, gen desc, name, id, hub desc", `attrs.first.touch = "x" sort by name, gen, hub, id, name desc, gen desc`, `anyOf(hubs.gen) = 1 or meta.firsttouch = 2`, "skip 1 limit 2"} {
					if _, _, err := s.sc.St("cells").Store.QueryIds(tx, q); err != nil {
						c.Violationf("C18 first concurrent use of a query shape failed", q, "%v", err)
					}
				}
				c.Count("first_touch_rendezvous", 1)
				return nil
			})
			n := 0
			for !stop.Load() {
				before := s.commits.Load()
				var g int64
				var bad []string
				_ = s.db.View(func(tx *bbolt.Tx) error {
					g, bad = s.verifyTx(tx, n%2 == 0)
					return nil
				})
				after := s.commits.Load()
				n++
				c.Eval()
				c.Count("read_tx", 1)
				if after > before {
					c.Count("read_tx_spanning_a_commit", 1)
					c.Nontrivial("gen", g)
				}
				c.Cover("observed", fmt.Sprintf("generation-mod-7=%d", g%7))
				for _, b := range bad {
					c.Violationf("C18 read transaction saw a mixture of committed states: "+firstWords(b), map[string]any{"reader": rd, "generation": g, "commits_before": before, "commits_after": after}, "%s", b)
				}
			}
		}(rd)
	}
	// parser hammer
	cells := s.sc.St("cells")
	// queries without a predicate, parsed while other goroutines parse rejected text: they must keep matching every cell
	for p := 0; p < 2; p++ {
		rwg.Add(1)
		go func(p int) {
			defer rwg.Done()
			bare := []string{"limit 100", "skip 0", "sort by name", "sort by gen desc limit 50"}
			for i := 0; !stop.Load(); i++ {
				text := bare[(i+p)%len(bare)]
				q, err := ast.Parse(cells.Store, text)
				c.Count("concurrent_parses", 1)
				if err != nil {
					c.Violationf("C18 concurrent parse gave the wrong verdict", text, "query %q: %v", text, err)
					continue
				}
				_ = s.db.View(func(tx *bbolt.Tx) error {
					ids, _, err := cells.Store.QueryIdsC(tx, q)
					if err != nil || len(ids) != stampCells {
						c.Violationf("C18 predicate-less query picked up a filter under concurrency", text, "query %q returned %d of %d cells (err=%v; parsed as %s)", text, len(ids), stampCells, err, q.String())
					}
					return nil
				})
			}
		}(p)
	}
	queries := []string{`gen = 1`, `name = "x" and anyOf(roles) = "all"`, `meta.tag != "t" or hub.gen > 3 sort by name desc skip 1 limit 2`, `anyOf(hubs.gen) in [1, 2, 3]`,
		`isEmpty(from hubs where gen > 1)`, `gen between 1 and 5`, `name icontains "NAME"`, `gen = `, `name = "x" §`, `(gen = 1`, `zz = 1`, `not (gen = 1) and name != null`}
	for p := 0; p < 4; p++ {
		rwg.Add(1)
		go func(p int) {
			defer rwg.Done()
			for i := 0; !stop.Load(); i++ {
				q := queries[(i+p)%len(queries)]
				if p == 0 {
					q = queries[1] // identical string from several goroutines
				}
				if p == 1 {
					q = fmt.Sprintf(`gen = %d and name = "n%d"`, i, i)
				}
				parsed, err := ast.Parse(cells.Store, q)
				c.Count("concurrent_parses", 1)
				invalid := q == `gen = ` || q == `name = "x" §` || q == `(gen = 1` || q == `zz = 1`
				if (err != nil) != invalid {
					c.Violationf("C18 concurrent parse gave the wrong verdict", q, "query %q: err=%v, expected invalid=%v", q, err, invalid)
				}
				if err == nil && parsed != nil {
					_ = boltz.ValidateSymbolsArePublic(parsed, cells.Store)
				}
			}
		}(p)
	}
	// empty-filter pagers: each goroutine parses the empty filter, pages its own query object and runs it; a reader with
	// page size k must get exactly k ids (own paging, nobody else's)
	for p := 0; p < 3; p++ {
		rwg.Add(1)
		go func(p int) {
			defer rwg.Done()
			for i := 0; !stop.Load(); i++ {
				q, err := ast.Parse(cells.Store, "")
				if err != nil || q == nil {
					c.Violationf("C18 empty filter rejected", nil, "%v", err)
					return
				}
				limit, skip := int64(1+(i+p)%3), int64((i+p)%2)
				q.SetLimit(limit)
				q.SetSkip(skip)
				_ = s.db.View(func(tx *bbolt.Tx) error {
					ids, n, err := cells.Store.QueryIdsC(tx, q)
					c.Count("helper_calls", 1)
					want := limit
					if int64(stampCells)-skip < want {
						want = int64(stampCells) - skip
					}
					if err != nil || int64(len(ids)) != want || n != int64(stampCells) || (len(ids) > 0 && ids[0] != cellId(int(skip))) {
						c.Violationf("C18 paged empty-filter query returned another reader's page", map[string]any{"skip": skip, "limit": limit}, "skip %d limit %d: ids %q count %d err=%v", skip, limit, ids, n, err)
					}
					return nil
				})
			}
		}(p)
	}
	// validation of map-element names never seen before (symbol resolution + public-symbol lookup on the shared store)
	for p := 0; p < 2; p++ {
		rwg.Add(1)
		go func(p int) {
			defer rwg.Done()
			for i := 0; !stop.Load(); i++ {
				name := "meta.k" + alphaName(i*2+p)
				parsed, err := ast.Parse(cells.Store, name+` = "x" or `+name+`.sub != null`)
				c.Count("concurrent_parses", 1)
				if err != nil {
					c.Violationf("C18 concurrent parse gave the wrong verdict", name, "fresh map element %q: %v", name, err)
					continue
				}
				if verr := boltz.ValidateSymbolsArePublic(parsed, cells.Store); verr != nil {
					c.Violationf("C18 public-symbol validation under concurrency", name, "element %q of the public map rejected: %v", name, verr)
				}
			}
		}(p)
	}
	// GetSymbol hammer on the shared store
	names := []string{"gen", "name", "roles", "hub", "hubs", "hub.gen", "hubs.gen", "hubs.cells", "meta.tag", "meta.a.b", "nope", "id"}
	for p := 0; p < 2; p++ {
		rwg.Add(1)
		go func() {
			defer rwg.Done()
			for i := 0; !stop.Load(); i++ {
				n := names[i%len(names)]
				sym := cells.Store.GetSymbol(n)
				c.Count("helper_calls", 1)
				if (sym == nil) != (n == "nope") {
					c.Violationf("C18 GetSymbol under concurrency", n, "GetSymbol(%q) = %v", n, sym)
				}
				_, _ = cells.Store.GetSymbolType(n)
				_ = cells.Store.IsPublicSymbol(n)
			}
		}()
	}
	// error classification helpers
	nf := boltz.NewNotFoundError("cell", "id", "x")
	re := boltz.NewReferenceByIdError("hubs", "h0", "cells", "c0", "hub")
	du := &boltz.UniqueIndexDuplicateError{Field: "name", Value: "v", EntityType: "cells"}
	plain := errors.New("plain")
	wrapped := fmt.Errorf("wrapped: %w", re)
	for p := 0; p < 3; p++ {
		rwg.Add(1)
		go func(p int) {
			defer rwg.Done()
			for i := 0; !stop.Load(); i++ {
				errs := []error{nf, re, du, plain, wrapped, nil}
				e := errs[(i+p)%len(errs)]
				a, b, d := boltz.IsErrNotFoundErr(e), boltz.IsReferenceExistsError(e), boltz.IsUniqueIndexDuplicateError(e)
				c.Count("helper_calls", 3)
				wa, wb, wd := e == nf, e == re || e == wrapped, e == error(du)
				if a != wa || b != wb || d != wd {
					c.Violationf("C18 error classification helper gave the wrong answer under concurrency", fmt.Sprint(e), "error %v: notfound=%v refexists=%v dup=%v", e, a, b, d)
				}
			}
		}(p)
	}
	// the parser entry point itself, with and without its debug switch (a debug parse adds a diagnostic listener to the
	// pooled parser it borrowed): a valid sentence has no errors, an invalid one has its own errors and nobody else's
	for p := 0; p < 4; p++ {
		rwg.Add(1)
		go func(p int) {
			defer rwg.Done()
			valid := []string{`a = 1`, `a = 1 and b != "x"`, `anyOf(s) = "v" sort by a limit 3`, `not (a < 2)`}
			invalid := []string{`a = = 1`, `a = 1 and`, `a ~ 3`, `limit limit`}
			for i := 0; !stop.Load(); i++ {
				debug := (i+p)%2 == 0
				text, wantErr := valid[(i/2)%len(valid)], false
				if (i/3+p)%2 == 0 {
					text, wantErr = invalid[(i/2+p)%len(invalid)], true
				}
				errs := zitiql.ParseWithDebug(text, &zitiql.BaseZitiQlListener{}, debug)
				c.Count("helper_calls", 1)
				c.Count("raw_parses", 1)
				c.Cover("raw_parse", fmt.Sprintf("debug=%v invalid=%v", debug, wantErr))
				// in debug mode ANTLR's diagnostic listener hands its ambiguity reports to the error listeners as well, so
				// a valid sentence may come back with entries; only "an invalid sentence has errors" is judged there
				if (len(errs) != 0) != wantErr && (!debug || wantErr) {
					c.Violationf("C18 zitiql.ParseWithDebug gave another sentence's verdict under concurrency", map[string]any{"text": text, "debug": debug}, "%q debug=%v: %d errors %v", text, debug, len(errs), errs)
				}
				time.Sleep(50 * time.Microsecond)
			}
		}(p)
	}
	// the list of public symbols: every caller gets a list of its own (it may sort, filter or overwrite it)
	{
		cells := s.sc.St("cells")
		want := append([]string{}, cells.Store.GetPublicSymbols()...)
		sort.Strings(want)
		for p := 0; p < 3; p++ {
			rwg.Add(1)
			go func(p int) {
				defer rwg.Done()
				for i := 0; !stop.Load(); i++ {
					got := cells.Store.GetPublicSymbols()
					sorted := append([]string{}, got...)
					sort.Strings(sorted)
					c.Count("helper_calls", 1)
					c.Count("public_symbol_lists", 1)
					if fmt.Sprint(sorted) != fmt.Sprint(want) {
						c.Violationf("C18 GetPublicSymbols returned a list another caller has changed", map[string]any{"expected": want}, "got %q", got)
						return
					}
					// the caller's own business with its list
					for j := range got {
						got[j] = fmt.Sprintf("overwritten-by-%d", p)
					}
					if i%32 == 31 {
						time.Sleep(100 * time.Microsecond)
					}
				}
			}(p)
		}
	}
	// the literal converters the parser's listeners call for every literal: each goroutine converts literals of its own
	// and gets the value of the literal it passed, whatever the others are converting at that moment
	for p := 0; p < 4; p++ {
		rwg.Add(1)
		go func(p int) {
			defer rwg.Done()
			for n := 0; !stop.Load(); n++ {
				// the same literal a few times in a row (a polled list request), then the next one
				i := n / 4
				sec := (i*4 + p) % 60
				day := 1 + (i/7+p)%27
				lit := fmt.Sprintf("datetime(2021-03-%02dT10:%02d:%02dZ)", day, p, sec)
				if i%3 == 1 {
					lit = fmt.Sprintf("datetime( 2021-03-%02dt10:%02d:%02d+01:00 )", day, p, sec)
				}
				want := time.Date(2021, 3, day, 10, p, sec, 0, time.UTC)
				if i%3 == 1 {
					want = want.Add(-time.Hour)
				}
				got, err := zitiql.ParseZqlDatetime(lit)
				c.Count("helper_calls", 1)
				c.Count("literal_conversions", 1)
				if err != nil || !got.Equal(want) {
					c.Violationf("C18 zitiql.ParseZqlDatetime returned another literal's value under concurrency", map[string]any{"literal": lit}, "%q -> %v (err %v), expected %v", lit, got, err, want)
				}
				str := fmt.Sprintf(`"g%d \"q\" i%d"`, p, i)
				if got, want := zitiql.ParseZqlString(str), fmt.Sprintf(`g%d "q" i%d`, p, i); got != want {
					c.Violationf("C18 zitiql.ParseZqlString returned another literal's value under concurrency", map[string]any{"literal": str}, "%s -> %q, expected %q", str, got, want)
				}
				c.Count("literal_conversions", 1)
				if n%256 == 255 {
					time.Sleep(50 * time.Microsecond)
				}
			}
		}(p)
	}
	wg.Wait()
	time.Sleep(20 * time.Millisecond)
	stop.Store(true)
	rwg.Wait()
	if c.WantSample() {
		c.Sample(map[string]any{"writers": 2, "readers": 8, "commits": s.commits.Load(), "last_generation": s.gen.Load()})
	}
}
