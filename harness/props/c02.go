package props

import (
	"fmt"
	"math"
	"strings"

	"github.com/openziti/storage/ast"
	"go.etcd.io/bbolt"
	"sort"
	"verif/harness/internal/core"
	"verif/harness/internal/qx"
)

func i64p(v int64) *int64 { return &v }

// c02Grid returns the skip x limit boundary grid for n matching rows.
func c02Grid(n int64) (skips []*int64, limits []struct {
	v    *int64
	none bool
}) {
	skips = []*int64{nil, i64p(0), i64p(1), i64p(n - 1), i64p(n), i64p(n + 1), i64p(-1), i64p(-5), i64p(1 << 62), i64p(math.MaxInt64)}
	for _, l := range []*int64{nil, nil, i64p(0), i64p(1), i64p(n - 1), i64p(n), i64p(n + 1), i64p(-1), i64p(-7), i64p(math.MaxInt64), i64p(math.MaxInt64 - 1)} { // the last one: a finite limit which skip + limit still overflows with
		limits = append(limits, struct {
			v    *int64
			none bool
		}{v: l})
	}
	limits[1].none = true
	return
}

func pstr(p *int64) string {
	if p == nil {
		return "absent"
	}
	return fmt.Sprint(*p)
}

func init() {
	core.Register(&core.Property{
		ID:    "C02",
		Level: "exploration",
		Rule: "datasets with shrunken value pools (ties, null sort keys next to empty-string sort keys) x shallow filters x sort specifications of 0-5 fields over every sortable type (string, int32, int64, float, bool, datetime, path-prefixed, fk, id; asc / desc / implicit; id first or later, which switches the index scanner and the sorting scanner) " +
			"x the complete 10 x 10 boundary grid skip in {absent, 0, 1, n-1, n, n+1, -1, -5, 2^62, 2^63-1} x limit in {absent, none, 0, 1, n-1, n, n+1, -1, -7, 2^63-1}. " +
			"The returned id sequence and count are compared with a sort/page oracle (nulls first ascending, ties by id ascending, max(skip,0), negative/none/absent limit unbounded, count = total matches) through QueryIds (text), and on a quarter of the grid QueryIdsC, QueryWithCursorC and a paged IterateIds (default order). " +
			"non-trivial = distinct (sort, skip, limit, dataset) whose page is a proper non-empty sub-sequence or a boundary point",
		Assumptions: []string{"NaN sort keys are not generated (no total order)"},
		Exhaustive:  func(core.Tier) bool { return false },
		Plan: func(tier core.Tier, seed int64) int {
			if tier == core.Thorough {
				return 12000
			}
			return 64
		},
		Run: runC02,
		Promises: func(core.Tier) map[string][]string {
			return map[string][]string{"scanner": {"index-forward", "index-reverse", "sorting"}, "path": {"QueryIds", "QueryIdsC", "QueryWithCursorC", "IterateIds(paged)"},
				"sort_type": {"s", "ism", "ibig", "flt", "b", "t", "grp", "owner", "id"}}
		},
		MinCounters: func(core.Tier) map[string]int64 {
			return map[string]int64{"pages_compared": 20000, "sorts_with_null_keys": 20, "sorts_with_ties": 20}
		},
	})
}

func runC02(c *core.Ctx, idx int) {
	r := c.Rand()
	env, err := newQEnv(c, r, 12, true)
	if err != nil {
		c.Violation("C02 setup", err.Error(), nil)
		return
	}
	defer env.close()
	st := env.sc.St(qx.Things)
	g := &qx.Gen{R: r, W: env.w, Store: qx.Things}
	wd := worldDigest(env.w)
	_ = env.db.View(func(tx *bbolt.Tx) error {
		for fi := 0; fi < 2; fi++ {
			var pred qx.Expr
			if fi > 0 {
				pred = g.Expr(r.Intn(2))
			}
			match, judged, _ := env.w.Match(pred, qx.Things)
			if !judged {
				continue
			}
			n := int64(len(match))
			var prevSort []qx.SortF
			for si := 0; si < 5; si++ {
				var sortSpec []qx.SortF
				switch si {
				case 0: // default order
				case 1:
					sortSpec = []qx.SortF{{Sym: "id", Desc: true, Dir: "desc"}}
					if r.Bool() {
						sortSpec = append(sortSpec, g.Sort(2)...)
					}
				case 2: // exactly five fields over the two symbols with the fewest distinct values: rows that tie on all five
					for i := 0; i < 5; i++ {
						f := qx.SortF{Sym: core.Pick(r, []string{"b", "grp"})}
						if r.Bool() {
							f.Dir, f.Desc = "desc", true
						}
						sortSpec = append(sortSpec, f)
					}
					c.Count("five_field_sorts_over_tie_heavy_symbols", 1)
				case 4: // the previous symbols with every direction flipped (same store instance)
					for _, f := range prevSort {
						f.Desc = !f.Desc
						f.Dir = map[bool]string{true: "desc", false: core.Pick(r, []string{"", "asc"})}[f.Desc]
						sortSpec = append(sortSpec, f)
					}
				default:
					sortSpec = g.Sort(5)
					prevSort = sortSpec
				}
				scanner := "sorting"
				if len(sortSpec) == 0 || sortSpec[0].Sym == "id" {
					scanner = "index-forward"
					if len(sortSpec) > 0 && sortSpec[0].Desc {
						scanner = "index-reverse"
					}
				}
				c.Cover("scanner", scanner)
				if si == 0 && fi == 0 {
					// a caller pages through everything with the parsed empty filter (skip / limit set on the parsed query);
					// the next caller who asks with the empty filter gets everything, not that page
					if pq, perr := ast.Parse(st.Store, ""); perr == nil {
						pq.SetSkip(1)
						pq.SetLimit(1)
						page, _, err := st.Store.QueryIdsC(tx, pq)
						all, count, err2 := st.Store.QueryIds(tx, "")
						c.Eval()
						c.Cover("path", "empty filter after a paged empty filter")
						wantAll, _ := env.w.Page(qx.Things, match, &qx.Query{})
						if err != nil || err2 != nil || !sameIds(all, wantAll) || count != int64(len(wantAll)) || len(page) > 1 {
							c.Violationf("C02 the empty filter answers with another caller's page", map[string]any{"world": describeWorld(env.w)}, "paged empty filter returned %q (err %v); the empty filter afterwards returned %q count %d (err %v), oracle %q", page, err, all, count, err2, wantAll)
						}
					}
				}
				nullKeys, ties := false, false
				seen := map[string]bool{}
				for _, f := range sortSpec {
					c.Cover("sort_type", f.Sym)
				}
				if len(sortSpec) > 0 && sortSpec[0].Sym != "id" {
					for _, id := range match {
						v := env.w.Rows[qx.Things][id].V[sortSpec[0].Sym]
						if v == nil {
							nullKeys = true
						}
						k := fmt.Sprint(v)
						if seen[k] {
							ties = true
						}
						seen[k] = true
					}
				}
				if nullKeys {
					c.Count("sorts_with_null_keys", 1)
				}
				if ties {
					c.Count("sorts_with_ties", 1)
				}
				skips, limits := c02Grid(n)
				for _, sk := range skips {
					for _, lm := range limits {
						q := &qx.Query{Pred: pred, Sort: sortSpec, Skip: sk, Limit: lm.v, LimitNone: lm.none}
						text := q.Stream().Canon()
						wantIds, wantCount := env.w.Page(qx.Things, match, q)
						info := map[string]any{"query": text, "world": describeWorld(env.w), "matching": n}
						gridKey := fmt.Sprintf("scanner=%s skip=%s limit=%s", scanner, skipClass(sk, n), limitClass(lm.v, lm.none, n))
						cmp := func(path string, ids []string, count int64, err error, checkCount bool) {
							c.Eval()
							c.Count("pages_compared", 1)
							c.Cover("path", path)
							if err != nil {
								c.Violationf("C02 query rejected ("+path+"): "+gridKey, info, "query %q: %v", text, err)
								return
							}
							if !sameIds(ids, wantIds) {
								c.Violationf("C02 wrong page ("+path+"): "+gridKey, info, "query %q (n=%d): engine %q, oracle %q", text, n, ids, wantIds)
							} else if checkCount && count != wantCount {
								c.Violationf("C02 wrong count ("+path+"): "+gridKey, info, "query %q: count %d, oracle %d", text, count, wantCount)
							}
						}
						ids, count, err := st.Store.QueryIds(tx, text)
						cmp("QueryIds", ids, count, err, true)
						if r.P(0.25) {
							if pq, perr := ast.Parse(st.Store, text); perr == nil {
								ids, count, err := st.Store.QueryIdsC(tx, pq)
								cmp("QueryIdsC", ids, count, err, true)
								// the parsed query, already run once, takes over the sort clause of another query and is run again
								if len(sortSpec) > 0 && r.P(0.5) {
									var other []qx.SortF
									for _, f := range sortSpec {
										f.Desc = !f.Desc
										f.Dir = map[bool]string{true: "desc", false: "asc"}[f.Desc]
										other = append(other, f)
									}
									oq := &qx.Query{Sort: other}
									if opq, operr := ast.Parse(st.Store, oq.Stream().Canon()); operr == nil && pq.AdoptSortFields(opq) == nil {
										aq := &qx.Query{Pred: pred, Sort: other, Skip: sk, Limit: lm.v, LimitNone: lm.none}
										aIds, aCount := env.w.Page(qx.Things, match, aq)
										ids, count, err := st.Store.QueryIdsC(tx, pq)
										c.Eval()
										c.Cover("path", "QueryIdsC after AdoptSortFields")
										if err != nil || !sameIds(ids, aIds) || count != aCount {
											c.Violationf("C02 wrong page (QueryIdsC after AdoptSortFields): "+gridKey, map[string]any{"query": text, "adopted_sort": sortText(other), "world": describeWorld(env.w)},
												"query %q run once, then given the sort %q: engine %q count %d err=%v, oracle %q count %d", text, sortText(other), ids, count, err, aIds, aCount)
										}
									}
								}
							}
							if pq, perr := ast.Parse(st.Store, text); perr == nil {
								ids, count, err := st.Store.QueryWithCursorC(tx, st.Store.GetEntitiesBucket(tx).OpenCursor, pq)
								cmp("QueryWithCursorC", ids, count, err, true)
							}
							if len(sortSpec) == 0 {
								if pq, perr := ast.Parse(st.Store, text); perr == nil {
									cmp("IterateIds(paged)", idsOf(st.Store.IterateIds(tx, pq)), 0, nil, false)
								}
							}
							// an index-driven cursor provider over one to three values of the set index: the page of the matching
							// entities that hold one of them (every sort, both directions of the id scan)
							if pq, perr := ast.Parse(st.Store, text); perr == nil {
								vals := c02NumVals(r, env.w)
								var sub []string
								for _, id := range match {
									nums, _ := env.w.Rows[qx.Things][id].V["nums"].([]string)
									hit := false
									for _, x := range nums {
										for _, v := range vals {
											if x == v {
												hit = true
											}
										}
									}
									if hit {
										sub = append(sub, id)
									}
								}
								subIds, subCount := env.w.Page(qx.Things, sub, q)
								ids, count, err := st.Store.QueryWithCursorC(tx, st.Store.IteratorMatchingAnyOf(st.SetIdx["nums"], vals), pq)
								c.Eval()
								c.Cover("path", "QueryWithCursorC(IteratorMatchingAnyOf)")
								if err != nil || !sameIds(ids, subIds) || count != subCount {
									c.Violationf("C02 wrong page (QueryWithCursorC(IteratorMatchingAnyOf)): "+gridKey, map[string]any{"query": text, "index_values": vals, "world": describeWorld(env.w)},
										"query %q over nums in %q: engine %q count %d err=%v, oracle %q count %d", text, vals, ids, count, err, subIds, subCount)
								}
							}
						}
						proper := len(wantIds) > 0 && int64(len(wantIds)) < n
						if proper || sk != nil || lm.v != nil {
							c.Nontrivial(sortText(sortSpec), pstr(sk), pstr(lm.v), lm.none, wd, fi)
						}
						if c.WantSample() && proper && len(sortSpec) > 1 {
							c.Sample(map[string]any{"query": text, "matching": n, "page": wantIds})
						}
					}
				}
			}
		}
		return nil
	})
}

// c02NumVals picks one to three values of the nums set index (values in use when there are any).
func c02NumVals(r *core.Rand, w *qx.World) []string {
	seen := map[string]bool{}
	var pool []string
	for _, id := range w.Ids(qx.Things) {
		nums, _ := w.Rows[qx.Things][id].V["nums"].([]string)
		for _, x := range nums {
			if x != "" && !seen[x] {
				seen[x] = true
				pool = append(pool, x)
			}
		}
	}
	sort.Strings(pool)
	pool = append(pool, "no-such-num")
	n := 1 + r.Intn(3) // one value: the index's own cursor; more: the merged set
	var out []string
	for i := 0; i < n; i++ {
		out = append(out, core.Pick(r, pool))
	}
	return out
}

func sortText(s []qx.SortF) string {
	var parts []string
	for _, f := range s {
		parts = append(parts, f.Sym+" "+f.Dir)
	}
	return strings.Join(parts, ",")
}

func skipClass(p *int64, n int64) string {
	switch {
	case p == nil:
		return "absent"
	case *p < 0:
		return "negative"
	case *p == 0:
		return "0"
	case *p >= 1<<62:
		return "huge"
	case *p >= n:
		return ">=n"
	}
	return "inside"
}

func limitClass(p *int64, none bool, n int64) string {
	switch {
	case none:
		return "none"
	case p == nil:
		return "absent"
	case *p < 0:
		return "negative"
	case *p == 0:
		return "0"
	case *p == math.MaxInt64:
		return "maxint64"
	case *p >= n:
		return ">=n"
	}
	return "inside"
}
