package props

import (
	"strings"

	"github.com/openziti/storage/boltz"
	"verif/harness/internal/core"
	"verif/harness/internal/dump"
	"verif/harness/internal/kmodel"
)

func init() {
	core.Register(&core.Property{
		ID:    "C06",
		Level: "exploration",
		Rule: "part (d) (two stores joined only by a ref-counted link collection) also gives each store a unique index over a non-string field (int64, datetime). Random histories over schema K combining unique/set/fk indexes, fk constraints, link and ref-counted link collections and plain + extended child stores; after every committed delete " +
			"(including every entity of its cascade closure) an independent scan of the whole bolt file looks for the id as key, type-tagged key, value or type-tagged value; with p=0.6 the id is re-created " +
			"and the structural monitor verifies it carries no inherited index entries, links, back references or child data; Part (b): one parent with two sibling child stores (own unique and set indexes; the second plain or extended), ids with data in one, the other or both, deleted through the parent or either child store, judged by the same whole-file scan without a model (and an operation that returned an error changed nothing). non-trivial = distinct (configuration, store, indexed?, referenced-from?, linked?, rc-linked?, child data kind) classes of deleted entities",
		Assumptions: []string{"ids are disjoint from every value pool, so a hit is a trace of the entity", "under CascadeCreateUpdate dangling boss references are declared behaviour and excluded"},
		Plan: func(tier core.Tier, seed int64) int {
			if tier == core.Thorough {
				return 48000 + c06SibCases*20 + 48*10 + c06RcCases*10 + c06SymCases*10 + c06BigCases*4 + c06ChildTargetCases*10
			}
			return 720 + c06SibCases + 48 + c06RcCases + c06SymCases + c06BigCases + c06ChildTargetCases
		},
		Run: func(c *core.Ctx, idx int) {
			nHist := 720
			if c.Tier == core.Thorough {
				nHist = 48000
			}
			nSib := c06SibCases
			if c.Tier == core.Thorough {
				nSib *= 20
			}
			nSelf := 48
			if c.Tier == core.Thorough {
				nSelf *= 10
			}
			nRc := c06RcCases
			if c.Tier == core.Thorough {
				nRc *= 10
			}
			nSym := c06SymCases
			if c.Tier == core.Thorough {
				nSym *= 10
			}
			nBig := c06BigCases
			if c.Tier == core.Thorough {
				nBig *= 4
			}
			if idx >= nHist+nSib+nSelf+nRc+nSym+nBig {
				c06ChildTarget(c, idx-nHist-nSib-nSelf-nRc-nSym-nBig)
				return
			}
			if idx >= nHist+nSib+nSelf+nRc+nSym {
				c06Big(c, idx-nHist-nSib-nSelf-nRc-nSym)
				return
			}
			if idx >= nHist+nSib+nSelf+nRc {
				c06Symmetric(c, idx-nHist-nSib-nSelf-nRc)
				return
			}
			if idx >= nHist+nSib+nSelf {
				c06RcOnly(c, idx-nHist-nSib-nSelf)
				return
			}
			if idx >= nHist+nSib {
				selfFkScenario(c, idx-nHist-nSib, "C06") // a store whose fk index points at itself
				return
			}
			if idx >= nHist {
				c06Siblings(c, idx-nHist)
				return
			}
			r := c.Rand()
			cfg := kmodel.AllConfigs[idx%len(kmodel.AllConfigs)]
			w := map[string]int{"create": 10, "update": 4, "patch": 4, "delete": 8, "deletewhere": 2, "addlinks": 4, "setlinks": 3, "removelinks": 1, "rcinc": 4, "rcdec": 1, "rcset": 1}
			var pre *kmodel.Model
			var setup func(e *kmodel.Engine)
			if idx%3 == 2 {
				setup = sharedIds
				c.Cover("id_universe", "shared-between-stores")
			}
			runHistory(c, r, histOpts{Prefix: "C06", FanIn: true, Cfg: cfg, NTx: 45, MaxOps: 3, Hostile: true, Weights: w, NeedDump: true, Setup: setup,
				AfterTx: func(e *kmodel.Engine, res *kmodel.TxResult, before, after *dump.Dump) {
					defer func() { pre = e.M.Clone() }()
					if !res.Committed || after == nil {
						return
					}
					deleted := map[string]bool{}
					for _, op := range res.Ops {
						if op.Kind == "delete" && op.Exp == kmodel.ExpOK {
							deleted[kmodel.RootOf(op.Store)+"\x00"+op.Id] = true
						}
					}
					if len(deleted) == 0 {
						return
					}
					// every entity that existed before the transaction and does not exist now was deleted (directly or by cascade)
					if pre == nil {
						return
					}
					for _, t := range []string{kmodel.Depts, kmodel.Emps} {
						for id, old := range pre.Ents[t] {
							if _, still := e.M.Ents[t][id]; still {
								continue
							}
							// re-created in the same transaction? then it legitimately exists
							// with shared id universes the same string may name a live entity of the other store: its own
							// bucket and the references to it are not traces (the structural monitor still judges them)
							other := kmodel.Depts
							if t == kmodel.Depts {
								other = kmodel.Emps
							}
							_, liveOther := e.M.Ents[other][id]
							_, wasOther := pre.Ents[other][id]
							if liveOther || wasOther {
								c.Count("scan_skipped_same_id_in_other_store", 1)
								continue
							}
							c.Eval()
							c.Count("deletes_scanned", 1)
							hits := after.FindId(id)
							var real []string
							for _, h := range hits {
								if cfg.BossCascade == boltz.CascadeCreateUpdate && t == kmodel.Emps && strings.Contains(h, `/"bs"`) {
									continue // declared: create/update-only fk does not police deletes
								}
								if cfg.BossCascade == boltz.CascadeCreateUpdate && t == kmodel.Depts && strings.Contains(h, `/"bs"`) && contains(e.EmpPool, id) {
									// shared id universes: the boss field only ever names employees - this is the (declared) dangling
									// reference to a former employee of the same id, not a trace of the department
									c.Count("scan_skipped_boss_reference_to_a_former_employee_of_the_same_id", 1)
									continue
								}
								real = append(real, h)
							}
							if len(real) > 0 {
								c.Violationf("C06 trace of deleted id: "+traceClass(real[0]), map[string]any{"cfg": cfg.String(), "tx": res.Ops, "id": id},
									"id %q (%s) still occurs after committed delete: %v", id, t, real)
							}
							indexed := old.V["name"] != nil && old.V["name"] != ""
							roles, _ := old.V["roles"].([]string)
							childKind := ""
							for k := range old.Child {
								childKind = k
							}
							refd := len(pre.EmpsWithDept(id)) > 0 || len(pre.EmpsWithBoss(id)) > 0
							linked := len(pre.LinksOf(t, id)) > 0
							rc := len(pre.CredOf(t, id)) > 0
							c.Nontrivial(cfg.String(), t, indexed, len(roles) > 0, refd, linked, rc, childKind)
							if linked {
								c.Cover("deleted_entity", "linked")
							}
							if rc {
								c.Cover("deleted_entity", "rc-linked")
							}
							if refd {
								c.Cover("deleted_entity", "referenced")
							}
							if childKind != "" {
								c.Cover("deleted_entity", "child:"+childKind)
							}
							if len(roles) > 0 {
								c.Cover("deleted_entity", "set-indexed")
							}
							// re-create and exercise
							if r.P(0.6) {
								var op kmodel.Op
								if t == kmodel.Depts {
									op = kmodel.Op{Kind: "create", Store: kmodel.Depts, Id: id, V: map[string]any{"name": nil}}
								} else {
									op = kmodel.Op{Kind: "create", Store: kmodel.Emps, Id: id, V: map[string]any{"name": "re-" + id, "title": "t1", "dept": nil, "boss": nil}}
									if cfg.DeptFK != 1 { // non-nullable dept: needs an existing dept
										ds := e.ExistingIds(kmodel.Depts)
										if len(ds) == 0 {
											continue
										}
										op.V["dept"] = ds[0]
									}
									if !cfg.BossNullable {
										op.V["boss"] = id
									}
								}
								rr := e.RunTx([]kmodel.Op{op}, "C06 re-create")
								if rr.Committed {
									c.Count("recreated", 1)
								}
								e.Check("C06 re-create", map[string]any{"cfg": cfg.String(), "id": id, "deleted_by": res.Ops})
							}
						}
					}
				}})
		},
		Promises: func(core.Tier) map[string][]string {
			return map[string][]string{"deleted_entity": {"linked", "rc-linked", "referenced", "set-indexed", "child:" + kmodel.Mgrs, "child:" + kmodel.Ctrs},
				"sibling": {"data in both child stores"}, "sibling_delete": {"parent+A+B through parent", "parent+A+B through childA", "parent+A+B through childB", "parent+A through childA", "parent through parent"}}
		},
		MinCounters: func(core.Tier) map[string]int64 {
			return map[string]int64{"deletes_scanned": 200, "recreated": 50, "sibling_deletes_scanned": 100, "self_fk_deletes_scanned": 50, "rc_only_deletes_scanned": 20, "symmetric_link_transactions": 200, "cascades_over_hundreds_of_referrers": 4, "database_reopened": 500}
		},
	})
}

func traceClass(hit string) string {
	// "key: /"stores"/"indexes"/... " -> keep the kind and the first path components without ids
	kind := hit
	if i := strings.Index(hit, ":"); i > 0 {
		kind = hit[:i]
	}
	parts := strings.Split(hit, "/")
	var keep []string
	for i, p := range parts {
		if i == 0 {
			continue
		}
		if i > 4 {
			break
		}
		keep = append(keep, p)
	}
	cls := kind
	if len(keep) >= 3 {
		cls += " under " + keep[0] + "/" + keep[1] + "/" + keep[2]
	}
	return cls
}
