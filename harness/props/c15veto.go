package props

import (
	"errors"
	"fmt"
	"os"

	"github.com/openziti/storage/boltz"
	"go.etcd.io/bbolt"
	"verif/harness/internal/core"
	"verif/harness/internal/dump"
	"verif/harness/internal/kmodel"
	"verif/harness/internal/schema"
)

// C15 part (b): "deleting through either store removes both parts" has a converse: when a constraint that belongs to the
// CHILD store refuses the delete, neither part may go, whichever store the delete was issued through. A veto constraint
// and an fk restrict (another store referencing the child store) sit at the child level; deletes are issued through the
// parent store, the plain child store and the extended child store.
const c15VetoCases = 12 + 6

type c15Veto struct {
	armed *bool
	on    boltz.EntityEventType // change type it refuses (default: deletes)
}

var errC15Veto = errors.New("child-level veto")

func (v *c15Veto) ProcessPreCommit(s *boltz.EntityChangeState[*schema.Ent]) error {
	on := v.on
	if on == 0 {
		on = boltz.EntityDeleted
	}
	if *v.armed && s.ChangeType == on {
		return errC15Veto
	}
	return nil
}
func (v *c15Veto) ProcessPostCommit(*boltz.EntityChangeState[*schema.Ent]) {}

// c15UpdateVeto: a constraint of the PARENT store refuses updates; it applies to entities with child data exactly as to
// plain ones, whichever store the update is issued through.
func c15UpdateVeto(c *core.Ctx, idx int) {
	cfg := c15Configs[idx%len(c15Configs)]
	sc := schema.Build(kmodel.Defs(cfg))
	path := c.TempFile("c15u")
	db, err := sc.OpenDb(path)
	if err != nil {
		c.Violation("C15 setup", err.Error(), nil)
		return
	}
	defer func() { _ = db.Close(); _ = os.Remove(path) }()
	armed := false
	sc.St(kmodel.Emps).Store.AddEntityConstraint(&c15Veto{armed: &armed, on: boltz.EntityUpdated})
	kind := []string{"plain", kmodel.Mgrs, kmodel.Ctrs}[idx%3]
	through := kmodel.Emps
	if idx >= 3 && kind != "plain" {
		through = kind
	}
	v := map[string]any{"name": "n1", "title": "t1", "dept": "d1", "roles": []string{"r1"}}
	err = db.Update(nil, func(ctx boltz.MutateContext) error {
		if err := sc.St(kmodel.Depts).Store.Create(ctx, &schema.Ent{Id: "d1", Typ: kmodel.Depts, V: map[string]any{"name": "dn"}}); err != nil {
			return err
		}
		create := kmodel.Emps
		if kind != "plain" {
			create = kind
		}
		if kind == kmodel.Mgrs {
			v["lead"], v["level"] = true, int64(3)
		} else if kind == kmodel.Ctrs {
			v["agency"] = "a1"
		}
		return sc.St(create).Store.Create(ctx, &schema.Ent{Id: "m1", Typ: kmodel.Emps, V: v})
	})
	if err != nil {
		c.Violationf("C15 veto setup failed", nil, "%v", err)
		return
	}
	armed = true
	var before *dump.Dump
	_ = db.View(func(tx *bbolt.Tx) error { before = dump.Tx(tx); return nil })
	v2 := map[string]any{}
	for k, x := range v {
		v2[k] = x
	}
	v2["title"] = "t2"
	updErr := db.Update(nil, func(ctx boltz.MutateContext) error {
		return sc.St(through).Store.Update(ctx, &schema.Ent{Id: "m1", Typ: kmodel.Emps, V: v2}, nil)
	})
	c.Eval()
	c.Count("child_level_refusals", 1)
	combo := fmt.Sprintf("update of a %s entity through %s refused by a parent-store constraint", kind, through)
	c.Cover("child_level_block", "update veto on the parent store / "+kind+" entity through "+map[bool]string{true: "parent", false: "child"}[through == kmodel.Emps])
	c.Nontrivial("c15updveto", combo, cfg.String())
	info := map[string]any{"cfg": cfg.String(), "entity": kind, "through": through, "error": fmt.Sprint(updErr)}
	var after *dump.Dump
	_ = db.View(func(tx *bbolt.Tx) error { after = dump.Tx(tx); return nil })
	if updErr == nil {
		c.Violationf("C15 an update refused by a constraint of the parent store succeeded ("+combo+")", info, "Update returned nil")
	} else if after.Hash() != before.Hash() {
		c.Violationf("C15 a refused update changed the database ("+combo+")", info, "diff: %v", dump.Diff(before, after, nil, 6))
	}
}

func c15VetoCase(c *core.Ctx, idx int) {
	if idx >= 12 {
		c15UpdateVeto(c, idx-12)
		return
	}
	cfg := c15Configs[idx%len(c15Configs)]
	defs := kmodel.Defs(cfg)
	// teams.lead -> managers (the plain child store) with a back-reference list on the child part
	for _, d := range defs {
		if d.Parent == kmodel.Emps && !d.Extended {
			d.Fields = append(d.Fields, schema.Field{Name: "teams", Kind: schema.KList, FK: "teams", Derived: true})
		}
	}
	defs = append(defs, &schema.StoreDef{Type: "teams", BasePath: []string{"stores"},
		Fields: []schema.Field{{Name: "lead", Kind: schema.KStr, FK: kmodel.Mgrs}},
		FKs:    []schema.FKDef{{Field: "lead", Target: kmodel.Mgrs, Kind: schema.FkIndexNullable, BackRef: "teams"}}})
	sc := schema.Build(defs)
	path := c.TempFile("c15v")
	db, err := sc.OpenDb(path)
	if err != nil {
		c.Violation("C15 setup", err.Error(), nil)
		return
	}
	defer func() { _ = db.Close(); _ = os.Remove(path) }()
	armed := false
	childKey := []string{kmodel.Mgrs, kmodel.Ctrs}[(idx/3)%2]
	blocker := []string{"veto constraint on the child store", "fk restrict from a store referencing the child store"}[(idx/6)%2]
	if childKey == kmodel.Ctrs {
		blocker = "veto constraint on the child store"
	}
	sc.St(childKey).Store.AddEntityConstraint(&c15Veto{armed: &armed})
	through := []string{kmodel.Emps, childKey, childKey}[idx%3]
	err = db.Update(nil, func(ctx boltz.MutateContext) error {
		if err := sc.St(kmodel.Depts).Store.Create(ctx, &schema.Ent{Id: "d1", Typ: kmodel.Depts, V: map[string]any{"name": "dn"}}); err != nil {
			return err
		}
		v := map[string]any{"name": "n1", "title": "t1", "dept": "d1", "roles": []string{"r1"}}
		if childKey == kmodel.Mgrs {
			v["lead"], v["level"] = true, int64(3)
		} else {
			v["agency"] = "a1"
		}
		if err := sc.St(childKey).Store.Create(ctx, &schema.Ent{Id: "m1", Typ: kmodel.Emps, V: v}); err != nil {
			return err
		}
		if blocker != "veto constraint on the child store" {
			return sc.St("teams").Store.Create(ctx, &schema.Ent{Id: "t1", Typ: "teams", V: map[string]any{"lead": "m1"}})
		}
		return nil
	})
	if err != nil {
		c.Violationf("C15 veto setup failed", nil, "%v", err)
		return
	}
	armed = blocker == "veto constraint on the child store"
	var before *dump.Dump
	_ = db.View(func(tx *bbolt.Tx) error { before = dump.Tx(tx); return nil })
	delErr := db.Update(nil, func(ctx boltz.MutateContext) error { return sc.St(through).Store.DeleteById(ctx, "m1") })
	c.Eval()
	c.Count("child_level_refusals", 1)
	combo := fmt.Sprintf("%s, delete through %s, child store %s", blocker, through, childKey)
	c.Cover("child_level_block", blocker+" / through "+map[bool]string{true: "parent", false: "child"}[through == kmodel.Emps])
	c.Nontrivial("c15veto", combo, cfg.String())
	info := map[string]any{"cfg": cfg.String(), "blocker": blocker, "through": through, "child_store": childKey, "error": fmt.Sprint(delErr)}
	var after *dump.Dump
	_ = db.View(func(tx *bbolt.Tx) error { after = dump.Tx(tx); return nil })
	if delErr == nil {
		c.Violationf("C15 a delete refused at the child-store level succeeded ("+combo+")", info, "DeleteById returned nil; remaining traces of m1: %v", after.FindId("m1"))
	} else if after.Hash() != before.Hash() {
		c.Violationf("C15 a refused delete changed the database ("+combo+")", info, "diff: %v", dump.Diff(before, after, nil, 6))
	}
	// once the blocker is gone the delete removes both parts
	armed = false
	_ = db.Update(nil, func(ctx boltz.MutateContext) error {
		if blocker != "veto constraint on the child store" {
			return sc.St("teams").Store.DeleteById(ctx, "t1")
		}
		return nil
	})
	delErr = db.Update(nil, func(ctx boltz.MutateContext) error { return sc.St(through).Store.DeleteById(ctx, "m1") })
	_ = db.View(func(tx *bbolt.Tx) error { after = dump.Tx(tx); return nil })
	if delErr != nil || len(after.FindId("m1")) > 0 {
		c.Violationf("C15 delete through "+through+" did not remove both parts", info, "err=%v traces: %v", delErr, after.FindId("m1"))
	}
}
