package props

import (
	"fmt"
	"os"
	"runtime/debug"
	"sort"
	"strconv"
	"strings"

	"github.com/openziti/storage/ast"
	"github.com/openziti/storage/boltz"
	"go.etcd.io/bbolt"
	"verif/harness/internal/core"
	"verif/harness/internal/memsym"
	"verif/harness/internal/ql"
	"verif/harness/internal/qx"
	"verif/harness/internal/schema"
)

type qEnv struct {
	c    *core.Ctx
	sc   *schema.Schema
	db   *boltz.DbImpl
	path string
	w    *qx.World
}

// deferLoadQEnv makes newQEnv return an environment whose world has not been written yet (the caller writes it inside
// the transaction it queries in). Workers run one case at a time.
var deferLoadQEnv bool

// childQEnv makes newQEnv layer a plain child store ("things/kid") on the things store; every other thing is created
// through it.
var childQEnv bool

func newQEnv(c *core.Ctx, r *core.Rand, maxThings int, small bool) (*qEnv, error) {
	defs := qx.Defs()
	if childQEnv {
		defs = append(defs, &schema.StoreDef{Type: qx.Things, Parent: qx.Things, ChildPath: []string{"kid"}, Fields: []schema.Field{{Name: "extra", Kind: schema.KStr}}})
		// owners get a plain list of thing ids whose symbol is typed to that child store
		defs[0].Fields = append(defs[0].Fields, schema.Field{Name: "kidlist", Kind: schema.KList, FK: qx.Things + "/kid"})
	}
	sc := schema.Build(defs)
	path := c.TempFile("q")
	db, err := sc.OpenDb(path)
	if err != nil {
		return nil, err
	}
	w := qx.GenWorld(r, maxThings, small)
	if deferLoadQEnv {
		return &qEnv{c: c, sc: sc, db: db, path: path, w: w}, nil
	}
	if err := qx.Load(sc, db, w, r); err != nil {
		_ = db.Close()
		_ = os.Remove(path)
		return nil, fmt.Errorf("loading world: %w", err)
	}
	return &qEnv{c: c, sc: sc, db: db, path: path, w: w}, nil
}

func (e *qEnv) close() { _ = e.db.Close(); _ = os.Remove(e.path) }

// exprShape summarises an expression for violation keys and coverage cells: lhs kind, type, operator.
func exprCells(e qx.Expr, w *qx.World, store string, out map[string]bool) {
	switch x := e.(type) {
	case qx.And:
		exprCells(x.L, w, store, out)
		exprCells(x.R, w, store, out)
	case qx.Or:
		exprCells(x.L, w, store, out)
		exprCells(x.R, w, store, out)
	case qx.Not:
		exprCells(x.E, w, store, out)
	case qx.Cmp:
		shape := x.L.Kind
		if strings.Contains(x.L.Sym, ".") {
			if strings.HasPrefix(x.L.Sym, "meta.") {
				shape += "(map)"
			} else {
				shape += "(dotted)"
			}
		}
		if x.L.Sub != nil {
			shape += "(subquery)"
		}
		lt := "null"
		if len(x.R) > 0 && !x.R[0].IsNull {
			lt = []string{"str", "int", "float", "bool", "time"}[x.R[0].T]
		}
		out[shape+" "+x.Op+" "+lt] = true
	case qx.IsEmpty:
		if x.Sub != nil {
			out["isEmpty(subquery)"] = true
		} else {
			out["isEmpty"] = true
		}
	case qx.BoolSym:
		out["boolsym"] = true
	case qx.Const:
		out["const"] = true
	}
}

func cellKey(cells map[string]bool) string {
	var ks []string
	for k := range cells {
		ks = append(ks, k)
	}
	sort.Strings(ks)
	if len(ks) > 1 {
		return "compound expression"
	}
	return strings.Join(ks, " ; ")
}

func sameIds(a, b []string) bool {
	if len(a) != len(b) {
		return false
	}
	for i := range a {
		if a[i] != b[i] {
			return false
		}
	}
	return true
}

func sortedCopy(a []string) []string {
	out := append([]string{}, a...)
	sort.Strings(out)
	return out
}

func worldDigest(w *qx.World) string {
	var sb strings.Builder
	for _, st := range []string{qx.Things, qx.Owners, qx.Others} {
		for _, id := range w.Ids(st) {
			fmt.Fprintf(&sb, "%s/%s:%v;", st, id, w.Rows[st][id].V)
		}
	}
	return fmt.Sprintf("%x", core.HashString(sb.String()))
}

var (
	describedWorld *qx.World
	describedAs    map[string]any
)

// describeWorld renders a world for violation records (memoized for the world of the running case; workers run one
// case at a time).
func describeWorld(w *qx.World) map[string]any {
	if describedWorld == w && describedAs != nil {
		return describedAs
	}
	out := map[string]any{}
	defer func() { describedWorld, describedAs = w, out }()
	for _, st := range []string{qx.Things, qx.Owners, qx.Others} {
		m := map[string]any{}
		for _, id := range w.Ids(st) {
			m[id] = fmt.Sprintf("%v", w.Rows[st][id].V)
		}
		out[st] = m
	}
	return out
}

func init() {
	core.Register(&core.Property{
		ID:    "C01",
		Level: "exploration",
		Rule: "generated datasets (0-12 things, owners, others; nulls p=0.25, empty sets, empty-string elements, case variants, shared prefixes, boundary integers, equal instants in different zones, typed and nested map values) x generated well-typed filters to depth 3 " +
			"(scalar, path-prefixed, map-element, dotted single-valued, anyOf/allOf over direct and dotted sets, count over sets and sub-queries with skip/limit, isEmpty, bool symbols/constants, and/or/not; every operator incl. null tests; int<->float and number->string coercions), fully parenthesised. " +
			"a third of the deeper filters are written with the fewest parentheses precedence allows (not > and > or; scripted three- to five-atom chains mixing and / or among them), in-lists have 16-24 elements now and then, integers inside maps are stored as int32 as often as int64. " +
			"Every filter is answered by an independent reference evaluator and by the engine through QueryIds (canonical and re-spelled text), IterateIds, and QueryWithCursorC over an index-driven cursor provider (IteratorMatchingAnyOf); differing id sets, " +
			"or a rejected / panicking well-typed filter, are violations. A fifth path evaluates the text with package ast alone over an in-memory ast.Symbols; every fourth case queries the owners / others stores (3-4 hop dotted paths); every fifth case writes the dataset and runs all its queries inside one write transaction (uncommitted data); every seventh queries through a plain child store layered on the things store (half of the things have child data). Cases the statement leaves open are executed but not judged. non-trivial = distinct (filter, dataset) whose answer is neither empty nor everything",
		Assumptions: []string{"count / isEmpty over a dotted path count the elements of its stacked cursor (one per related entity and value, the reading C14 holds the cursor to); semantics not fixed by the statement are not judged: ordering of a string symbol against a number literal, map elements whose stored type differs from the literal's, icontains over non-ASCII, bare bool symbols holding null"},
		Plan: func(tier core.Tier, seed int64) int {
			if tier == core.Thorough {
				return 40000
			}
			return 320
		},
		Run: runC01,
		Promises: func(core.Tier) map[string][]string {
			var want []string
			for _, op := range []string{"=", "!=", "<", "<=", ">", ">=", "in", "not in", "contains", "not contains", "icontains", "not icontains"} {
				want = append(want, "sym "+op+" str", "anyOf "+op+" str", "allOf "+op+" str")
			}
			for _, op := range []string{"=", "!=", "<", ">=", "in", "not in", "between", "not between"} {
				want = append(want, "sym "+op+" int", "sym "+op+" float", "sym "+op+" time")
			}
			want = append(want, "sym = bool", "sym != bool", "sym = null", "sym != null", "sym(dotted) = str", "sym(map) = str", "sym(map) = int", "anyOf(dotted) = str", "count = int", "count(subquery) = int", "isEmpty", "isEmpty(subquery)", "boolsym")
			return map[string][]string{"coerced_number_text": {"0.00005 under in", "0.00005 under not in", "0.00005 under =", "5 under in"}, "cell": want, "cell_with_null_operand": {"sym = str", "sym != str", "sym < int", "sym not in str", "sym not between int", "sym not contains str", "sym = bool", "sym in time"}}
		},
		MinCounters: func(core.Tier) map[string]int64 { return map[string]int64{"judged": 3000, "paths_compared": 9000} },
	})
}

func runC01(c *core.Ctx, idx int) {
	r := c.Rand()
	// every fifth case writes the dataset and runs the queries inside ONE write transaction (uncommitted data)
	inTx := idx%5 == 4
	// every seventh case queries through a child store layered on the things store: the answer is the matching entities
	// that have child data
	viaChild := idx%7 == 6 && idx%4 != 3
	deferLoadQEnv, childQEnv = inTx, viaChild
	env, err := newQEnv(c, r, 12, false)
	deferLoadQEnv, childQEnv = false, false
	if err != nil {
		c.Violation("C01 setup", err.Error(), nil)
		return
	}
	defer env.close()
	// most cases query the things store; every fourth one queries owners / others (dotted paths back through things)
	store := qx.Things
	if idx%4 == 3 {
		store = []string{qx.Owners, qx.Others}[(idx/4)%2]
	}
	st := env.sc.St(store)
	g := &qx.Gen{R: r, W: env.w, Store: store}
	all := env.w.Ids(store)
	viaKidlist := viaChild && (idx/7)%2 == 1
	if viaKidlist {
		// the owners store, with sub-queries over the set typed to the child store
		viaChild = false
		store = qx.Owners
		st = env.sc.St(store)
		g = &qx.Gen{R: r, W: env.w, Store: store, KidSets: true}
		all = env.w.Ids(store)
		c.Count("cases_with_subqueries_over_a_set_typed_to_a_child_store", 1)
	}
	if viaChild {
		st = env.sc.St(qx.Things + "/kid")
		var kids []string
		for _, id := range all {
			if qx.HashKid(id) {
				kids = append(kids, id)
			}
		}
		all = kids
		c.Count("cases_through_a_child_store", 1)
	}
	nFilters := 60
	mem := newMemWorld(env.w)
	view := env.db.View
	if inTx {
		c.Count("cases_querying_uncommitted_data", 1)
		view = func(f func(tx *bbolt.Tx) error) error {
			return env.db.Update(nil, func(ctx boltz.MutateContext) error {
				if err := qx.LoadCtx(ctx, env.sc, env.w, r); err != nil {
					c.Violationf("C01 setup", nil, "loading the world: %v", err)
					return err
				}
				return f(ctx.Tx())
			})
		}
	}
	_ = view(func(tx *bbolt.Tx) error {
		for k := 0; k < nFilters; k++ {
			depth := 0
			if k >= nFilters/2 {
				depth = 1 + r.Intn(3)
			}
			e := g.Expr(depth)
			if thingIds := env.w.Ids(qx.Things); viaChild && k < len(thingIds) {
				// lookups by id first: ids with and without child data
				e = qx.Cmp{L: qx.LHS{Kind: "sym", Sym: "id"}, Op: core.Pick(r, []string{"=", "=", "in"}), R: []qx.Lit{qx.LStr(thingIds[k])}}
			}
			if store == qx.Owners && !viaKidlist && k < 5 {
				c.Count("scripted_counts_over_an_application_kept_id_list", 1)
				// every member of the application-kept id list, counted (the list also holds ids that name nothing)
				all := &qx.SubQ{Set: "favlist", Q: &qx.Query{Pred: qx.Const{V: true}}}
				if k == 4 {
					e = qx.IsEmpty{Sub: all}
				} else {
					// (at least k members: the same answer whether or not the empty string counts as one, unless it decides)
					e = qx.Cmp{L: qx.LHS{Kind: "count", Sub: all}, Op: ">=", R: []qx.Lit{qx.LInt(int64(k + 1))}}
				}
			}
			if store == qx.Things && !viaChild && k >= 5 && k < 9 {
				// number-to-string coercion, scripted: a string field is compared with the number whose text a row holds -
				// under = / != / in / not in alike, also when the number's shortest rendering has an exponent
				texts := map[string]qx.Lit{"5": qx.LInt(5), "2.25": qx.LFloat(2.25, "2.25"), "0.5": qx.LFloat(0.5, "0.5"), "0.00005": qx.LFloat(0.00005, "0.00005")}
				var held []string
				for _, id := range all {
					if sv, ok := env.w.Rows[qx.Things][id].V["s"].(string); ok {
						if _, num := texts[sv]; num && !contains(held, sv) {
							held = append(held, sv)
						}
					}
				}
				sort.Strings(held)
				if len(held) > 0 {
					txt := held[(k+idx)%len(held)]
					op := []string{"=", "in", "not in", "!="}[k-5]
					lits := []qx.Lit{texts[txt]}
					if op == "in" || op == "not in" {
						lits = append(lits, qx.LInt(10))
					}
					e = qx.Cmp{L: qx.LHS{Kind: "sym", Sym: "s"}, Op: op, R: lits}
					c.Count("scripted_number_to_string_comparisons", 1)
					c.Cover("coerced_number_text", txt+" under "+op)
				}
			}
			if store == qx.Things && !viaChild && k >= 9 && k < 12 {
				// sub-queries nested two deep, with a name of the middle store behind the inner sub-query: friends (others)
				// whose things (things again) ... and whose own rank / name ...
				inner := &qx.SubQ{Set: "things", Q: &qx.Query{Pred: []qx.Expr{qx.Const{V: true}, qx.Cmp{L: qx.LHS{Kind: "sym", Sym: "s"}, Op: "!=", R: []qx.Lit{qx.LNull()}}, qx.Cmp{L: qx.LHS{Kind: "sym", Sym: "ibig"}, Op: ">=", R: []qx.Lit{qx.LInt(0)}}}[k-9]}}
				var first qx.Expr = qx.Not{E: qx.IsEmpty{Sub: inner}}
				if k == 10 {
					first = qx.Cmp{L: qx.LHS{Kind: "count", Sub: inner}, Op: ">=", R: []qx.Lit{qx.LInt(1)}}
				}
				behind := qx.Cmp{L: qx.LHS{Kind: "sym", Sym: "rank"}, Op: ">=", R: []qx.Lit{qx.LInt(int64(k - 10))}}
				outer := &qx.SubQ{Set: "friends", Q: &qx.Query{Pred: qx.And{L: first, R: behind}}}
				e = qx.Cmp{L: qx.LHS{Kind: "count", Sub: outer}, Op: ">=", R: []qx.Lit{qx.LInt(1)}}
				if k == 11 {
					e = qx.And{L: qx.Not{E: qx.IsEmpty{Sub: outer}}, R: qx.Cmp{L: qx.LHS{Kind: "sym", Sym: "ibig"}, Op: "!=", R: []qx.Lit{qx.LNull()}}}
				}
				c.Count("scripted_sub_queries_two_deep", 1)
			}
			if store == qx.Things && !viaChild && k >= 12 && k < 16 {
				// a map element that holds a float, asked for by a list / a range of floats around its value
				var elem string
				var fv float64
				for _, id := range all {
					if meta, ok := env.w.Rows[qx.Things][id].V["meta"].(map[string]any); ok {
						for _, mk := range []string{"f", "flag", "k", "n", "when"} {
							if x, isF := meta[mk].(float64); isF && elem == "" && x == x && x > -1e15 && x < 1e15 {
								elem, fv = "meta."+mk, x
							}
						}
					}
				}
				if elem != "" {
					fl := func(x float64) qx.Lit { return qx.LFloat(x, strconv.FormatFloat(x, 'f', -1, 64)) }
					switch k {
					case 12:
						e = qx.Cmp{L: qx.LHS{Kind: "sym", Sym: elem}, Op: "in", R: []qx.Lit{fl(fv), fl(99.5)}}
					case 13:
						e = qx.Cmp{L: qx.LHS{Kind: "sym", Sym: elem}, Op: "between", R: []qx.Lit{fl(fv - 0.25), fl(fv + 0.25)}}
					case 14:
						e = qx.Cmp{L: qx.LHS{Kind: "sym", Sym: elem}, Op: "not in", R: []qx.Lit{fl(fv), fl(98.5)}}
					default:
						e = qx.Cmp{L: qx.LHS{Kind: "sym", Sym: elem}, Op: "not between", R: []qx.Lit{fl(fv - 0.25), fl(fv + 0.25)}}
					}
					c.Count("scripted_float_lists_over_a_float_map_element", 1)
				}
			}
			if viaKidlist && k < 5 {
				// every member of the set typed to the child store, counted: the list also holds ids without child data and,
				// for some owners, the empty string
				all := &qx.SubQ{Set: "kidlist", Q: &qx.Query{Pred: qx.Const{V: true}}}
				if k == 4 {
					e = qx.IsEmpty{Sub: all}
				} else {
					e = qx.Cmp{L: qx.LHS{Kind: "count", Sub: all}, Op: "=", R: []qx.Lit{qx.LInt(int64(k))}}
				}
			}
			q := &qx.Query{Pred: e}
			if depth >= 2 && k%3 == 2 && !viaChild {
				// precedence instead of parentheses: not > and > or; every third of those is a scripted chain
				// of three or four atoms mixing the two connectives
				q.Flat = true
				if k%9 == 2 {
					a := []qx.Expr{g.Atom(0), g.Atom(0), g.Atom(0), g.Atom(0), g.Atom(0)}
					switch r.Intn(4) {
					case 0:
						e = qx.Or{L: qx.And{L: qx.And{L: a[0], R: a[1]}, R: a[2]}, R: a[3]}
					case 1:
						e = qx.Or{L: a[3], R: qx.And{L: a[0], R: qx.And{L: a[1], R: a[2]}}}
					case 2:
						e = qx.Or{L: qx.And{L: qx.And{L: a[0], R: a[1]}, R: a[2]}, R: qx.And{L: a[3], R: a[4]}}
					default:
						e = qx.And{L: a[0], R: qx.And{L: a[1], R: qx.Or{L: a[2], R: a[3]}}}
					}
					q.Pred = e
				}
				c.Count("filters_relying_on_precedence", 1)
			}
			stream := q.Stream()
			text := stream.Canon()
			want, judged, why := env.w.Match(e, store)
			if viaChild {
				var kept []string
				for _, id := range want {
					if qx.HashKid(id) {
						kept = append(kept, id)
					}
				}
				want = kept
			}
			cells := map[string]bool{}
			exprCells(e, env.w, store, cells)
			info := map[string]any{"query": text, "world": describeWorld(env.w)}
			run := func(path string, f func() ([]string, error)) {
				defer func() {
					if rec := recover(); rec != nil {
						st := string(debug.Stack())
						c.Violationf("C01 panic evaluating a well-typed filter ("+path+") in "+c10PanicSite(st)+": "+cellKey(cells), info, "query %q: %v\n%s", text, rec, firstLines(st, 16))
					}
				}()
				got, err := f()
				c.Eval()
				if !judged {
					c.Count("executed_not_judged", 1)
					return
				}
				c.Count("paths_compared", 1)
				if err != nil {
					c.Violationf("C01 well-typed filter rejected ("+path+"): "+cellKey(cells), info, "query %q rejected: %v", text, err)
					return
				}
				if !sameIds(sortedCopy(got), want) {
					c.Violationf("C01 wrong id set ("+path+"): "+cellKey(cells), info, "query %q: engine %q, reference %q", text, got, want)
				}
			}
			run("QueryIds", func() ([]string, error) {
				ids, n, err := st.Store.QueryIds(tx, text)
				if err == nil && int(n) != len(ids) {
					err = fmt.Errorf("count %d != %d ids", n, len(ids))
				}
				return ids, err
			})
			if r.P(0.5) {
				ql.QuoteIds = true // identifiers between single quotes now and then (the grammar's second form)
				respelled := stream.Respell(r)
				ql.QuoteIds = false
				if strings.Contains(respelled, "'") {
					c.Count("filters_with_quoted_identifiers", 1)
				}
				run("QueryIds respelled", func() ([]string, error) {
					ids, _, err := st.Store.QueryIds(tx, respelled)
					if err != nil {
						err = fmt.Errorf("%w (text %q)", err, respelled)
					}
					return ids, err
				})
			}
			// package ast alone: the same text evaluated row by row over an in-memory Symbols implementation
			if mq, merr := ast.Parse(mem.tables[store], text); merr == nil || judged {
				run("ast.EvalBool over memsym", func() ([]string, error) {
					if merr != nil {
						return nil, merr
					}
					var ids []string
					for _, id := range all {
						if mq.EvalBool(mem.row(store, id, 3)) {
							ids = append(ids, id)
						}
					}
					return ids, nil
				})
			}
			parsed, perr := ast.Parse(st.Store, text)
			if perr == nil {
				run("IterateIds", func() ([]string, error) {
					return idsOf(st.Store.IterateIds(tx, parsed)), nil
				})
				if r.P(0.4) && store == qx.Things {
					vals := core.Subset(r, qx.NumTagPool, 0.4)
					if len(vals) > 0 {
						saved := want
						var inter []string
						for _, id := range want {
							nums, _ := env.w.Rows[qx.Things][id].V["nums"].([]string)
							hit := false
							for _, n := range nums {
								for _, v := range vals {
									if n == v {
										hit = true
									}
								}
							}
							if hit {
								inter = append(inter, id)
							}
						}
						want = inter
						p2, _ := ast.Parse(st.Store, text)
						run("QueryWithCursorC(IteratorMatchingAnyOf)", func() ([]string, error) {
							ids, _, err := st.Store.QueryWithCursorC(tx, st.Store.IteratorMatchingAnyOf(env.sc.St(store).SetIdx["nums"], vals), p2)
							return ids, err
						})
						want = saved
					}
				}
			}
			if judged {
				c.Count("judged", 1)
				for cell := range cells {
					c.Cover("cell", cell)
				}
				if len(want) > 0 && len(want) < len(all) {
					c.Nontrivial(text, worldDigest(env.w))
				}
				if cmp, ok := e.(qx.Cmp); ok && cmp.L.Kind == "sym" && !strings.Contains(cmp.L.Sym, ".") {
					// single comparison on a direct scalar: record whether a null operand was met
					for _, id := range all {
						if env.w.Rows[store][id].V[cmp.L.Sym] == nil {
							for cell := range cells {
								c.Cover("cell_with_null_operand", cell)
							}
							break
						}
					}
				}
				if c.WantSample() && len(want) > 0 && len(want) < len(all) {
					c.Sample(map[string]any{"query": text, "things": len(all), "matching": want})
				}
			} else {
				c.Cover("unjudged_reason", why)
			}
		}
		return nil
	})
}

// memWorld builds memsym tables / rows from a qx world (used to drive package ast without boltz).
type memWorld struct {
	w      *qx.World
	tables map[string]*memsym.Table
	cache  map[string]*memsym.Row
}

var qxNodeTypes = map[qx.Type]ast.NodeType{qx.TStr: ast.NodeTypeString, qx.TInt: ast.NodeTypeInt64, qx.TFloat: ast.NodeTypeFloat64, qx.TBool: ast.NodeTypeBool, qx.TTime: ast.NodeTypeDatetime, qx.TAny: ast.NodeTypeAnyType}

func newMemWorld(w *qx.World) *memWorld {
	m := &memWorld{w: w, tables: map[string]*memsym.Table{}}
	for _, store := range []string{qx.Things, qx.Owners, qx.Others} {
		m.tables[store] = memsym.NewTable()
	}
	for _, store := range []string{qx.Things, qx.Owners, qx.Others} {
		t := m.tables[store]
		scalars, sets := qx.Paths(store)
		for p, typ := range scalars {
			t.Types[p] = qxNodeTypes[typ]
		}
		for p, typ := range sets {
			t.Types[p] = qxNodeTypes[typ]
			t.Sets[p] = true
		}
		for _, set := range memSubSets(store) {
			t.Linked[set] = m.tables[qx.TargetOf(store, set)]
			t.Types[set] = ast.NodeTypeString
			t.Sets[set] = true
		}
	}
	return m
}

// row returns the in-memory row for an entity (built once per world, cursor state reset on every use).
func (m *memWorld) row(store, id string, depth int) *memsym.Row {
	key := fmt.Sprintf("%s\x00%s\x00%d", store, id, depth)
	if r := m.cache[key]; r != nil {
		r.ResetCursors()
		return r
	}
	r := m.build(store, id, depth)
	if m.cache == nil {
		m.cache = map[string]*memsym.Row{}
	}
	m.cache[key] = r
	return r
}

// memSubSets: the sets sub-queries can range over, incl. the owners' list that is typed to the child store of things.
func memSubSets(store string) []string {
	if store == qx.Owners {
		return append(append([]string{}, qx.SubSets(store)...), "kidlist")
	}
	return qx.SubSets(store)
}

func (m *memWorld) build(store, id string, depth int) *memsym.Row {
	src := m.w.Rows[store][id]
	t := m.tables[store]
	r := memsym.NewRow(t)
	if src == nil {
		return r
	}
	for p := range t.Types {
		vals, isSet, ok := m.w.ResolveAny(store, src, p)
		if !ok {
			continue
		}
		if isSet {
			r.SetVals[p] = vals
		} else if len(vals) > 0 {
			r.Vals[p] = vals[0]
		}
	}
	if depth > 0 {
		for _, set := range memSubSets(store) {
			ids, _ := src.V[set].([]string)
			seen := map[string]bool{}
			sorted := append([]string{}, ids...)
			sort.Strings(sorted)
			for _, lid := range sorted {
				if seen[lid] || m.w.Rows[qx.TargetOf(store, set)][lid] == nil || (set == "kidlist" && !qx.HashKid(lid)) {
					continue
				}
				seen[lid] = true
				r.LinkedRows[set] = append(r.LinkedRows[set], m.build(qx.TargetOf(store, set), lid, depth-1))
			}
		}
	}
	return r
}
