package props

import (
	"context"
	"fmt"
	"os"
	"sync/atomic"
	"time"

	"github.com/openziti/storage/boltz"
	"go.etcd.io/bbolt"
	"verif/harness/internal/core"
	"verif/harness/internal/dump"
	"verif/harness/internal/schema"
)

// C07 part (b): values a store operation must refuse (validation failures raised while persisting): a free-form map
// field that holds a value of an unsupported Go type at the top level, inside a list, inside a map inside a list ...
// Every such create / update must return an error, leave the database unchanged and run no commit action; the same
// entity with the offending value removed is accepted.
const c07ValueCases = 12

type c07Odd struct{ A int }

func c07ValueCase(c *core.Ctx, idx int) {
	def := &schema.StoreDef{Type: "boxes", BasePath: []string{"stores"}, Fields: []schema.Field{{Name: "label", Kind: schema.KStr}, {Name: "mp", Kind: schema.KMap}}}
	sc := schema.Build([]*schema.StoreDef{def})
	path := c.TempFile("c07v")
	db, err := sc.OpenDb(path)
	if err != nil {
		c.Violation("C07 setup", err.Error(), nil)
		return
	}
	defer func() { _ = db.Close(); _ = os.Remove(path) }()
	st := sc.St("boxes")
	bad := []any{int8(1), uint16(2), []string{"a"}, c07Odd{1}, &c07Odd{2}, map[string]string{"k": "v"}, complex(1, 2), []int{1}}[idx%8]
	where := []string{"top level", "inside a list", "inside a map inside a list", "inside a list inside a map", "last element of a long list", "inside a nested map"}[(idx/2)%6]
	place := func(v any) map[string]any {
		switch where {
		case "top level":
			return map[string]any{"ok": "x", "bad": v}
		case "inside a list":
			return map[string]any{"l": []any{"a", v, "b"}}
		case "inside a map inside a list":
			return map[string]any{"l": []any{map[string]any{"k": v}}}
		case "inside a list inside a map":
			return map[string]any{"m": map[string]any{"l": []any{int64(1), v}}}
		case "last element of a long list":
			l := make([]any, 0, 12)
			for i := 0; i < 11; i++ {
				l = append(l, int64(i))
			}
			return map[string]any{"l": append(l, v)}
		}
		return map[string]any{"m": map[string]any{"n": map[string]any{"k": v}}}
	}
	var commitActs atomic.Int64
	run := func(op string, mp map[string]any) error {
		ctx := boltz.NewMutateContext(context.Background())
		return db.Update(ctx, func(ctx boltz.MutateContext) error {
			ctx.AddCommitAction(func() { commitActs.Add(1) })
			e := &schema.Ent{Id: "b1", Typ: "boxes", V: map[string]any{"label": "l-" + op, "mp": mp}}
			if op == "create" {
				return st.Store.Create(ctx, e)
			}
			return st.Store.Update(ctx, e, nil)
		})
	}
	dumpNow := func() *dump.Dump {
		var d *dump.Dump
		_ = db.View(func(tx *bbolt.Tx) error { d = dump.Tx(tx); return nil })
		return d
	}
	info := map[string]any{"value_type": fmt.Sprintf("%T", bad), "position": where}
	combo := fmt.Sprintf("%T %s", bad, where)
	for _, op := range []string{"create", "update"} {
		before := dumpNow()
		ca0 := commitActs.Load()
		err := run(op, place(bad))
		c.Eval()
		c.Count("unsupported_value_attempts", 1)
		c.Cover("unsupported_value", where)
		c.Nontrivial("c07values", combo, op)
		if err == nil {
			c.Violationf("C07 "+op+" with a value of an unsupported type reported success ("+combo+")", info, "stored map now: %v", func() any {
				var got any
				_ = db.View(func(tx *bbolt.Tx) error {
					if e, found, _ := st.Store.FindById(tx, "b1"); found {
						got = e.V["mp"]
					}
					return nil
				})
				return got
			}())
		} else if after := dumpNow(); after.Hash() != before.Hash() {
			c.Violationf("C07 failed transaction changed the database: unsupported value ("+combo+")", info, "diff: %v", dump.Diff(before, after, nil, 4))
		}
		settled := settledGoroutines()
		quiesce(settled)
		if err != nil && commitActs.Load() != ca0 {
			c.Violationf("C07 commit action ran for a failed transaction: unsupported value", info, "%d", commitActs.Load()-ca0)
		}
		// the same entity without the offending value is accepted (so that the update above had something to update)
		want := commitActs.Load() + 1
		if cerr := run(op, place("fine")); cerr != nil {
			c.Violationf("C07 healthy transaction failed after injections", info, "%s with supported values: %v", op, cerr)
			return
		}
		// commit actions run on their own goroutine: wait for this one before the next attempt is measured
		for i := 0; i < 2000 && commitActs.Load() < want; i++ {
			time.Sleep(time.Millisecond)
		}
		if commitActs.Load() != want {
			c.Violationf("C07 commit action count for a committed transaction", info, "%d commit actions after the healthy %s, expected %d", commitActs.Load(), op, want)
		}
	}
}
