package props

import (
	"bytes"
	"fmt"
	"os"
	"sort"

	"github.com/biogo/store/llrb"
	"github.com/openziti/storage/ast"
	"github.com/openziti/storage/boltz"
	"go.etcd.io/bbolt"
	"verif/harness/internal/core"
	"verif/harness/internal/schema"
)

var c14Universe = []string{"", "a", "a\x00", "aa", "ab", "b", "b\xff", "\xff"}
var c14Targets = []string{"", "\x00", "A", "a", "a\x00", "a\x00\x00", "a\x01", "aa", "aaa", "ab", "ab\x00", "b", "b\xfe", "b\xff", "b\xff\x00", "c", "\xfe", "\xff", "\xff\x00", "\xff\xff"}

// refCursor is the sorted-slice reference cursor.
type refCursor struct {
	elems   []string // in iteration order
	pos     int
	reverse bool
}

func newRef(set []string, reverse bool) *refCursor {
	e := append([]string{}, set...)
	sort.Strings(e)
	if reverse {
		for i, j := 0, len(e)-1; i < j; i, j = i+1, j-1 {
			e[i], e[j] = e[j], e[i]
		}
	}
	return &refCursor{elems: e, reverse: reverse}
}
func (r *refCursor) valid() bool { return r.pos < len(r.elems) }
func (r *refCursor) cur() string { return r.elems[r.pos] }
func (r *refCursor) next()       { r.pos++ }
func (r *refCursor) seek(v string) {
	if !r.reverse {
		r.pos = sort.Search(len(r.elems), func(i int) bool { return r.elems[i] >= v })
	} else {
		r.pos = sort.Search(len(r.elems), func(i int) bool { return r.elems[i] <= v })
	}
}

type c14Kind struct {
	name     string
	reverse  bool
	seekable bool
	strSeek  bool     // SeekToString only
	set      []string // expected element set
	open     func() ast.SetCursor
}

// driveCursor runs enumeration, every seek target, and a random Next/Seek interleaving against the reference.
func driveCursor(c *core.Ctx, r *core.Rand, k c14Kind, info map[string]any) {
	type step struct {
		Op  string `json:"op"`
		Arg string `json:"arg,omitempty"`
	}
	run := func(label string, steps []step) {
		var trace []string
		fail := func(what string) {
			c.Violationf("C14 "+k.name+": "+what, map[string]any{"set": fmt.Sprintf("%q", k.set), "steps": steps, "kind": k.name, "info": info},
				"%s (%s) over %q after %v", what, label, k.set, trace)
		}
		cur := k.open()
		ref := newRef(k.set, k.reverse)
		var held [][]byte
		var heldWant []string
		check := func() bool {
			c.Eval()
			if cur.IsValid() != ref.valid() {
				fail(fmt.Sprintf("IsValid=%v expected %v", cur.IsValid(), ref.valid()))
				return false
			}
			if ref.valid() {
				got := cur.Current()
				if !bytes.Equal(got, []byte(ref.cur())) {
					what := fmt.Sprintf("Current=%q expected %q", got, ref.cur())
					if len(got) == len(ref.cur())+1 && got[0] == byte(boltz.TypeString) && string(got[1:]) == ref.cur() {
						what = "Current returns the element with its storage type tag"
					}
					fail(what)
					return false
				}
				// the value stays what it was while the cursor moves on (the library's own scanners keep it across Next)
				held, heldWant = append(held, got), append(heldWant, ref.cur())
			}
			return true
		}
		defer func() {
			for i, h := range held {
				if string(h) != heldWant[i] {
					fail(fmt.Sprintf("a value handed out by Current changed after the cursor moved on: was %q, now %q", heldWant[i], h))
					return
				}
			}
		}()
		if label != "blind next" && !check() {
			return
		}
		for _, s := range steps {
			trace = append(trace, s.Op+"("+fmt.Sprintf("%q", s.Arg)+")")
			switch s.Op {
			case "next", "blind-next":
				if !ref.valid() {
					continue
				}
				cur.Next()
				ref.next()
				if s.Op == "blind-next" {
					continue // the caller moves on without having looked at the element
				}
			case "seek":
				if k.strSeek {
					cur.(ast.TypeSeekableSetCursor).SeekToString(s.Arg)
				} else {
					cur.(ast.SeekableSetCursor).Seek([]byte(s.Arg))
				}
				ref.seek(s.Arg)
			}
			if !check() {
				return
			}
		}
	}
	// full enumeration
	var enum []step
	for i := 0; i <= len(k.set); i++ {
		enum = append(enum, step{Op: "next"})
	}
	run("enumeration", enum)
	// the first thing the caller does is Next (once or twice), without a look at the first element; then it enumerates
	if len(k.set) > 0 {
		for blind := 1; blind <= 2 && blind <= len(k.set); blind++ {
			steps := []step{}
			for i := 0; i < blind; i++ {
				steps = append(steps, step{Op: "blind-next"})
			}
			steps[len(steps)-1].Op = "next" // look after the last one
			run("blind next", append(steps, enum...))
		}
	}
	c.Cover("cursor_kind", k.name)
	c.Nontrivial(k.name, fmt.Sprintf("%q", k.set), "enum")
	if k.seekable || k.strSeek {
		for _, t := range c14Targets {
			run("seek", []step{{Op: "seek", Arg: t}, {Op: "next"}, {Op: "next"}})
			c.Nontrivial(k.name, fmt.Sprintf("%q", k.set), "seek", t)
		}
		// random interleavings
		for n := 0; n < 3; n++ {
			var steps []step
			for i := 0; i < 10; i++ {
				if r.P(0.4) {
					steps = append(steps, step{Op: "seek", Arg: core.Pick(r, c14Targets)})
				} else {
					steps = append(steps, step{Op: "next"})
				}
			}
			run("interleaving", steps)
		}
	}
}

// i14Pos is the position of an element in the universe.
func i14Pos(s string) int {
	for k, u := range c14Subset(255) {
		if u == s {
			return k
		}
	}
	return 0
}

func c14Subset(mask int) []string {
	var s []string
	for i, e := range c14Universe {
		if mask&(1<<i) != 0 {
			s = append(s, e)
		}
	}
	return s
}

func nonEmpty(s []string) []string {
	var out []string
	for _, x := range s {
		if x != "" {
			out = append(out, x)
		}
	}
	return out
}

func init() {
	core.Register(&core.Property{
		ID:    "C14",
		Level: "exploration",
		Rule: "for subsets of an 8-element byte-string universe (\"\", a, a\\x00, aa, ab, b, b\\xff, \\xff; the empty string only where the storage admits it) every cursor kind the library hands out " +
			"(raw / typed bolt cursors forward and reverse, TypedBucket.OpenCursor/OpenTypedCursor/OpenSeekableCursor/IterateStringList(InDirection), set index OpenValueCursor/OpenKeyCursor, GetRelatedEntitiesCursor, " +
			"LinkCollection.IterateLinks, ref-counted IterateLinks, set-symbol runtime cursor with SeekToString, IterateIds/IterateValidIds with Seek, NewFilteredCursor, TreeSet.ToCursor, NewUnionSetCursor, IteratorMatchingAllOf/AnyOf, empty cursors) " +
			"(a TreeSet also after it kept growing between cursors) is driven through a full enumeration (also one that starts with one or two Next calls before the first look at the cursor), every one of 20 seek targets (present, absent, before first, after last, shared prefixes) and random Next/Seek interleavings and compared step by step with a sorted-slice reference cursor; every slice Current handed out is kept and must still hold its element when the run is over; " +
			"part (b): elements and seek targets of 31-33, 63-65, 127-129 and 255-257 bytes sharing all but their last bytes, under the typed cursors; thorough enumerates all 256 subsets (exhaustive over kind x subset x target), quick a seeded 48 incl. the empty and the full set. non-trivial = distinct (kind, subset, target) triples",
		Assumptions: []string{"Next is not called on an exhausted cursor (unspecified); Seek on an exhausted cursor is", "dotted (stacked) set cursors enumerate a multiset in path order and are compared as multisets only"},
		Exhaustive:  func(t core.Tier) bool { return t == core.Thorough },
		Plan: func(tier core.Tier, seed int64) int {
			if tier == core.Thorough {
				return 256*16 + c14LongCases*8 // every subset 16 times: different child-data patterns and Next/Seek interleavings
			}
			return 96 + c14LongCases
		},
		Run: runC14,
		Promises: func(core.Tier) map[string][]string {
			return map[string][]string{"cursor_kind": {
				"NewBoltCursor/fwd", "NewBoltCursor/rev", "NewForwardBoltCursor", "NewReverseBoltCursor", "NewTypedForwardBoltCursor", "NewTypedReverseBoltCursor",
				"TypedBucket.OpenCursor/fwd", "TypedBucket.OpenCursor/rev", "TypedBucket.OpenTypedCursor/fwd", "TypedBucket.OpenTypedCursor/rev", "TypedBucket.OpenSeekableCursor",
				"TypedBucket.IterateStringList", "TypedBucket.IterateStringListInDirection/fwd", "TypedBucket.IterateStringListInDirection/rev",
				"setIndex.OpenValueCursor/fwd", "setIndex.OpenValueCursor/rev", "setIndex.OpenKeyCursor/fwd", "setIndex.OpenKeyCursor/rev",
				"GetRelatedEntitiesCursor/fwd", "GetRelatedEntitiesCursor/rev", "LinkCollection.IterateLinks", "RefCountedLinkCollection.IterateLinks/fwd", "RefCountedLinkCollection.IterateLinks/rev",
				"setSymbolRuntime.OpenCursor", "setSymbolRuntime.OpenCursor (reopened on a row without the bucket)", "setSymbolRuntime.OpenCursor (reopened on another row)", "IterateIds", "IterateValidIds", "IterateIds(extended child store)", "IterateValidIds(extended child store)", "IterateIds(plain child store)", "IterateValidIds(plain child store)", "IterateIds(filtered)", "NewFilteredCursor", "TreeSet.ToCursor/fwd", "TreeSet.ToCursor/rev", "TreeSet.ToCursor (grown after an earlier cursor)/fwd", "TreeSet.ToCursor (grown after an earlier cursor)/rev", "NewUnionSetCursor/fwd", "NewUnionSetCursor/rev",
				"IteratorMatchingAnyOf/1", "IteratorMatchingAnyOf/2/fwd", "IteratorMatchingAnyOf/2/rev", "IteratorMatchingAllOf/1", "IteratorMatchingAllOf/2", "IteratorMatchingAllOf/1/rev", "IteratorMatchingAllOf/2/rev", "IteratorMatchingAllOf/3/rev", "IteratorMatchingAllOf/3 order 0", "IteratorMatchingAllOf/3 order 3", "IteratorMatchingAllOf/3 order 5", "IteratorMatchingAllOf/3 order 7", "IteratorMatchingAnyOf/3", "IteratorMatchingAnyOf/2 provider reused", "TypedBucket.OpenCursor/fwd while a reverse cursor is open", "TypedBucket.IterateStringList while a reverse list cursor is open", "TypedBucket.OpenTypedCursor/rev while a forward cursor is open", "EmptyCursor", "stackedCursor(dotted set)", "stackedCursor(dotted set ending in a scalar)", "sub-query cursor over a self-referencing set", "TypedBucket.OpenTypedCursor/fwd (long elements)", "TypedBucket.OpenTypedCursor/rev (long elements)", "NewTypedBoltCursor/fwd (long elements)", "NewTypedBoltCursor/rev (long elements)"}}
		},
	})
}

func runC14(c *core.Ctx, idx int) {
	if n := map[bool]int{false: 96, true: 256 * 16}[c.Tier == core.Thorough]; idx >= n {
		c14Long(c, idx-n)
		return
	}
	runC14Main(c, idx)
}

func runC14Main(c *core.Ctx, idx int) {
	r := c.Rand()
	mask := idx % 256
	if c.Tier != core.Thorough {
		switch idx {
		case 0:
			mask = 0
		case 1:
			mask = 255
		case 2:
			mask = 1 // only the empty string
		default:
			mask = r.Intn(256)
		}
	}
	set := c14Subset(mask)
	ne := nonEmpty(set)
	info := map[string]any{"mask": mask}

	items := &schema.StoreDef{Type: "items", BasePath: []string{"stores"},
		Fields: []schema.Field{{Name: "roles", Kind: schema.KList}, {Name: "hubs", Kind: schema.KList, FK: "hubs", Derived: true}, {Name: "rhubs", Kind: schema.KList, FK: "hubs", Derived: true},
			{Name: "tags", Kind: schema.KList}, {Name: "grp", Kind: schema.KStr},
			// a link collection from the store to itself: kids <-> parents
			{Name: "kids", Kind: schema.KList, FK: "items", Derived: true}, {Name: "parents", Kind: schema.KList, FK: "items", Derived: true}},
		SetIdx: []string{"roles"},
		Links: []schema.LinkDef{{Field: "hubs", Target: "hubs", TargetField: "items"}, {Field: "rhubs", Target: "hubs", TargetField: "ritems", RefCounted: true},
			{Field: "kids", Target: "items", TargetField: "parents"}, {Field: "parents", Target: "items", TargetField: "kids"}}}
	hubs := &schema.StoreDef{Type: "hubs", BasePath: []string{"stores"},
		Fields: []schema.Field{{Name: "lst", Kind: schema.KList}, {Name: "keys", Kind: schema.KList}, {Name: "items", Kind: schema.KList, FK: "items", Derived: true}, {Name: "ritems", Kind: schema.KList, FK: "items", Derived: true}},
		SetIdx: []string{"keys"},
		Links:  []schema.LinkDef{{Field: "items", Target: "items", TargetField: "hubs"}, {Field: "ritems", Target: "items", TargetField: "rhubs", RefCounted: true}}}
	itemsExt := &schema.StoreDef{Type: "items", Parent: "items", ChildPath: []string{"xt"}, Extended: true, Fields: []schema.Field{{Name: "extra", Kind: schema.KStr}}}
	itemsPk := &schema.StoreDef{Type: "items", Parent: "items", ChildPath: []string{"pk"}, Fields: []schema.Field{{Name: "pextra", Kind: schema.KStr}}}
	sc := schema.Build([]*schema.StoreDef{hubs, items, itemsExt, itemsPk})
	path := c.TempFile("c14")
	db, err := sc.OpenDb(path)
	if err != nil {
		c.Violation("C14 setup", err.Error(), nil)
		return
	}
	defer func() { _ = db.Close(); _ = os.Remove(path) }()
	ist, hst := sc.St("items"), sc.St("hubs")
	// second role "odd" for every other item (for AllOf/AnyOf with two values)
	var odd, both, hi, oddHi, plainKids []string
	kidsOf := map[string][]string{}
	err = db.Update(nil, func(ctx boltz.MutateContext) error {
		tx := ctx.Tx()
		raw, err := tx.CreateBucketIfNotExists([]byte("raw"))
		if err != nil {
			return err
		}
		typed, _ := tx.CreateBucketIfNotExists([]byte("typed"))
		for _, s := range ne {
			if err := raw.Put([]byte(s), []byte{1}); err != nil {
				return err
			}
		}
		for _, s := range set {
			if err := typed.Put(boltz.PrependFieldType(boltz.TypeString, []byte(s)), nil); err != nil {
				return err
			}
		}
		if err := hst.Store.Create(ctx, &schema.Ent{Id: "hub", Typ: "hubs", V: map[string]any{"lst": set, "keys": ne}}); err != nil {
			return err
		}
		// a hub whose set buckets do not exist at all (absent, not empty)
		if err := hst.Store.Create(ctx, &schema.Ent{Id: "hub-none", Typ: "hubs", NilAbsent: true, V: map[string]any{"lst": nil, "keys": nil}}); err != nil {
			return err
		}
		if err := hst.Store.Create(ctx, &schema.Ent{Id: "hub-other", Typ: "hubs", V: map[string]any{"lst": []string{"zz"}, "keys": []string{}}}); err != nil {
			return err
		}
		// which items carry the second role and child data: alternating, in runs of 2 and 4, none, all, random
		oddMask := []int{0xAA, 0x55, 0x33, 0xCC, 0x0F, 0xF0, 0x00, 0xFF, 0x81, 0x7E}[(idx+idx/256)%10]
		if idx%3 == 2 {
			oddMask = r.Intn(256)
		}
		for i, s := range ne {
			roles := []string{"r"}
			pi := i // position among the items
			i = 0
			if oddMask&(1<<uint(i14Pos(s))) != 0 {
				i = 1
			}
			if i%2 == 1 {
				roles = append(roles, "odd")
				odd = append(odd, s)
				both = append(both, s)
			}
			if i14Pos(s) >= 3 { // a third role for the upper part of the universe
				roles = append(roles, "hi")
				hi = append(hi, s)
				if i%2 == 1 {
					oddHi = append(oddHi, s)
				}
			}
			ent := &schema.Ent{Id: s, Typ: "items", V: map[string]any{"roles": roles, "tags": []string{"t-" + s, "shared"}, "grp": fmt.Sprintf("g%d", pi/3), "extra": "x"}}
			target := ist
			if i%2 == 1 {
				target = sc.St("items/xt") // created through the extended child store: has child data
			} else if i14Pos(s)%2 == 0 {
				target = sc.St("items/pk") // created through the plain child store
				ent.V["pextra"] = "p"
				plainKids = append(plainKids, s)
			}
			if err := target.Store.Create(ctx, ent); err != nil {
				return err
			}
		}
		if err := hst.Links["items"].SetLinks(tx, "hub", append([]string{}, ne...)); err != nil {
			return err
		}
		for _, s := range ne {
			if _, err := hst.RcLinks["ritems"].IncrementLinkCount(tx, []byte("hub"), []byte(s)); err != nil {
				return err
			}
		}
		// every item has the two items behind it as kids (the last ones have one or none)
		for i, s := range ne {
			for _, k := range ne[min(i+1, len(ne)):min(i+3, len(ne))] {
				if err := ist.Links["kids"].AddLinks(tx, s, k); err != nil {
					return err
				}
				kidsOf[s] = append(kidsOf[s], k)
			}
		}
		return nil
	})
	if err != nil {
		c.Violationf("C14 setup write failed", info, "%v", err)
		return
	}
	_ = db.View(func(tx *bbolt.Tx) error {
		rawB := boltz.Path(tx, "raw")
		typedB := boltz.Path(tx, "typed")
		roles := ist.SetIdx["roles"]
		keysIdx := hst.SetIdx["keys"]
		var kinds []c14Kind
		add := func(k c14Kind) { kinds = append(kinds, k) }
		for _, rev := range []bool{false, true} {
			rev := rev
			dir := map[bool]string{false: "fwd", true: "rev"}[rev]
			add(c14Kind{name: "NewBoltCursor/" + dir, reverse: rev, seekable: true, set: ne, open: func() ast.SetCursor { return boltz.NewBoltCursor(rawB.Cursor(), !rev) }})
			add(c14Kind{name: "TypedBucket.OpenCursor/" + dir, reverse: rev, seekable: true, set: ne, open: func() ast.SetCursor { return rawB.OpenCursor(tx, !rev) }})
			add(c14Kind{name: "TypedBucket.OpenTypedCursor/" + dir, reverse: rev, seekable: true, set: set, open: func() ast.SetCursor { return typedB.OpenTypedCursor(tx, !rev) }})
			add(c14Kind{name: "TypedBucket.IterateStringListInDirection/" + dir, reverse: rev, seekable: true, set: set, open: func() ast.SetCursor { return typedB.IterateStringListInDirection(!rev) }})
			add(c14Kind{name: "setIndex.OpenValueCursor/" + dir, reverse: rev, seekable: true, set: ne, open: func() ast.SetCursor { return roles.OpenValueCursor(tx, []byte("r"), !rev) }})
			add(c14Kind{name: "setIndex.OpenKeyCursor/" + dir, reverse: rev, seekable: true, set: ne, open: func() ast.SetCursor { return keysIdx.OpenKeyCursor(tx, !rev) }})
			add(c14Kind{name: "GetRelatedEntitiesCursor/" + dir, reverse: rev, seekable: true, set: set, open: func() ast.SetCursor { return hst.Store.GetRelatedEntitiesCursor(tx, "hub", "lst", !rev) }})
			add(c14Kind{name: "RefCountedLinkCollection.IterateLinks/" + dir, reverse: rev, seekable: true, set: ne, open: func() ast.SetCursor { return hst.RcLinks["ritems"].IterateLinks(tx, []byte("hub"), !rev) }})
			add(c14Kind{name: "TreeSet.ToCursor/" + dir, reverse: rev, set: set, open: func() ast.SetCursor {
				ts := ast.NewTreeSet(!rev)
				for _, j := range r.Perm(len(set)) {
					ts.Add([]byte(set[j]))
				}
				for _, s := range set { // duplicates are ignored by a set
					if r.P(0.3) {
						ts.Add([]byte(s))
					}
				}
				return ts.ToCursor()
			}})
			// a set which keeps growing between cursors: every cursor enumerates the set as it is when it is opened
			add(c14Kind{name: "TreeSet.ToCursor (grown after an earlier cursor)/" + dir, reverse: rev, set: set, open: func() ast.SetCursor {
				ts := ast.NewTreeSet(!rev)
				perm := r.Perm(len(set))
				cut := 0
				if len(perm) > 0 {
					cut = r.Intn(len(perm) + 1)
				}
				for _, j := range perm[:cut] {
					ts.Add([]byte(set[j]))
				}
				if ts.Size() > 0 || r.Bool() {
					early := cursorOrEmpty(ts)
					if ts.Size() == 0 && r.Bool() {
						early = ts.ToCursor() // a cursor over the still empty set
					}
					for k := r.Intn(3); k > 0 && early.IsValid(); k-- {
						early.Next()
					}
				}
				for _, j := range perm[cut:] {
					ts.Add([]byte(set[j]))
				}
				return ts.ToCursor()
			}})
			// union of two overlapping halves
			add(c14Kind{name: "NewUnionSetCursor/" + dir, reverse: rev, set: set, open: func() ast.SetCursor {
				a, b := ast.NewTreeSet(!rev), ast.NewTreeSet(!rev)
				for _, s := range set {
					switch r.Intn(3) { // each element in the first, the second, or both
					case 0:
						a.Add([]byte(s))
					case 1:
						b.Add([]byte(s))
					default:
						a.Add([]byte(s))
						b.Add([]byte(s))
					}
				}
				return ast.NewUnionSetCursor(cursorOrEmpty(a), cursorOrEmpty(b), !rev)
			}})
			anyOf := sortedUnion(ne, odd)
			add(c14Kind{name: "IteratorMatchingAnyOf/2/" + dir, reverse: rev, set: anyOf, open: func() ast.SetCursor { return ist.Store.IteratorMatchingAnyOf(roles, []string{"r", "odd"})(tx, !rev) }})
		}
		add(c14Kind{name: "NewForwardBoltCursor", seekable: true, set: ne, open: func() ast.SetCursor { return boltz.NewForwardBoltCursor(rawB.Cursor()) }})
		add(c14Kind{name: "NewReverseBoltCursor", reverse: true, seekable: true, set: ne, open: func() ast.SetCursor { return boltz.NewReverseBoltCursor(rawB.Cursor()) }})
		add(c14Kind{name: "NewTypedForwardBoltCursor", seekable: true, set: set, open: func() ast.SetCursor { return boltz.NewTypedForwardBoltCursor(typedB.Cursor(), boltz.TypeString) }})
		add(c14Kind{name: "NewTypedReverseBoltCursor", reverse: true, seekable: true, set: set, open: func() ast.SetCursor { return boltz.NewTypedReverseBoltCursor(typedB.Cursor(), boltz.TypeString) }})
		add(c14Kind{name: "TypedBucket.OpenSeekableCursor", seekable: true, set: ne, open: func() ast.SetCursor { return rawB.OpenSeekableCursor() }})
		add(c14Kind{name: "TypedBucket.IterateStringList", seekable: true, set: set, open: func() ast.SetCursor { return typedB.IterateStringList() }})
		add(c14Kind{name: "LinkCollection.IterateLinks", seekable: true, set: ne, open: func() ast.SetCursor { return hst.Links["items"].IterateLinks(tx, []byte("hub")) }})
		add(c14Kind{name: "setSymbolRuntime.OpenCursor", strSeek: true, set: set, open: func() ast.SetCursor {
			sym := hst.Store.GetSymbol("lst").(boltz.RuntimeEntitySetSymbol)
			return sym.OpenCursor(tx, []byte("hub"))
		}})
		// two cursors over the same TypedBucket value whose lifetimes overlap: opening the second must not disturb the first
		add(c14Kind{name: "TypedBucket.OpenCursor/fwd while a reverse cursor is open", set: ne, open: func() ast.SetCursor {
			fwd := rawB.OpenCursor(tx, true)
			other := rawB.OpenCursor(tx, false)
			if other.IsValid() {
				other.Next()
			}
			return fwd
		}})
		add(c14Kind{name: "TypedBucket.IterateStringList while a reverse list cursor is open", seekable: true, set: set, open: func() ast.SetCursor {
			fwd := typedB.IterateStringList()
			_ = typedB.IterateStringListInDirection(false)
			return fwd
		}})
		add(c14Kind{name: "TypedBucket.OpenTypedCursor/rev while a forward cursor is open", reverse: true, set: set, open: func() ast.SetCursor {
			rev := typedB.OpenTypedCursor(tx, false)
			_ = typedB.OpenTypedCursor(tx, true)
			return rev
		}})
		// one cursor provider asked twice in the same transaction, second time in the other direction
		for _, rev := range []bool{false, true} {
			rev := rev
			add(c14Kind{name: "IteratorMatchingAnyOf/2 provider reused", reverse: rev, set: sortedUnion(ne, odd), open: func() ast.SetCursor {
				provider := ist.Store.IteratorMatchingAnyOf(roles, []string{"r", "odd"})
				first := provider(tx, rev)
				if first.IsValid() {
					first.Next()
				}
				return provider(tx, !rev)
			}})
		}
		// the same runtime symbol reopened for another row after it was left on an element of this one
		add(c14Kind{name: "setSymbolRuntime.OpenCursor (reopened on a row without the bucket)", strSeek: true, set: nil, open: func() ast.SetCursor {
			sym := hst.Store.GetSymbol("lst").(boltz.RuntimeEntitySetSymbol)
			_ = sym.OpenCursor(tx, []byte("hub")) // left undrained
			return sym.OpenCursor(tx, []byte("hub-none"))
		}})
		add(c14Kind{name: "setSymbolRuntime.OpenCursor (reopened on another row)", strSeek: true, set: []string{"zz"}, open: func() ast.SetCursor {
			sym := hst.Store.GetSymbol("lst").(boltz.RuntimeEntitySetSymbol)
			cur := sym.OpenCursor(tx, []byte("hub"))
			if cur.IsValid() {
				cur.Next()
			}
			return sym.OpenCursor(tx, []byte("hub-other"))
		}})
		add(c14Kind{name: "IterateIds", seekable: true, set: ne, open: func() ast.SetCursor { return ist.Store.IterateIds(tx, ast.BoolNodeTrue) }})
		add(c14Kind{name: "IterateValidIds", seekable: true, set: ne, open: func() ast.SetCursor { return ist.Store.IterateValidIds(tx, ast.BoolNodeTrue) }})
		xst := sc.St("items/xt")
		add(c14Kind{name: "IterateIds(extended child store)", seekable: true, set: ne, open: func() ast.SetCursor { return xst.Store.IterateIds(tx, ast.BoolNodeTrue) }})
		add(c14Kind{name: "IterateValidIds(extended child store)", seekable: true, set: odd, open: func() ast.SetCursor { return xst.Store.IterateValidIds(tx, ast.BoolNodeTrue) }})
		pst := sc.St("items/pk")
		add(c14Kind{name: "IterateIds(plain child store)", seekable: true, set: plainKids, open: func() ast.SetCursor { return pst.Store.IterateIds(tx, ast.BoolNodeTrue) }})
		add(c14Kind{name: "IterateValidIds(plain child store)", seekable: true, set: plainKids, open: func() ast.SetCursor { return pst.Store.IterateValidIds(tx, ast.BoolNodeTrue) }})
		if fq, err := ast.Parse(ist.Store, `anyOf(roles) = "odd"`); err == nil {
			add(c14Kind{name: "IterateIds(filtered)", seekable: true, set: odd, open: func() ast.SetCursor { return ist.Store.IterateIds(tx, fq) }})
		}
		var filtered []string
		for _, s := range set {
			if len(s)%2 == 1 {
				filtered = append(filtered, s)
			}
		}
		add(c14Kind{name: "NewFilteredCursor", set: filtered, open: func() ast.SetCursor {
			return ast.NewFilteredCursor(typedB.OpenTypedCursor(tx, true), func(v []byte) bool { return len(v)%2 == 1 })
		}})
		add(c14Kind{name: "IteratorMatchingAnyOf/1", set: ne, open: func() ast.SetCursor { return ist.Store.IteratorMatchingAnyOf(roles, []string{"r"})(tx, true) }})
		add(c14Kind{name: "IteratorMatchingAllOf/1", set: odd, open: func() ast.SetCursor { return ist.Store.IteratorMatchingAllOf(roles, []string{"odd"})(tx, true) }})
		add(c14Kind{name: "IteratorMatchingAllOf/2", set: both, open: func() ast.SetCursor { return ist.Store.IteratorMatchingAllOf(roles, []string{"r", "odd"})(tx, true) }})
		// the same providers asked for the descending direction (what a scan does for `sort by id desc`)
		add(c14Kind{name: "IteratorMatchingAllOf/1/rev", reverse: true, set: odd, open: func() ast.SetCursor { return ist.Store.IteratorMatchingAllOf(roles, []string{"odd"})(tx, false) }})
		add(c14Kind{name: "IteratorMatchingAllOf/2/rev", reverse: true, set: both, open: func() ast.SetCursor { return ist.Store.IteratorMatchingAllOf(roles, []string{"r", "odd"})(tx, false) }})
		add(c14Kind{name: "IteratorMatchingAllOf/2/rev", reverse: true, set: both, open: func() ast.SetCursor { return ist.Store.IteratorMatchingAllOf(roles, []string{"odd", "r"})(tx, false) }})
		for _, vals := range [][]string{{"r", "odd", "hi"}, {"hi", "odd", "r"}, {"odd", "hi", "r"}} {
			vals := vals
			add(c14Kind{name: "IteratorMatchingAllOf/3/rev", reverse: true, set: oddHi, open: func() ast.SetCursor { return ist.Store.IteratorMatchingAllOf(roles, vals)(tx, false) }})
		}
		// three and four required values in every order (the first one picks the index bucket, the rest filter), with a repeat
		for pi, vals := range [][]string{{"r", "odd", "hi"}, {"r", "hi", "odd"}, {"odd", "r", "hi"}, {"odd", "hi", "r"}, {"hi", "r", "odd"}, {"hi", "odd", "r"}, {"hi", "r", "odd", "hi"}, {"r", "r", "odd", "hi"}} {
			vals := vals
			add(c14Kind{name: fmt.Sprintf("IteratorMatchingAllOf/3 order %d", pi), set: oddHi, open: func() ast.SetCursor { return ist.Store.IteratorMatchingAllOf(roles, vals)(tx, true) }})
		}
		for _, rev := range []bool{false, true} {
			rev := rev
			add(c14Kind{name: "IteratorMatchingAnyOf/3", reverse: rev, set: sortedUnion(hi, odd), open: func() ast.SetCursor {
				return ist.Store.IteratorMatchingAnyOf(roles, []string{"hi", "odd", "no-such-role"})(tx, !rev)
			}})
		}
		add(c14Kind{name: "EmptyCursor", seekable: true, set: nil, open: func() ast.SetCursor { return ast.EmptyCursor }})
		add(c14Kind{name: "EmptyCursor", set: nil, open: func() ast.SetCursor { return ast.NewEmptyCursor() }})
		add(c14Kind{name: "EmptyCursor", set: nil, open: func() ast.SetCursor { return ast.OpenEmptyCursor(tx, true) }})
		add(c14Kind{name: "EmptyCursor", set: nil, open: func() ast.SetCursor { return ist.Store.IteratorMatchingAnyOf(roles, nil)(tx, true) }})
		add(c14Kind{name: "EmptyCursor", set: nil, open: func() ast.SetCursor { return roles.OpenValueCursor(tx, []byte("no-such-role"), true) }})
		add(c14Kind{name: "EmptyCursor", set: nil, open: func() ast.SetCursor { return hst.Store.GetRelatedEntitiesCursor(tx, "missing-hub", "lst", true) }})
		for _, k := range kinds {
			driveCursor(c, r, k, info)
			if len(k.name) > 17 && k.name[:17] == "NewUnionSetCursor" {
				for i := 0; i < 6; i++ {
					driveCursor(c, r, k, info)
				}
			}
		}
		// stacked cursor of a dotted set symbol: hub.items.tags -> multiset of the items' tags
		{
			var exp []string
			for _, s := range ne {
				exp = append(exp, "t-"+s, "shared")
			}
			sort.Strings(exp)
			sym, ok := hst.Store.GetSymbol("items.tags").(boltz.RuntimeEntitySetSymbol)
			c.Eval()
			if !ok {
				c.Violationf("C14 stackedCursor(dotted set): symbol not available", info, "GetSymbol(items.tags) = %T", hst.Store.GetSymbol("items.tags"))
			} else {
				var got []string
				for cur := sym.OpenCursor(tx, []byte("hub")); cur.IsValid(); cur.Next() {
					got = append(got, string(cur.Current()))
					if len(got) > 100 {
						break
					}
				}
				sort.Strings(got)
				if fmt.Sprint(got) != fmt.Sprint(exp) {
					c.Violationf("C14 stackedCursor(dotted set): elements differ", info, "got %q expected %q", got, exp)
				}
				c.Cover("cursor_kind", "stackedCursor(dotted set)")
			}
			// the cursor of a sub-query over a set that links the store to itself, whose predicate opens the same set
			// on the elements: count(from kids where isEmpty(kids)) - the kids without kids of their own
			for want := 0; want <= 2; want++ {
				var exp []string
				for _, s := range ne {
					n := 0
					for _, k := range kidsOf[s] {
						if len(kidsOf[k]) == 0 {
							n++
						}
					}
					if n == want {
						exp = append(exp, s)
					}
				}
				sort.Strings(exp)
				q := fmt.Sprintf("count(from kids where isEmpty(kids)) = %d", want)
				ids, _, err := ist.Store.QueryIds(tx, q)
				c.Eval()
				if err != nil || fmt.Sprint(ids) != fmt.Sprint(exp) {
					c.Violationf("C14 sub-query cursor over a set linking the store to itself: elements differ", info, "query %q: got %q err=%v, expected %q (kids %v)", q, ids, err, exp, kidsOf)
				}
			}
			c.Cover("cursor_kind", "sub-query cursor over a self-referencing set")
			// hub.items.grp: one value per item, neighbouring items share theirs: every one of them is an element
			if gsym, ok := hst.Store.GetSymbol("items.grp").(boltz.RuntimeEntitySetSymbol); ok {
				var gexp, ggot []string
				for i := range ne {
					gexp = append(gexp, fmt.Sprintf("g%d", i/3))
				}
				for cur := gsym.OpenCursor(tx, []byte("hub")); cur.IsValid() && len(ggot) <= 100; cur.Next() {
					ggot = append(ggot, string(cur.Current()))
				}
				sort.Strings(ggot)
				sort.Strings(gexp)
				c.Eval()
				if fmt.Sprint(ggot) != fmt.Sprint(gexp) {
					c.Violationf("C14 stackedCursor(dotted set ending in a scalar): elements differ", info, "got %q expected %q", ggot, gexp)
				}
				c.Cover("cursor_kind", "stackedCursor(dotted set ending in a scalar)")
			} else {
				c.Violationf("C14 stackedCursor(dotted set ending in a scalar): symbol not available", info, "GetSymbol(items.grp) = %T", hst.Store.GetSymbol("items.grp"))
			}
		}
		return nil
	})
	if c.WantSample() {
		c.Sample(map[string]any{"subset": fmt.Sprintf("%q", set), "seek_targets": len(c14Targets)})
	}
}

func cursorOrEmpty(ts *ast.TreeSet) ast.SetCursor {
	if ts.Size() == 0 {
		return ast.NewEmptyCursor()
	}
	return ts.ToCursor()
}

func sortedUnion(a, b []string) []string {
	m := map[string]bool{}
	for _, x := range a {
		m[x] = true
	}
	for _, x := range b {
		m[x] = true
	}
	var out []string
	for x := range m {
		out = append(out, x)
	}
	sort.Strings(out)
	return out
}

var _ = llrb.Tree{}
