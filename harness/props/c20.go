package props

import (
	"errors"
	"reflect"
	"sort"
	"strings"

	"github.com/openziti/storage/ast"
	"github.com/openziti/storage/boltz"
	"verif/harness/internal/core"
	"verif/harness/internal/qx"
	"verif/harness/internal/schema"
)

// symbols of the things store that can be registered non-public, and dotted ones that are public only when made so
var c20Direct = []string{"s", "ism", "ibig", "flt", "b", "t", "tags", "nums", "friends", "meta"}
var c20AlwaysPublic = map[string]bool{"id": true, "grp": true, "owner": true}

// referenced collects the symbols a query references (map elements reported by their full name). Symbols inside a
// sub-query (its predicate at any depth and its sort clause) go to inner.
func referenced(e qx.Expr, out, inner map[string]bool) {
	sub := func(sq *qx.SubQ) {
		out[sq.Set] = true
		// a sub-query over a set that links the store to itself ranges over the store's own entities: its names are
		// names of the validated store like the outer ones
		in := inner
		if sq.Set == "peers" {
			in = out
		}
		if sq.Q != nil {
			if sq.Q.Pred != nil {
				referenced(sq.Q.Pred, in, inner)
			}
			for _, f := range sq.Q.Sort {
				in[f.Sym] = true
			}
		}
	}
	switch x := e.(type) {
	case qx.And:
		referenced(x.L, out, inner)
		referenced(x.R, out, inner)
	case qx.Or:
		referenced(x.L, out, inner)
		referenced(x.R, out, inner)
	case qx.Not:
		referenced(x.E, out, inner)
	case qx.BoolSym:
		out[x.Name] = true
	case qx.Cmp:
		if x.L.Sub != nil {
			sub(x.L.Sub)
		} else {
			out[x.L.Sym] = true
		}
	case qx.IsEmpty:
		if x.Sub != nil {
			sub(x.Sub)
		} else {
			out[x.Sym] = true
		}
	}
}

// innerPublicExpected: the statement asks that every referenced symbol, at any nesting depth, is public FOR THE STORE the
// query is validated against. A name inside a sub-query is therefore judged by that store's visibility of the same
// name; a name the store does not know is not public for it.
func innerPublicExpected(sym string, private map[string]bool, publicDotted map[string]bool) bool {
	known := c20AlwaysPublic[sym] || strings.HasPrefix(sym, "meta.")
	for _, d := range c20Direct {
		if d == sym {
			known = true
		}
	}
	if !known {
		return false
	}
	return isPublicExpected(sym, private, publicDotted)
}

// shapeSubQueries rewrites the sub-queries of a generated filter: the inner predicate is kept as generated (symbols of the
// linked store), or replaced by `true`, or by a predicate over names the outer store also knows (id, tags); half of them
// get a sort clause over inner names.
func shapeSubQueries(e qx.Expr, r *core.Rand) qx.Expr {
	shape := func(sq *qx.SubQ) *qx.SubQ {
		q := &qx.Query{Pred: sq.Q.Pred, Skip: sq.Q.Skip, Limit: sq.Q.Limit}
		switch r.Intn(4) {
		case 0:
			q.Pred = qx.Const{V: true}
		case 1:
			q.Pred = qx.Cmp{L: qx.LHS{Kind: "sym", Sym: "id"}, Op: "!=", R: []qx.Lit{qx.LStr("x")}}
		case 2:
			q.Pred = qx.Cmp{L: qx.LHS{Kind: "anyOf", Sym: "tags"}, Op: "=", R: []qx.Lit{qx.LStr("x")}}
		}
		if r.Bool() {
			for i, n := 0, 1+r.Intn(2); i < n; i++ {
				q.Sort = append(q.Sort, qx.SortF{Sym: core.Pick(r, []string{"id", "name", "rank"}), Dir: core.Pick(r, []string{"", "asc", "desc"})})
			}
		}
		return &qx.SubQ{Set: sq.Set, Q: q}
	}
	switch x := e.(type) {
	case qx.And:
		return qx.And{L: shapeSubQueries(x.L, r), R: shapeSubQueries(x.R, r)}
	case qx.Or:
		return qx.Or{L: shapeSubQueries(x.L, r), R: shapeSubQueries(x.R, r)}
	case qx.Not:
		return qx.Not{E: shapeSubQueries(x.E, r)}
	case qx.Cmp:
		if x.L.Sub != nil {
			x.L.Sub = shape(x.L.Sub)
		}
		if (x.L.Kind == "count" || x.L.Kind == "anyOf" || x.L.Kind == "allOf") && r.P(0.25) {
			// a null test of a set function (over a set, a dotted set or a sub-query): what it references is referenced all the same
			x.Op, x.R = core.Pick(r, []string{"=", "!="}), []qx.Lit{qx.LNull()}
		}
		return x
	case qx.IsEmpty:
		if x.Sub != nil {
			x.Sub = shape(x.Sub)
		}
		return x
	}
	return e
}

// census records which Visitor callbacks a query reaches.
type census struct {
	ast.DefaultVisitor
}

func isPublicExpected(sym string, private map[string]bool, publicDotted map[string]bool) bool {
	if c20AlwaysPublic[sym] {
		return true
	}
	if strings.HasPrefix(sym, "meta.") {
		return !private["meta"]
	}
	if strings.Contains(sym, ".") {
		return publicDotted[sym]
	}
	return !private[sym]
}

// buildC20Store builds the things store with the given symbols non-public, or (viaChild) a child store layered on it
// that is granted the parent's symbols (scalars, sets, the map symbol) and their visibility.
func contains(l []string, s string) bool {
	for _, x := range l {
		if x == s {
			return true
		}
	}
	return false
}

func buildC20Store(private map[string]bool, publicDotted map[string]bool, viaChild bool) *schema.St {
	defs := qx.DefsPrivate(private)
	if viaChild {
		defs = append(defs, &schema.StoreDef{Type: qx.Things, Parent: qx.Things, ChildPath: []string{"kid"}, Fields: []schema.Field{{Name: "extra", Kind: schema.KStr}}})
	}
	sc := schema.Build(defs)
	st := sc.St(qx.Things)
	if viaChild {
		st = sc.St(qx.Things + "/kid")
	}
	for d := range publicDotted {
		st.Store.MakeSymbolPublic(d)
	}
	// value mappers attached to symbols (public and non-public ones alike) do not change who may use them
	if c20Mappers {
		for _, name := range []string{"s", "grp"} {
			st.Store.MapSymbol(name, boltz.NotNilStringMapper{})
		}
	}
	return st
}

// c20Mappers: stores are built with value mappers on their string symbols (set per case; workers run one case at a time).
var c20Mappers bool

var c20NodeKinds = []string{"*ast.AndExprNode", "*ast.OrExprNode", "*ast.NotExprNode", "*ast.BinaryBoolExprNode", "*ast.BinaryDatetimeExprNode", "*ast.BinaryFloat64ExprNode", "*ast.BinaryInt64ExprNode", "*ast.BinaryStringExprNode",
	"*ast.IsNilExprNode", "*ast.Int64BetweenExprNode", "*ast.Float64BetweenExprNode", "*ast.DatetimeBetweenExprNode", "*ast.InDatetimeArrayExprNode", "*ast.InFloat64ArrayExprNode", "*ast.InInt64ArrayExprNode", "*ast.InStringArrayExprNode",
	"*ast.AllOfSetExprNode", "*ast.AnyOfSetExprNode", "*ast.CountSetExprNode", "*ast.IsEmptySetExprNode", "*ast.BoolSymbolNode", "*ast.DatetimeSymbolNode", "*ast.Float64SymbolNode", "*ast.Int64SymbolNode", "*ast.StringSymbolNode",
	"*ast.AnyTypeSymbolNode", "*ast.Int64ToFloat64Node", "*ast.StringFuncNode", "*ast.SortFieldNode", "*ast.BoolConstNode", "*ast.queryNode"}

// walkKinds lists the node types of a typed query by reflection (independent of Accept).
func walkKinds(v reflect.Value, out map[string]bool, depth int) {
	if depth > 40 || !v.IsValid() {
		return
	}
	switch v.Kind() {
	case reflect.Interface, reflect.Ptr:
		if v.IsNil() {
			return
		}
		if v.Kind() == reflect.Ptr && v.Elem().Kind() == reflect.Struct && strings.HasPrefix(v.Type().String(), "*ast.") {
			out[v.Type().String()] = true
		}
		walkKinds(v.Elem(), out, depth+1)
	case reflect.Struct:
		for i := 0; i < v.NumField(); i++ {
			walkKinds(v.Field(i), out, depth+1)
		}
	case reflect.Slice:
		for i := 0; i < v.Len(); i++ {
			walkKinds(v.Index(i), out, depth+1)
		}
	}
}

func init() {
	core.Register(&core.Property{
		ID:    "C20",
		Level: "exploration",
		Rule: "typed queries from the C01 generator (every operator, set functions, dotted and map-element symbols, null tests, count / isEmpty incl. sub-queries whose inner predicate is generated over the linked store, constant, or over names both stores know, half of them with an inner sort clause) plus 0-3 sort fields (6-9 on a quarter of the queries: fields beyond the five a scan honours are references all the same); the referenced symbol set R is known from the generator structure. Part (b): a parent grants its symbols to two child stores, one of which then publishes names the parent keeps private: public for exactly the stores that inherited or published the name (IsPublicSymbol and validation of a filter over it through parent, child and sibling). " +
			"For each query: a store with every symbol public must accept; for every r in R that can be non-public a fresh store where exactly r is non-public (registered through AddSetSymbol / AddEntitySymbol / an un-published map / an un-published dotted symbol) must reject with an error naming r; " +
			"random assignments must reject iff R meets the non-public set and name a referenced non-public symbol. Every third query is validated against a child store that was granted the parent's symbols and their visibility (GrantSymbols) instead of the store itself. Map elements follow their map. A reflection walk over the typed tree (not using Accept) lists the node kinds produced; the run is inconclusive unless every typed node kind occurred. " +
			"non-trivial = distinct (query, assignment) pairs with at least two referenced symbols",
		Assumptions: []string{"names inside a sub-query (predicate at any depth, sort clause) are judged literally: they must be public for the store the query is validated against, a name that store does not know is not public for it", "id, the path-prefixed field and the fk field can only be registered public through the public API"},
		Plan: func(tier core.Tier, seed int64) int {
			if tier == core.Thorough {
				return 40000 + c20GrantCases*16
			}
			return 160 + c20GrantCases
		},
		Run: func(c *core.Ctx, idx int) {
			if n := map[bool]int{false: 160, true: 40000}[c.Tier == core.Thorough]; idx >= n {
				c20GrantCase(c, idx-n)
				return
			}
			runC20(c, idx)
		},
		Promises: func(core.Tier) map[string][]string {
			return map[string][]string{"node_kind": c20NodeKinds, "position": {"sort-field", "sort-field beyond the fifth", "set-function", "in-subject", "between-subject", "contains-subject", "null-test", "subquery-set", "map-element", "dotted", "nested-depth-3", "inside-subquery"}}
		},
		MinCounters: func(core.Tier) map[string]int64 {
			return map[string]int64{"single_private_rejections": 1500, "all_public_accepts": 800, "inner_symbol_rejections": 12, "validated_through_child_store": 300}
		},
	})
}

func runC20(c *core.Ctx, idx int) {
	r := c.Rand()
	c20Mappers = idx%3 == 1
	if c20Mappers {
		c.Count("cases_with_value_mappers", 1)
	}
	defer func() { c20Mappers = false }()
	w := qx.GenWorld(r, 3, true)
	g := &qx.Gen{R: r, W: w, Store: qx.Things}
	allPublic := buildC20Store(nil, nil, false)
	allPublicChild := buildC20Store(nil, nil, true)
	for k := 0; k < 12; k++ {
		viaChild := k%3 == 2 // every third query is validated against a child store granted the parent's symbols
		if viaChild {
			c.Count("validated_through_child_store", 1)
		}
		depth := r.Intn(4)
		e := shapeSubQueries(g.Expr(depth), r)
		q := &qx.Query{Pred: e}
		nSort := r.Intn(4)
		if k%4 == 1 {
			nSort = 6 + r.Intn(4) // more fields than a scan honours: every one of them is still a reference
			c.Cover("position", "sort-field beyond the fifth")
		}
		for i := 0; i < nSort; i++ {
			q.Sort = append(q.Sort, qx.SortF{Sym: core.Pick(r, qx.SortSyms), Dir: core.Pick(r, []string{"", "asc", "desc"})})
		}
		text := q.Stream().Canon()
		R, inner := map[string]bool{}, map[string]bool{}
		referenced(e, R, inner)
		var innerNames []string
		for s := range inner {
			innerNames = append(innerNames, s)
		}
		sort.Strings(innerNames)
		// inner names that are not public for the validated store under a given assignment
		innerNonPublic := func(private, pd map[string]bool) []string {
			var out []string
			for _, s := range innerNames {
				if !innerPublicExpected(s, private, pd) {
					out = append(out, s)
				}
			}
			return out
		}
		if len(innerNames) > 0 {
			c.Cover("position", "inside-subquery")
		}
		for _, f := range q.Sort {
			R[f.Sym] = true
			c.Cover("position", "sort-field")
		}
		var rs []string
		for s := range R {
			rs = append(rs, s)
		}
		sort.Strings(rs)
		c20Positions(c, e, depth)
		dotted := map[string]bool{}
		for _, s := range rs {
			if strings.Contains(s, ".") && !strings.HasPrefix(s, "meta.") {
				dotted[s] = true
			}
		}
		info := map[string]any{"query": text, "referenced": rs, "referenced_inside_subqueries": innerNames}
		validate := func(private map[string]bool, publicDotted map[string]bool, st *schema.St) (error, bool) {
			if st == nil {
				st = buildC20Store(private, publicDotted, viaChild)
			}
			pq, err := ast.Parse(st.Store, text)
			if err != nil {
				c.Count("parse_rejected", 1)
				return nil, false
			}
			kinds := map[string]bool{}
			walkKinds(reflect.ValueOf(pq), kinds, 0)
			for kd := range kinds {
				c.Cover("node_kind", kd)
			}
			c.Eval()
			return boltz.ValidateSymbolsArePublic(pq, st.Store), true
		}
		// all public (dotted symbols published)
		allDotted := map[string]bool{}
		for d := range dotted {
			allDotted[d] = true
		}
		var stAll *schema.St
		if len(dotted) == 0 {
			stAll = allPublic
			if viaChild {
				stAll = allPublicChild
			}
		}
		if err, ok := validate(nil, allDotted, stAll); ok {
			inp := innerNonPublic(nil, allDotted)
			if len(inp) == 0 {
				c.Count("all_public_accepts", 1)
				if err != nil {
					c.Violationf("C20 query over public symbols rejected: "+c20Class(errSym(err), rs), info, "query %q (symbols %q all public): %v", text, rs, err)
				}
			} else {
				c.Count("inner_symbol_rejections", 1)
				if err == nil {
					c.Violationf("C20 query referencing a non-public symbol inside a sub-query accepted", info, "query %q accepted although %q (inside a sub-query) are not public for the store", text, inp)
				} else if !contains(inp, errSym(err)) {
					c.Violationf("C20 rejection names a symbol that is not a referenced non-public one (inside a sub-query)", info, "query %q: error %v, non-public inner symbols %q", text, err, inp)
				}
			}
		} else {
			continue
		}
		// exactly one non-public
		for _, s := range rs {
			if c20AlwaysPublic[s] {
				continue
			}
			private := map[string]bool{}
			pd := map[string]bool{}
			for d := range dotted {
				pd[d] = true
			}
			target := s
			switch {
			case strings.HasPrefix(s, "meta."):
				private["meta"] = true
			case strings.Contains(s, "."):
				delete(pd, s)
			default:
				private[s] = true
			}
			err, ok := validate(private, pd, nil)
			if !ok {
				continue
			}
			c.Count("single_private_rejections", 1)
			if len(rs) >= 2 {
				c.Nontrivial(text, s)
			}
			// other referenced symbols that become non-public together with the target (elements of the same map)
			allowed := map[string]bool{}
			for _, o := range rs {
				if !isPublicExpected(o, private, pd) {
					allowed[o] = true
				}
			}
			for _, o := range innerNonPublic(private, pd) {
				allowed[o] = true
			}
			if err == nil {
				c.Violationf("C20 query referencing a non-public symbol accepted: "+c20Class(target, rs), map[string]any{"query": text, "referenced": rs, "non_public": target},
					"query %q accepted although %q is not public", text, target)
			} else if !allowed[errSym(err)] {
				c.Violationf("C20 rejection names a symbol that is not a referenced non-public one: "+c20Class(target, rs), map[string]any{"query": text, "referenced": rs, "non_public": target},
					"query %q: error %v, non-public referenced symbols %v", text, err, allowed)
			}
		}
		// a random assignment
		private := map[string]bool{}
		for _, s := range core.Subset(r, c20Direct, 0.3) {
			private[s] = true
		}
		pd := map[string]bool{}
		for d := range dotted {
			if r.Bool() {
				pd[d] = true
			}
		}
		if err, ok := validate(private, pd, nil); ok {
			var nonPublic []string
			for _, s := range rs {
				if !isPublicExpected(s, private, pd) {
					nonPublic = append(nonPublic, s)
				}
			}
			nonPublic = append(nonPublic, innerNonPublic(private, pd)...)
			c.Nontrivial(text, "random", len(nonPublic))
			if (err != nil) != (len(nonPublic) > 0) {
				c.Violationf("C20 random assignment: accept/reject differs from the referenced-symbol oracle", map[string]any{"query": text, "referenced": rs, "non_public": nonPublic}, "query %q: err=%v, referenced non-public symbols %q", text, err, nonPublic)
			} else if err != nil {
				found := false
				for _, s := range nonPublic {
					if s == errSym(err) {
						found = true
					}
				}
				if !found {
					c.Violationf("C20 rejection names a symbol that is not a referenced non-public one (random assignment)", map[string]any{"query": text, "referenced": rs, "non_public": nonPublic}, "query %q: %v", text, err)
				}
			}
		}
		if c.WantSample() && len(rs) >= 3 {
			c.Sample(map[string]any{"query": text, "referenced": rs})
		}
	}
	// filters whose answer does not depend on the symbol's value (an empty range, a contradiction, a tautology) still
	// reference the symbol
	for _, tc := range []struct{ sym, text string }{
		{"ibig", `ibig between 10 and 1`}, {"ism", `ism not between 7 and -1 or s = "a"`}, {"ibig", `s = "a" and ibig between 5 and -5`}, {"ibig", `ibig in [1] and ibig in [2]`},
		{"flt", `flt between 2.5 and 0.5`}, {"ibig", `ibig = 1 and ibig != 1`}, {"b", `b = true or b = false or b = null`}, {"ism", `not (ism between 3 and 1)`}, {"t", `t between datetime(2021-01-01T00:00:00Z) and datetime(2020-01-01T00:00:00Z)`},
	} {
		for _, private := range []bool{true, false} {
			st := allPublic
			if private {
				st = buildC20Store(map[string]bool{tc.sym: true}, nil, false)
			}
			fq, err := ast.Parse(st.Store, tc.text)
			if err != nil {
				c.Violationf("C20 scripted filter does not parse", tc.text, "%v", err)
				continue
			}
			verr := boltz.ValidateSymbolsArePublic(fq, st.Store)
			c.Eval()
			c.Count("filters_independent_of_the_symbols_value", 1)
			c.Cover("position", "in a filter whose answer does not depend on the symbol")
			if private {
				c.Nontrivial("indep", tc.text)
			}
			info := map[string]any{"query": tc.text, "non_public": map[bool]string{true: tc.sym, false: ""}[private]}
			if private && verr == nil {
				c.Violationf("C20 query referencing a non-public symbol accepted (the filter's answer does not depend on the symbol)", info, "query %q accepted although %q is not public", tc.text, tc.sym)
			} else if private && errSym(verr) != tc.sym {
				c.Violationf("C20 rejection names a symbol that is not a referenced non-public one (value-independent filter)", info, "%v", verr)
			} else if !private && verr != nil {
				c.Violationf("C20 query over public symbols rejected (value-independent filter)", info, "%v", verr)
			}
		}
	}
	// one store asked about several queries in a row: the verdict on a query is about that query - a sub-query with a
	// predicate is another query than the bare set function that was accepted just before
	{
		st := buildC20Store(map[string]bool{"s": true}, nil, false)
		for _, seq := range [][2]string{{`count(peers) >= 0`, `count(from peers where s = "a") >= 0`}, {`isEmpty(peers)`, `isEmpty(from peers where s != null)`}, {`count(tags) > 1`, `count(tags) > 1 and s = "a"`}} {
			first, err1 := ast.Parse(st.Store, seq[0])
			second, err2 := ast.Parse(st.Store, seq[1])
			if err1 != nil || err2 != nil {
				continue
			}
			v1 := boltz.ValidateSymbolsArePublic(first, st.Store)
			v2 := boltz.ValidateSymbolsArePublic(second, st.Store)
			c.Eval()
			c.Count("validations_in_a_row_on_one_store", 1)
			if v1 != nil {
				continue // the set itself is not public in this configuration: nothing to compare
			}
			c.Nontrivial("row", seq[1])
			if v2 == nil {
				c.Violationf("C20 query referencing a non-public symbol accepted after a similar query over public symbols was accepted by the same store", map[string]any{"first": seq[0], "second": seq[1], "non_public": "s"}, "%q accepted", seq[1])
			} else if errSym(v2) != "s" {
				c.Violationf("C20 rejection names a symbol that is not a referenced non-public one (validations in a row)", map[string]any{"first": seq[0], "second": seq[1]}, "%v", v2)
			}
		}
	}
	// sort fields taken over from another query (Query.AdoptSortFields: the caller's default sort put on a user's
	// filter) are sort fields of the query that is validated
	for k := 0; k < 4; k++ {
		sym := core.Pick(r, []string{"s", "ism", "ibig", "flt", "b", "t"})
		other := core.Pick(r, []string{"s", "ism", "ibig", "flt", "b", "t"})
		filterText := core.Pick(r, []string{`true`, other + ` != null`, other + ` != null sort by ` + other, `true sort by id`})
		sortText := `true sort by ` + sym + core.Pick(r, []string{"", " desc", ", id"})
		for _, private := range []bool{true, false} {
			st := allPublic
			if private {
				st = buildC20Store(map[string]bool{sym: true}, nil, false)
			}
			fq, err1 := ast.Parse(st.Store, filterText)
			sq, err2 := ast.Parse(st.Store, sortText)
			if err1 != nil || err2 != nil {
				c.Violationf("C20 adopted sort fields: parse failed", nil, "%q: %v, %q: %v", filterText, err1, sortText, err2)
				continue
			}
			if err := fq.AdoptSortFields(sq); err != nil {
				c.Violationf("C20 adopted sort fields: AdoptSortFields between two parsed queries failed", nil, "%v", err)
				continue
			}
			verr := boltz.ValidateSymbolsArePublic(fq, st.Store)
			c.Eval()
			c.Count("adopted_sort_validations", 1)
			c.Cover("position", "sort-field adopted from another query")
			info := map[string]any{"filter": filterText, "sort_adopted_from": sortText, "non_public": map[bool]string{true: sym, false: ""}[private]}
			if fs := fq.GetSortFields(); len(fs) == 0 || fs[0].Symbol() != sym {
				c.Violationf("C20 adopted sort fields: the query does not report the adopted sort", info, "sort fields %v", fs)
			}
			if private && (sym != other || strings.Contains(filterText, "true")) {
				c.Nontrivial("adopted", sym, filterText)
			}
			if private && verr == nil {
				c.Violationf("C20 query sorting by a non-public symbol accepted (sort fields adopted from another query)", info, "filter %q sorted like %q accepted although %q is not public", filterText, sortText, sym)
			} else if private && errSym(verr) != sym {
				c.Violationf("C20 rejection names a symbol that is not a referenced non-public one (adopted sort)", info, "%v", verr)
			} else if !private && verr != nil {
				c.Violationf("C20 query over public symbols rejected (adopted sort)", info, "%v", verr)
			}
		}
	}
}

func errSym(err error) string {
	var u ast.UnknownSymbolError
	if errors.As(err, &u) {
		return u.Symbol
	}
	return "<other error: " + err.Error() + ">"
}

func c20Class(sym string, rs []string) string {
	switch {
	case strings.HasPrefix(sym, "meta."):
		return "map element"
	case strings.Contains(sym, "."):
		return "dotted symbol"
	case sym == "tags" || sym == "nums" || sym == "friends":
		return "set symbol"
	}
	return "scalar symbol"
}

func c20Positions(c *core.Ctx, e qx.Expr, depth int) {
	if depth >= 3 {
		c.Cover("position", "nested-depth-3")
	}
	var walk func(e qx.Expr)
	walk = func(e qx.Expr) {
		switch x := e.(type) {
		case qx.And:
			walk(x.L)
			walk(x.R)
		case qx.Or:
			walk(x.L)
			walk(x.R)
		case qx.Not:
			walk(x.E)
		case qx.Cmp:
			if x.L.Kind != "sym" {
				c.Cover("position", "set-function")
			}
			if x.L.Sub != nil {
				c.Cover("position", "subquery-set")
			}
			if strings.HasPrefix(x.L.Sym, "meta.") {
				c.Cover("position", "map-element")
			} else if strings.Contains(x.L.Sym, ".") {
				c.Cover("position", "dotted")
			}
			switch x.Op {
			case "in", "not in":
				c.Cover("position", "in-subject")
			case "between", "not between":
				c.Cover("position", "between-subject")
			case "contains", "not contains", "icontains", "not icontains":
				c.Cover("position", "contains-subject")
			}
			if len(x.R) == 1 && x.R[0].IsNull {
				c.Cover("position", "null-test")
			}
		case qx.IsEmpty:
			c.Cover("position", "set-function")
			if x.Sub != nil {
				c.Cover("position", "subquery-set")
			}
		}
	}
	walk(e)
}
