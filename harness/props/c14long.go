package props

import (
	"fmt"
	"os"
	"strings"

	"github.com/openziti/storage/ast"
	"github.com/openziti/storage/boltz"
	"go.etcd.io/bbolt"
	"verif/harness/internal/core"
)

// C14 part (b): long elements. Sets of byte strings around 31-33, 63-65, 127-129 and 255-257 bytes which share all
// but their last bytes, under the typed bolt cursors and the string list cursors, with seek targets of the same
// lengths (any fixed-size buffer on the seek path has its boundary somewhere there).
const c14LongCases = 8

func c14Long(c *core.Ctx, idx int) {
	r := c.Rand()
	if idx%4 == 1 {
		c14BigTree(c, idx)
	}
	base := []int{32, 64, 128, 256}[idx%4]
	p := func(n int, tail string) string { return strings.Repeat("k", n-len(tail)) + tail }
	set := []string{p(base-1, ""), p(base, "a"), p(base, "m"), p(base, "z"), p(base+1, "mm"), p(base+1, "za")}
	targets := []string{p(base-1, ""), p(base-1, "j"), p(base, "a"), p(base, "b"), p(base, "l"), p(base, "m"), p(base, "n"), p(base, "z"), p(base, "zz")[:base], p(base+1, "ma"), p(base+1, "mm"), p(base+1, "mz"), p(base+1, "zb"), p(base+2, "")}
	// a random subset keeps at least three elements
	var sub []string
	for _, s := range set {
		if r.P(0.75) {
			sub = append(sub, s)
		}
	}
	if len(sub) < 3 {
		sub = set
	}
	path := c.TempFile("c14l")
	db, err := bbolt.Open(path, 0600, nil)
	if err != nil {
		c.Violation("C14 setup", err.Error(), nil)
		return
	}
	defer func() { _ = db.Close(); _ = os.Remove(path) }()
	_ = db.Update(func(tx *bbolt.Tx) error {
		b, _ := tx.CreateBucketIfNotExists([]byte("typed"))
		for _, s := range sub {
			if err := b.Put(boltz.PrependFieldType(boltz.TypeString, []byte(s)), nil); err != nil {
				return err
			}
		}
		return nil
	})
	saved := c14Targets
	c14Targets = targets
	defer func() { c14Targets = saved }()
	info := map[string]any{"element_length_around": base, "elements": len(sub)}
	_ = db.View(func(tx *bbolt.Tx) error {
		typedB := boltz.Path(tx, "typed")
		for _, rev := range []bool{false, true} {
			rev := rev
			dir := map[bool]string{false: "fwd", true: "rev"}[rev]
			for _, k := range []c14Kind{
				{name: "TypedBucket.OpenTypedCursor/" + dir + " (long elements)", reverse: rev, seekable: true, set: sub, open: func() ast.SetCursor { return typedB.OpenTypedCursor(tx, !rev) }},
				{name: "TypedBucket.IterateStringListInDirection/" + dir + " (long elements)", reverse: rev, seekable: true, set: sub, open: func() ast.SetCursor { return typedB.IterateStringListInDirection(!rev) }},
				{name: "NewTypedBoltCursor/" + dir + " (long elements)", reverse: rev, seekable: true, set: sub, open: func() ast.SetCursor {
					if rev {
						return boltz.NewTypedReverseBoltCursor(typedB.Cursor(), boltz.TypeString)
					}
					return boltz.NewTypedForwardBoltCursor(typedB.Cursor(), boltz.TypeString)
				}},
			} {
				driveCursor(c, r, k, info)
			}
		}
		return nil
	})
}

// c14BigTree: tree sets of tens of thousands of elements (the set an anyOf iterator over many values, or a large result,
// is collected in), filled in ascending, descending and scattered order, enumerated in both directions: every element
// once, in order, and a Seek into the middle lands where the sorted slice says.
func c14BigTree(c *core.Ctx, idx int) {
	n := 40000 + 5000*(idx%3)
	keys := make([]string, n)
	for i := range keys {
		keys[i] = fmt.Sprintf("k%07d", i)
	}
	for _, fill := range []string{"ascending", "descending", "scattered"} {
		for _, forward := range []bool{true, false} {
			ts := ast.NewTreeSet(forward)
			for i := 0; i < n; i++ {
				j := i
				switch fill {
				case "descending":
					j = n - 1 - i
				case "scattered":
					j = (i * 7919) % n
				}
				ts.Add([]byte(keys[j]))
			}
			what := fmt.Sprintf("TreeSet.ToCursor over %d elements filled in %s order, forward=%v", n, fill, forward)
			func() {
				defer func() {
					if rec := recover(); rec != nil {
						c.Violationf("C14 a large tree set's cursor panics", what, "%v", rec)
					}
				}()
				cur := cursorOrEmpty(ts)
				count := 0
				for ; cur.IsValid(); cur.Next() {
					want := keys[count]
					if !forward {
						want = keys[n-1-count]
					}
					if string(cur.Current()) != want {
						c.Violationf("C14 a large tree set's cursor leaves the order", what, "element %d is %q, expected %q", count, cur.Current(), want)
						return
					}
					count++
				}
				c.Eval()
				c.Count("big_tree_set_enumerations", 1)
				c.Nontrivial("bigtree", fill, forward, n)
				if count != n {
					c.Violationf("C14 a large tree set's cursor ends early", what, "%d of %d elements", count, n)
				}
			}()
		}
	}
}
