package props

import (
	"context"
	"errors"
	"fmt"
	"os"
	"sort"
	"sync"
	"time"

	"github.com/openziti/storage/boltz"
	"go.etcd.io/bbolt"
	"verif/harness/internal/core"
	"verif/harness/internal/schema"
)

// C07 part (d): one MutateContext carried through several transactions (a caller that retries after a failure, or
// keeps its request context for follow-up work). Every transaction registers a pre-commit action and a commit action
// of its own. Whatever the sequence of committed and failed transactions:
//   - a commit action runs exactly once if its transaction committed and never if it failed - not later either, when
//     the same context commits something else;
//   - a pre-commit action runs inside the transaction which registered it, at most once per attempt (Db.Batch runs a
//     failing function a second time on its own);
//   - a failed transaction leaves the database as it was.
const c07ReuseCases = 24

// c07OverlapCase: the next transaction on the context starts while the commit actions of the previous one are still
// running (the first action of every transaction waits until the following transaction is over). Every transaction
// registers two commit actions: each runs exactly once iff its transaction committed.
func c07OverlapCase(c *core.Ctx, idx int) { overlapCase(c, idx, "C07") }

// overlapCase is shared by C07 (actions of failed transactions) and C08 (commit actions once per committed transaction).
func overlapCase(c *core.Ctx, idx int, prop string) {
	r := c.Rand()
	def := &schema.StoreDef{Type: "boxes", BasePath: []string{"stores"}, Fields: []schema.Field{{Name: "label", Kind: schema.KStr}},
		Unique: []schema.UniqueDef{{Field: "label", Nullable: true}}}
	sc := schema.Build([]*schema.StoreDef{def})
	path := c.TempFile("c07o")
	db, err := sc.OpenDb(path)
	if err != nil {
		c.Violation(prop+" setup", err.Error(), nil)
		return
	}
	defer func() { _ = db.Close(); _ = os.Remove(path) }()
	st := sc.St("boxes")
	ctx := boltz.NewMutateContext(context.Background())
	var mu sync.Mutex
	runs := map[string]int{}
	n := 3 + r.Intn(3)
	gates := make([]chan struct{}, n)
	for i := range gates {
		gates[i] = make(chan struct{})
	}
	var plan []string
	committed := map[int]bool{}
	boom := errors.New("boom")
	for t := 0; t < n; t++ {
		t := t
		kind := core.Pick(r, []string{"commits", "commits", "caller error after registering", "rejected operation"})
		plan = append(plan, kind)
		run := db.Update
		if (idx+t)%4 == 3 {
			run = db.Batch
		}
		err := run(ctx, func(mctx boltz.MutateContext) error {
			mctx.AddCommitAction(func() {
				select { // still running while the next transaction registers its actions
				case <-gates[t]:
				case <-time.After(3 * time.Second):
				}
				mu.Lock()
				runs[fmt.Sprintf("%d.a", t)]++
				mu.Unlock()
			})
			mctx.AddCommitAction(func() {
				mu.Lock()
				runs[fmt.Sprintf("%d.b", t)]++
				mu.Unlock()
			})
			if err := st.Store.Create(mctx, &schema.Ent{Id: fmt.Sprintf("b%d", t), Typ: "boxes", V: map[string]any{"label": fmt.Sprintf("l%d", t)}}); err != nil {
				return err
			}
			switch kind {
			case "rejected operation":
				return st.Store.Create(mctx, &schema.Ent{Id: fmt.Sprintf("b%d-dup", t), Typ: "boxes", V: map[string]any{"label": fmt.Sprintf("l%d", t)}})
			case "caller error after registering":
				return boom
			}
			return nil
		})
		c.Eval()
		committed[t] = err == nil
		if (err == nil) != (kind == "commits") {
			c.Violationf(prop+" context reuse: transaction outcome ("+kind+")", map[string]any{"transactions": plan}, "returned %v", err)
		}
		if t > 0 {
			close(gates[t-1]) // the previous transaction's first action may finish now
		}
	}
	close(gates[n-1])
	want := 0
	for _, ok := range committed {
		if ok {
			want += 2
		}
	}
	for i := 0; i < 500; i++ {
		mu.Lock()
		got := 0
		for _, k := range runs {
			got += k
		}
		mu.Unlock()
		if got >= want {
			break
		}
		time.Sleep(time.Millisecond)
	}
	time.Sleep(10 * time.Millisecond)
	mu.Lock()
	defer mu.Unlock()
	info := map[string]any{"transactions": plan, "commit_action_runs": fmt.Sprint(runs)}
	c.Count("context_reuse_histories_with_overlapping_commit_actions", 1)
	c.Nontrivial("c07overlap", fmt.Sprint(plan))
	for t := 0; t < n; t++ {
		for _, a := range []string{"a", "b"} {
			k := fmt.Sprintf("%d.%s", t, a)
			switch {
			case committed[t] && runs[k] != 1:
				c.Violationf(prop+" context reuse: a commit action of a committed transaction ran "+map[bool]string{true: "more than once", false: "not at all"}[runs[k] > 1]+" (next transaction started while the actions were running)", info, "action %s of transaction %d (%s): %d runs", k, t, plan[t], runs[k])
			case !committed[t] && runs[k] != 0:
				c.Violationf(prop+" context reuse: the commit action of a failed transaction ran (it started while the previous transaction's actions were running)", info, "action %s of transaction %d (%s): %d runs", k, t, plan[t], runs[k])
			}
		}
	}
}

func c07ReuseCase(c *core.Ctx, idx int) {
	if idx%3 == 1 {
		c07OverlapCase(c, idx)
		return
	}
	r := c.Rand()
	def := &schema.StoreDef{Type: "boxes", BasePath: []string{"stores"}, Fields: []schema.Field{{Name: "label", Kind: schema.KStr}, {Name: "parent", Kind: schema.KStr, FK: "boxes"}},
		Unique: []schema.UniqueDef{{Field: "label", Nullable: true}},
		FKs:    []schema.FKDef{{Field: "parent", Target: "boxes", Kind: schema.FkConstraint, Nullable: true, Cascade: int(boltz.CascadeNone)}}}
	sc := schema.Build([]*schema.StoreDef{def})
	path := c.TempFile("c07r")
	db, err := sc.OpenDb(path)
	if err != nil {
		c.Violation("C07 setup", err.Error(), nil)
		return
	}
	defer func() { _ = db.Close(); _ = os.Remove(path) }()
	st := sc.St("boxes")
	ctx := boltz.NewMutateContext(context.Background())
	if idx%4 == 3 {
		ctx = boltz.NewSystemMutateContext(ctx)
	}
	type ran struct {
		Action string `json:"action"` // "commit 2" / "pre-commit 2": registered by transaction 2
		During int    `json:"during"` // the transaction that was running (pre-commit) or had last finished (commit)
	}
	var mu sync.Mutex
	var log []ran
	current := -1
	kinds := []string{"commits", "caller error", "rejected operation", "pre-commit action fails", "commits", "caller error after registering", "caller panics after registering"}
	n := 3 + r.Intn(4)
	var plan []string
	committed := map[int]bool{}
	attempts := map[int]int{}
	boom := errors.New("boom")
	for t := 0; t < n; t++ {
		kind := core.Pick(r, kinds)
		batch := (idx+t)%3 == 2
		// half of the cases begin with a transaction whose function panics (through Db.Batch or Db.Update), followed by
		// one that commits
		if (idx/3)%2 == 0 && t < 2 {
			kind, batch = []string{"caller panics after registering", "commits"}[t], (idx/6)%2 == 0 && t == 0
		}
		plan = append(plan, kind)
		run := db.Update
		if batch {
			run = db.Batch
		}
		mu.Lock()
		current = t
		mu.Unlock()
		t := t
		guarded := func(ctx boltz.MutateContext, fn func(boltz.MutateContext) error) (err error) {
			// the caller recovers from a panic of its own transaction function and goes on with the context
			defer func() {
				if rec := recover(); rec != nil {
					err = fmt.Errorf("recovered: %v", rec)
				}
			}()
			return run(ctx, fn)
		}
		err := guarded(ctx, func(mctx boltz.MutateContext) error {
			attempts[t]++ // Db.Batch runs a failing function a second time on its own (bbolt's contract)
			if kind == "caller error" {
				return boom // fails before anything is registered
			}
			mctx.AddPreCommitAction(func(boltz.MutateContext) error {
				mu.Lock()
				log = append(log, ran{fmt.Sprintf("pre-commit %d", t), current})
				mu.Unlock()
				if kind == "pre-commit action fails" {
					return boom
				}
				return nil
			})
			mctx.AddCommitAction(func() {
				mu.Lock()
				log = append(log, ran{fmt.Sprintf("commit %d", t), current})
				mu.Unlock()
			})
			if err := st.Store.Create(mctx, &schema.Ent{Id: fmt.Sprintf("b%d", t), Typ: "boxes", V: map[string]any{"label": fmt.Sprintf("l%d", t)}}); err != nil {
				return err
			}
			switch kind {
			case "rejected operation":
				return st.Store.Create(mctx, &schema.Ent{Id: fmt.Sprintf("b%d-dup", t), Typ: "boxes", V: map[string]any{"label": fmt.Sprintf("l%d", t)}})
			case "caller error after registering":
				return boom
			case "caller panics after registering":
				panic("boom")
			}
			return nil
		})
		c.Eval()
		info := map[string]any{"transactions": plan, "transaction": t, "via_batch": batch, "system_context": idx%4 == 3}
		if (err == nil) != (kind == "commits") {
			c.Violationf("C07 context reuse: transaction outcome ("+kind+")", info, "returned %v", err)
			return
		}
		committed[t] = err == nil
		c.Cover("reuse_step", fmt.Sprintf("%s after %d earlier transactions on the context", kind, min(t, 2)))
		// commit actions run asynchronously after the commit: let them finish before the next transaction starts, so
		// that "during" is unambiguous
		want := 0
		for tt, ok := range committed {
			if ok && tt <= t {
				want++
			}
		}
		for i := 0; i < 300; i++ {
			mu.Lock()
			got := 0
			for _, e := range log {
				if len(e.Action) > 6 && e.Action[:6] == "commit" {
					got++
				}
			}
			mu.Unlock()
			if got >= want {
				break
			}
			time.Sleep(time.Millisecond)
		}
		time.Sleep(2 * time.Millisecond)
	}
	// what a rolled back transaction created is not there for the next transaction on the same context: a reference to
	// it is refused like any reference to a missing entity
	{
		mk := func(id, parent string) *schema.Ent {
			v := map[string]any{"label": "l-" + id}
			if parent != "" {
				v["parent"] = parent
			}
			return &schema.Ent{Id: id, Typ: "boxes", V: v}
		}
		run := db.Update
		if idx%2 == 1 {
			run = db.Batch
		}
		err1 := run(ctx, func(mctx boltz.MutateContext) error {
			if err := st.Store.Create(mctx, mk("target", "")); err != nil {
				return err
			}
			if err := st.Store.Create(mctx, mk("referrer", "target")); err != nil {
				return err
			}
			return boom
		})
		err2 := run(ctx, func(mctx boltz.MutateContext) error { return st.Store.Create(mctx, mk("referrer-two", "target")) })
		c.Eval()
		c.Count("references_to_entities_of_a_rolled_back_transaction", 1)
		present := false
		_ = db.View(func(tx *bbolt.Tx) error {
			present = st.Store.IsEntityPresent(tx, "referrer-two") || st.Store.IsEntityPresent(tx, "target")
			return nil
		})
		if err1 == nil || err2 == nil || present {
			c.Violationf("C07 context reuse: an entity created by a rolled back transaction is a valid reference target for the next transaction on the same context", map[string]any{"via_batch": idx%2 == 1, "system_context": idx%4 == 3},
				"first transaction (rolled back by the caller) returned %v, the create referencing its entity returned %v, something of it present afterwards: %v", err1, err2, present)
		}
	}
	mu.Lock()
	defer mu.Unlock()
	info := map[string]any{"transactions": plan, "actions_run": log, "system_context": idx%4 == 3}
	c.Nontrivial("c07reuse", fmt.Sprint(plan))
	c.Count("context_reuse_histories", 1)
	count := map[string]int{}
	for _, e := range log {
		count[e.Action]++
		var reg int
		var what string
		if _, err := fmt.Sscanf(e.Action, "pre-commit %d", &reg); err == nil {
			what = "pre-commit"
		} else if _, err := fmt.Sscanf(e.Action, "commit %d", &reg); err == nil {
			what = "commit"
		}
		if e.During != reg {
			c.Violationf("C07 context reuse: a "+what+" action ran with a later transaction of the same context (its own transaction: "+plan[reg]+")", info, "%s ran during / after transaction %d (%s)", e.Action, e.During, plan[e.During])
		}
		if what == "commit" && !committed[reg] {
			c.Violationf("C07 context reuse: the commit action of a failed transaction ran ("+plan[reg]+")", info, "%s", e.Action)
		}
	}
	var names []string
	for a := range count {
		names = append(names, a)
	}
	sort.Strings(names)
	for _, a := range names {
		allowed := 1
		var reg int
		if _, err := fmt.Sscanf(a, "pre-commit %d", &reg); err == nil {
			allowed = attempts[reg] // once per attempt of its transaction
		}
		if count[a] > allowed {
			c.Violationf("C07 context reuse: an action ran more often than its transaction was attempted", info, "%s ran %d times, %d attempt(s)", a, count[a], allowed)
		}
	}
	for t, ok := range committed {
		if ok && count[fmt.Sprintf("commit %d", t)] == 0 {
			c.Violationf("C07 context reuse: the commit action of a committed transaction did not run", info, "transaction %d", t)
		}
	}
}
