package props

import (
	"fmt"
	"strings"

	"github.com/openziti/storage/ast"
	"github.com/openziti/storage/boltz"
	"go.etcd.io/bbolt"
	"os"
	"time"
	"verif/harness/internal/core"
	"verif/harness/internal/memsym"
	"verif/harness/internal/ql"
	"verif/harness/internal/schema"
)

// A skeleton is a flat chain of operands joined by and / or; an operand is an atom, a parenthesised
// skeleton, or `not (skeleton)`. The oracle evaluates the structure with `and` binding tighter than `or`.
type skel struct {
	Operands []operand
	Ops      []string // len(Operands)-1, "and" / "or"
}

type operand struct {
	Atom  int // >= 0: atom index
	Sub   *skel
	Neg   bool // not ( Sub )
	Paren bool // ( Sub ) ; for atoms: ( atom )
}

func (s *skel) eval(asg []bool) bool {
	// or of and-groups
	result := false
	group := true
	for i, o := range s.Operands {
		v := o.eval(asg)
		if i == 0 {
			group = v
			continue
		}
		if s.Ops[i-1] == "and" {
			group = group && v
		} else {
			result = result || group
			group = v
		}
	}
	return result || group
}

func (o operand) eval(asg []bool) bool {
	if o.Sub != nil {
		v := o.Sub.eval(asg)
		if o.Neg {
			return !v
		}
		return v
	}
	return asg[o.Atom]
}

// wrongRightNested evaluates the chain the way a parser that gives and/or equal precedence and nests to the
// right would: a op1 (b op2 (c ...)). Used only to recognise the specific known wrong grouping.
func (s *skel) wrongRightNested(asg []bool) bool {
	n := len(s.Operands)
	v := s.Operands[n-1].evalWrong(asg)
	for i := n - 2; i >= 0; i-- {
		l := s.Operands[i].evalWrong(asg)
		if s.Ops[i] == "and" {
			v = l && v
		} else {
			v = l || v
		}
	}
	return v
}

func (o operand) evalWrong(asg []bool) bool {
	if o.Sub != nil {
		v := o.Sub.wrongRightNested(asg)
		if o.Neg {
			return !v
		}
		return v
	}
	return asg[o.Atom]
}

func (s *skel) stream(atom func(i int) ql.Stream) ql.Stream {
	var out ql.Stream
	for i, o := range s.Operands {
		if i > 0 {
			out = append(out, ql.G(ql.Req), ql.K(s.Ops[i-1]), ql.G(ql.Req))
		}
		st := o.stream(atom)
		if o.Neg && i < len(s.Operands)-1 {
			// `not (P) and Q`: how `not` binds relative to a following connective is not fixed by the statement;
			// the negation is parenthesised so that only `not (P)` itself is judged
			st = ql.Paren(st)
		}
		out = append(out, st...)
	}
	return out
}

func (o operand) stream(atom func(i int) ql.Stream) ql.Stream {
	var inner ql.Stream
	if o.Sub != nil {
		inner = o.Sub.stream(atom)
	} else {
		inner = atom(o.Atom)
	}
	if o.Neg {
		return ql.Not(inner)
	}
	if o.Paren || o.Sub != nil {
		return ql.Paren(inner)
	}
	return inner
}

// hasMixed reports whether some chain mixes and / or without parentheses.
func (s *skel) hasMixed() bool {
	a, o := false, false
	for _, op := range s.Ops {
		if op == "and" {
			a = true
		} else {
			o = true
		}
	}
	if a && o {
		return true
	}
	for _, x := range s.Operands {
		if x.Sub != nil && x.Sub.hasMixed() {
			return true
		}
	}
	return false
}

// and-before-or somewhere: `... and X or ...` inside one chain (the pattern the right-nesting parser gets wrong)
func (s *skel) hasAndThenOr() bool {
	seenAnd := false
	for _, op := range s.Ops {
		if op == "and" {
			seenAnd = true
		} else if seenAnd {
			return true
		}
	}
	for _, x := range s.Operands {
		if x.Sub != nil && x.Sub.hasAndThenOr() {
			return true
		}
	}
	return false
}

// enumSkels enumerates all skeletons using exactly n atoms numbered from `first`.
func enumSkels(n, first int, depth int) []*skel {
	var out []*skel
	// split n atoms into m operands of sizes k1..km
	var rec func(remaining, next int, ops []operand, opsS []string)
	rec = func(remaining, next int, opnds []operand, ops []string) {
		if remaining == 0 {
			s := &skel{Operands: append([]operand{}, opnds...), Ops: append([]string{}, ops...)}
			out = append(out, s)
			return
		}
		for k := 1; k <= remaining; k++ {
			for _, o := range enumOperands(k, next, depth) {
				if len(opnds) == 0 {
					rec(remaining-k, next+k, append(opnds, o), ops)
				} else {
					for _, op := range []string{"and", "or"} {
						rec(remaining-k, next+k, append(append([]operand{}, opnds...), o), append(append([]string{}, ops...), op))
					}
				}
			}
		}
	}
	rec(n, first, nil, nil)
	return out
}

func enumOperands(k, first, depth int) []operand {
	var out []operand
	if k == 1 {
		out = append(out, operand{Atom: first}, operand{Atom: first, Paren: true}, operand{Atom: first, Sub: nil, Neg: true})
		// not (atom): represent as Neg with a single-atom sub skeleton
		out[2] = operand{Atom: -1, Sub: &skel{Operands: []operand{{Atom: first}}}, Neg: true}
		// nested negations: not (not (a)), not (not (not (a)))
		dbl := operand{Atom: -1, Sub: &skel{Operands: []operand{out[2]}}, Neg: true}
		out = append(out, dbl, operand{Atom: -1, Sub: &skel{Operands: []operand{dbl}}, Neg: true})
		return out
	}
	if depth <= 0 {
		return nil
	}
	for _, sub := range enumSkels(k, first, depth-1) {
		if len(sub.Operands) < 2 {
			continue // single-operand groups are covered by the k==1 forms (avoid infinite nesting)
		}
		neg := operand{Atom: -1, Sub: sub, Neg: true}
		out = append(out, operand{Atom: -1, Sub: sub}, neg)
		if depth >= 2 {
			out = append(out, operand{Atom: -1, Sub: &skel{Operands: []operand{neg}}, Neg: true}) // not (not (...))
		}
	}
	return out
}

var c12SkelCache = map[int][]*skel{}

func c12Skels(maxAtoms int) []*skel {
	if v, ok := c12SkelCache[maxAtoms]; ok {
		return v
	}
	var all []*skel
	for n := 1; n <= maxAtoms; n++ {
		all = append(all, enumSkels(n, 0, 2)...)
	}
	c12SkelCache[maxAtoms] = all
	return all
}

const c12Chunk = 60

func c12Max(t core.Tier) int {
	if t == core.Thorough {
		return 4
	}
	return 3
}

// random larger skeletons (beyond the exhaustively enumerated sizes)
func c12RandomCases(t core.Tier) int {
	if t == core.Thorough {
		return 600
	}
	return 30
}

func genSkel(r *core.Rand, n, first, depth int) *skel {
	s := &skel{}
	next := first
	remaining := n
	for remaining > 0 {
		k := 1
		if remaining > 1 && depth > 0 && r.P(0.35) {
			k = 2 + r.Intn(remaining-1)
		}
		var o operand
		if k == 1 {
			switch r.Intn(4) {
			case 0:
				o = operand{Atom: next, Paren: true}
			case 1:
				o = operand{Atom: -1, Sub: &skel{Operands: []operand{{Atom: next}}}, Neg: true}
			default:
				o = operand{Atom: next}
			}
		} else {
			sub := genSkel(r, k, next, depth-1)
			for len(sub.Operands) < 2 {
				sub = genSkel(r, k, next, depth-1)
			}
			o = operand{Atom: -1, Sub: sub, Neg: r.P(0.3)}
			if o.Neg && r.P(0.3) {
				o = operand{Atom: -1, Sub: &skel{Operands: []operand{o}}, Neg: true}
			}
		}
		if len(s.Operands) > 0 {
			s.Ops = append(s.Ops, core.Pick(r, []string{"and", "or"}))
		}
		s.Operands = append(s.Operands, o)
		next += k
		remaining -= k
	}
	return s
}

func init() {
	core.Register(&core.Property{
		ID:    "C12",
		Level: "exploration",
		Rule: "all boolean skeletons with up to 3 (quick) / 4 (thorough) distinct atoms, plus seeded random skeletons with up to 5 / 6 atoms: every and/or chain, every placement of parentheses (incl. redundant ones) and of `not (...)`, nesting depth 2; each is rendered (canonical spelling and 3 re-spellings with random keyword case, " +
			"whitespace at WS positions only, redundant parentheses), parsed, and its full truth table over all 2^N assignments (atoms are bool symbols; in a second pass typed comparisons; in a third pass a rotation of 18 operation kinds: in / between / not in / not between / contains / null test / ordered comparisons that are false because the field is null / isEmpty / count and anyOf / allOf over sets whose elements lie partly inside and partly outside the list or range; in a fourth pass every atom is an isEmpty / count sub-query over the same linked set with its own inner predicate; in a fifth pass, for a third of the skeletons, every atom is a set function over ONE shared set symbol and the expression is evaluated by a bolt store over 64 entities through QueryIds and IterateIds) is compared with the table computed from the structure with and > or. " +
			"Conjunctions composed through the API (SetPredicate + NewAndExprNode) over empty, constant, sort-only and ordinary base queries are evaluated against their truth tables. Then typed query templates (every operator incl. not in / not between / not contains / not icontains, set functions, lists) are re-spelled and their results over random rows must not change. non-trivial = distinct skeletons mixing and/or or containing not/parentheses",
		Assumptions: []string{"bare `not` next to and/or (without parentheses) is not generated: the statement fixes only not (P)"},
		Exhaustive:  func(core.Tier) bool { return true },
		Plan: func(tier core.Tier, seed int64) int {
			n := len(c12Skels(c12Max(tier)))
			return (n+c12Chunk-1)/c12Chunk + c12RandomCases(tier) + 24
		},
		Run: runC12,
		Promises: func(core.Tier) map[string][]string {
			var kinds []string
			for _, k := range c12Kinds {
				kinds = append(kinds, k.name)
			}
			kinds = append(kinds, "sub-queries: isEmpty", "sub-queries: count", "sub-queries: mixed")
			return map[string][]string{"atom_kind": kinds, "shape": {"and-then-or"}}
		},
	})
}

func runC12(c *core.Ctx, idx int) {
	r := c.Rand()
	// a quarter of the cases run with the process-wide query-debug switch on: grouping and verdicts must not depend on it
	if idx%4 == 1 {
		ast.EnableQueryDebug.Store(true)
		defer ast.EnableQueryDebug.Store(false)
		c.Count("cases_with_query_debug_on", 1)
	}
	all := c12Skels(c12Max(c.Tier))
	nChunks := (len(all) + c12Chunk - 1) / c12Chunk
	tbl := memsym.NewTable()
	for i := 0; i < 7; i++ {
		tbl.Types[c12Sym("p", i)] = ast.NodeTypeBool
		tbl.Types[c12Sym("n", i)] = ast.NodeTypeInt64
		tbl.Types["mq."+c12Sym("e", i)] = ast.NodeTypeAnyType // a map element (typed per row), holding a bool
	}
	for i := 0; i < 7; i++ {
		tbl.Types[c12Sym("ts", i)] = ast.NodeTypeString
		tbl.Sets[c12Sym("ts", i)] = true
		tbl.Types[c12Sym("ns", i)] = ast.NodeTypeInt64
		tbl.Sets[c12Sym("ns", i)] = true
		tbl.Types[c12Sym("st", i)] = ast.NodeTypeString
	}
	linked := memsym.NewTable()
	linked.Types["rank"] = ast.NodeTypeInt64
	tbl.Types["ls"] = ast.NodeTypeString
	tbl.Sets["ls"] = true
	tbl.Linked["ls"] = linked
	tbl.Types["s"] = ast.NodeTypeString
	tbl.Types["f"] = ast.NodeTypeFloat64
	tbl.Types["tags"] = ast.NodeTypeString
	tbl.Sets["tags"] = true
	var batch []*skel
	switch {
	case idx < nChunks:
		end := (idx + 1) * c12Chunk
		if end > len(all) {
			end = len(all)
		}
		batch = all[idx*c12Chunk : end]
	case idx < nChunks+c12RandomCases(c.Tier):
		for i := 0; i < 40; i++ {
			n := c12Max(c.Tier) + 1 + r.Intn(2)
			batch = append(batch, genSkel(r, n, 0, 2))
		}
	default:
		c12Respell(c, r, tbl)
		return
	}
	atomBool := func(i int) ql.Stream { return ql.Stream{ql.T(c12Sym("p", i))} }
	atomCmp := func(i int) ql.Stream {
		return ql.Cmp(ql.Stream{ql.T(c12Sym("n", i))}, "=", ql.Stream{ql.T("1")})
	}
	// bolt store for the fifth pass: one entity per assignment of up to 6 atoms, whose set field holds "v<i>" for every
	// true atom; every atom of a skeleton is a set function over that ONE set symbol
	bolt := newC12Bolt(c)
	if bolt != nil {
		defer bolt.close()
	}
	variant := 0
	// fourth pass: every atom is a sub-query over the SAME linked set with its own inner predicate
	atomSub := func(i int) ql.Stream {
		inner := ql.Cmp(ql.Stream{ql.T("rank")}, "=", ql.Stream{ql.T(fmt.Sprint(i + 1))})
		sub := ql.Cat(ql.Stream{ql.K("from"), ql.G(ql.Req), ql.T("ls"), ql.G(ql.Req), ql.K("where"), ql.G(ql.Req)}, inner)
		form := variant % 3
		if form == 2 {
			form = i % 2
		}
		if form == 0 {
			return ql.Func("isEmpty", sub) // true when no linked row has this rank
		}
		return ql.Cmp(ql.Func("count", sub), ">", ql.Stream{ql.T("0")}) // true when one has
	}
	atomMixed := func(i int) ql.Stream { return c12Kinds[(i+variant)%len(c12Kinds)].text(i) }
	for ski, sk := range batch {
		n := countAtoms(sk)
		variant = idx + ski
		for pass, atom := range []func(int) ql.Stream{atomBool, atomCmp, atomMixed, atomSub} {
			if pass == 3 {
				c.Cover("atom_kind", []string{"sub-queries: isEmpty", "sub-queries: count", "sub-queries: mixed"}[variant%3])
			}
			if pass == 2 {
				for i := 0; i < n; i++ {
					c.Cover("atom_kind", c12Kinds[(i+variant)%len(c12Kinds)].name)
				}
			}
			st := sk.stream(atom)
			texts := []string{st.Canon(), st.Tight(), st.Respell(r), st.Respell(r)}
			if n >= 4 && idx < nChunks {
				texts = []string{st.Canon(), st.Respell(r)} // the large exhaustive layer: canonical + one re-spelling
			}
			for ti, text := range texts {
				q, err := ast.Parse(tbl, text)
				c.Eval()
				if err != nil {
					c.Violationf("C12 well-formed boolean expression rejected", map[string]any{"query": text}, "%q: %v", text, err)
					continue
				}
				wrong, wrongKnown := false, true
				var witness []bool
				for m := 0; m < 1<<n; m++ {
					asg := make([]bool, n)
					row := memsym.NewRow(tbl)
					for i := 0; i < n; i++ {
						asg[i] = m&(1<<i) != 0
						if pass == 3 {
							form := variant % 3
							if form == 2 {
								form = i % 2
							}
							if asg[i] == (form == 1) { // a linked row of this rank exists
								lr := memsym.NewRow(linked)
								lr.Vals["rank"] = int64(i + 1)
								row.LinkedRows["ls"] = append(row.LinkedRows["ls"], lr)
								row.SetVals["ls"] = append(row.SetVals["ls"], fmt.Sprintf("l%d", i))
							}
						} else if pass == 2 {
							c12Kinds[(i+variant)%len(c12Kinds)].set(row, i, asg[i])
						} else if pass == 0 {
							row.Vals[c12Sym("p", i)] = asg[i]
						} else if asg[i] {
							row.Vals[c12Sym("n", i)] = int64(1)
						} else {
							row.Vals[c12Sym("n", i)] = int64(0)
						}
					}
					got := q.EvalBool(row)
					if got != sk.eval(asg) {
						wrong = true
						if witness == nil {
							witness = asg
						}
					}
					if got != sk.wrongRightNested(asg) {
						wrongKnown = false
					}
				}
				if wrong {
					key := "C12 truth table differs from and-before-or grouping"
					if wrongKnown && sk.hasAndThenOr() {
						key = "C12 and-then-or chain without parentheses is grouped as a and (b or c): truth table equals the right-nested equal-precedence reading"
					}
					c.Violationf(key, map[string]any{"query": text, "spelling": ti}, "query %q: e.g. assignment %v evaluates to %v, expected %v", text, witness, !sk.eval(witness), sk.eval(witness))
				}
			}
		}
		// bool literals as operands: every other atom is spelled true / false according to the assignment (so the text
		// changes with it), the rest are bool symbols
		if n <= 4 && (idx >= nChunks || ski%2 == 0) {
			for m := 0; m < 1<<n; m++ {
				asg := make([]bool, n)
				row := memsym.NewRow(tbl)
				for i := 0; i < n; i++ {
					asg[i] = m&(1<<i) != 0
					row.Vals[c12Sym("p", i)] = asg[i]
				}
				lit := func(i int) ql.Stream {
					if (i+variant)%2 == 0 {
						return ql.Stream{ql.K(fmt.Sprint(asg[i]))}
					}
					return ql.Stream{ql.T(c12Sym("p", i))}
				}
				st := sk.stream(lit)
				for _, text := range []string{st.Canon(), st.Respell(r)} {
					q, err := ast.Parse(tbl, text)
					c.Eval()
					c.Count("expressions_with_bool_literals", 1)
					if err != nil {
						c.Violationf("C12 well-formed boolean expression rejected", map[string]any{"query": text}, "%q: %v", text, err)
						continue
					}
					if got := q.EvalBool(row); got != sk.eval(asg) {
						c.Violationf("C12 truth table differs from and-before-or grouping (bool literals among the operands)", map[string]any{"query": text}, "query %q with the symbols set to %v evaluates to %v, expected %v", text, asg, got, sk.eval(asg))
					}
				}
			}
		}
		if bolt != nil && n <= 6 && (idx >= nChunks || ski%3 == 0) {
			bolt.check(c, sk, n, variant)
		}
		if sk.hasMixed() || len(sk.Operands) == 1 {
			c.Nontrivial(sk.stream(atomBool).Canon())
		}
		if sk.hasAndThenOr() {
			c.Cover("shape", "and-then-or")
		}
		if c.WantSample() && sk.hasMixed() && n >= 3 {
			c.Sample(map[string]any{"skeleton": sk.stream(atomBool).Canon(), "respelled": sk.stream(atomCmp).Respell(r), "assignments": 1 << n})
		}
	}
}

type c12Bolt struct {
	db   *boltz.DbImpl
	st   *schema.St
	path string
}

func newC12Bolt(c *core.Ctx) *c12Bolt {
	def := &schema.StoreDef{Type: "asg", BasePath: []string{"stores"}, Fields: []schema.Field{{Name: "ts", Kind: schema.KList}}}
	sc := schema.Build([]*schema.StoreDef{def})
	path := c.TempFile("c12")
	db, err := sc.OpenDb(path)
	if err != nil {
		c.Violation("C12 setup", err.Error(), nil)
		return nil
	}
	b := &c12Bolt{db: db, st: sc.St("asg"), path: path}
	err = db.Update(nil, func(ctx boltz.MutateContext) error {
		for m := 0; m < 64; m++ {
			ts := []string{"zz"}
			for i := 0; i < 6; i++ {
				if m&(1<<i) != 0 {
					ts = append(ts, "v"+string(rune('a'+i)))
				}
			}
			if err := b.st.Store.Create(ctx, &schema.Ent{Id: fmt.Sprintf("m%02d", m), Typ: "asg", V: map[string]any{"ts": ts}}); err != nil {
				return err
			}
		}
		return nil
	})
	if err != nil {
		c.Violation("C12 setup", err.Error(), nil)
		b.close()
		return nil
	}
	return b
}

func (b *c12Bolt) close() { _ = b.db.Close(); _ = os.Remove(b.path) }

// check evaluates the skeleton through the bolt store (QueryIds and IterateIds) with every atom spelled as a set
// function over the shared set symbol, and compares the id set with the skeleton's truth table.
func (b *c12Bolt) check(c *core.Ctx, sk *skel, n, variant int) {
	atom := func(i int) ql.Stream {
		v := ql.Stream{ql.T(ql.Lit("v" + string(rune('a'+i))))}
		set := ql.Func("anyOf", ql.Stream{ql.T("ts")})
		switch (i + variant) % 3 {
		case 0:
			return ql.Cmp(set, "=", v) // seek shortcut
		case 1:
			return ql.WordOp(set, "in", ql.List([]ql.Stream{v}))
		}
		return ql.Paren(ql.Not(ql.Cmp(ql.Func("allOf", ql.Stream{ql.T("ts")}), "!=", v))) // parenthesised: a bare leading not would take the rest of the chain
	}
	text := sk.stream(atom).Canon()
	var want []string
	for m := 0; m < 64; m++ {
		asg := make([]bool, n)
		for i := 0; i < n; i++ {
			asg[i] = m&(1<<i) != 0
		}
		if sk.eval(asg) {
			want = append(want, fmt.Sprintf("m%02d", m))
		}
	}
	_ = b.db.View(func(tx *bbolt.Tx) error {
		ids, _, err := b.st.Store.QueryIds(tx, text+" limit none")
		c.Eval()
		c.Count("bolt_truth_tables", 1)
		if err != nil {
			c.Violationf("C12 well-formed boolean expression rejected", map[string]any{"query": text}, "%q: %v", text, err)
			return nil
		}
		if fmt.Sprint(ids) != fmt.Sprint(want) {
			c.Violationf("C12 truth table differs from and-before-or grouping (bolt store, atoms over one shared set symbol)", map[string]any{"query": text}, "query %q: %d ids, expected %d; got %v want %v", text, len(ids), len(want), ids, want)
			return nil
		}
		if parsed, err := ast.Parse(b.st.Store, text); err == nil {
			if got := idsOf(b.st.Store.IterateIds(tx, parsed)); fmt.Sprint(got) != fmt.Sprint(want) {
				c.Violationf("C12 truth table differs from and-before-or grouping (bolt store IterateIds, atoms over one shared set symbol)", map[string]any{"query": text}, "query %q: got %v want %v", text, got, want)
			}
		}
		return nil
	})
}

// atoms of the third pass: every operation family, with quantified set operands whose elements are partly inside and
// partly outside the list / range, so that a negation applied at the wrong level changes the value
type c12Kind struct {
	name string
	text func(i int) ql.Stream
	set  func(row *memsym.Row, i int, v bool)
}

func c12Strs(xs ...string) []any {
	var out []any
	for _, x := range xs {
		out = append(out, x)
	}
	return out
}

func c12SetKind(name, fn, prefix, op, rhs string, whenTrue, whenFalse []any) c12Kind {
	return c12Kind{name: name,
		text: func(i int) ql.Stream {
			lhs := ql.Func(fn, ql.Stream{ql.T(c12Sym(prefix, i))})
			if op == "" {
				return lhs
			}
			return c12Op(lhs, op, rhs)
		},
		set: func(row *memsym.Row, i int, v bool) {
			if v {
				row.SetVals[c12Sym(prefix, i)] = whenTrue
			} else {
				row.SetVals[c12Sym(prefix, i)] = whenFalse
			}
		}}
}

func c12ScalarKind(name, prefix, op, rhs string, whenTrue, whenFalse any) c12Kind {
	return c12Kind{name: name,
		text: func(i int) ql.Stream { return c12Op(ql.Stream{ql.T(c12Sym(prefix, i))}, op, rhs) },
		set: func(row *memsym.Row, i int, v bool) {
			val := whenFalse
			if v {
				val = whenTrue
			}
			if val == nil {
				delete(row.Vals, c12Sym(prefix, i))
			} else {
				row.Vals[c12Sym(prefix, i)] = val
			}
		}}
}

// c12Op renders lhs op rhs where rhs is a space-separated token list (word operators need required gaps).
func c12Op(lhs ql.Stream, op, rhs string) ql.Stream {
	var r ql.Stream
	for k, tok := range strings.Split(rhs, " ") {
		if k > 0 {
			r = append(r, ql.G(ql.Req))
		}
		if tok == "and" {
			r = append(r, ql.K(tok))
		} else {
			r = append(r, ql.T(tok))
		}
	}
	switch op {
	case "=", "!=", "<", ">", "<=", ">=":
		return ql.Cmp(lhs, op, r)
	}
	return ql.WordOp(lhs, op, r)
}

var c12Kinds = []c12Kind{
	// a map element holding a bool, standing on its own as an operand
	{name: "bare map element (bool)", text: func(i int) ql.Stream { return ql.Stream{ql.T("mq." + c12Sym("e", i))} },
		set: func(row *memsym.Row, i int, v bool) { row.Vals["mq."+c12Sym("e", i)] = v }},
	c12ScalarKind("int in", "n", "in", "[1, 7]", int64(1), int64(0)),
	c12ScalarKind("int between (upper bound exclusive)", "n", "between", "1 and 3", int64(1), int64(3)),
	c12SetKind("anyOf in", "anyOf", "ts", "in", `["a"]`, c12Strs("a", "b"), c12Strs("b", "c")),
	c12SetKind("allOf in", "allOf", "ts", "in", `["a", "b"]`, c12Strs("a", "b"), c12Strs("a", "c")),
	c12SetKind("anyOf between", "anyOf", "ns", "between", "1 and 3", []any{int64(1), int64(5)}, []any{int64(3), int64(5)}),
	c12SetKind("allOf not in", "allOf", "ts", "not in", `["x"]`, c12Strs("a", "b"), c12Strs("a", "x")),
	c12SetKind("anyOf not in", "anyOf", "ts", "not in", `["a"]`, c12Strs("a", "b"), c12Strs("a")),
	c12ScalarKind("contains", "st", "contains", `"x"`, "axb", "ab"),
	c12SetKind("isEmpty", "isEmpty", "ts", "", "", []any{}, c12Strs("a")),
	c12SetKind("count", "count", "ts", ">", "1", c12Strs("a", "b"), c12Strs("a")),
	c12ScalarKind("int not between", "n", "not between", "1 and 3", int64(3), int64(1)),
	c12ScalarKind("not null", "st", "!=", "null", "a", nil),
	// ordered comparisons that are false because the field is null (an ordered comparison with null is false, so its
	// negation is true - which no complementary comparison is)
	c12ScalarKind("int < (false by null)", "n", "<", "3", int64(1), nil),
	c12ScalarKind("string >= (false by null)", "st", ">=", `"a"`, "b", nil),
	c12ScalarKind("int <= (false by null)", "n", "<=", "3", int64(3), nil),
	c12ScalarKind("int > (false by null)", "n", ">", "3", int64(4), nil),
	c12SetKind("allOf not between", "allOf", "ns", "not between", "1 and 3", []any{int64(0), int64(3)}, []any{int64(0), int64(2)}),
}

func countAtoms(s *skel) int {
	n := 0
	for _, o := range s.Operands {
		if o.Sub != nil {
			n += countAtoms(o.Sub)
		} else {
			n++
		}
	}
	return n
}

// c12Compose: connectives applied to already parsed queries through the API (SetPredicate with NewAndExprNode): the
// composed query is the conjunction of what was written, whatever the base query was (empty, constant, sort-only ...).
func c12Compose(c *core.Ctx, tbl *memsym.Table) {
	bases := []struct {
		text string
		val  func(pa bool) bool
	}{{"", func(bool) bool { return true }}, {"true", func(bool) bool { return true }}, {"not false", func(bool) bool { return true }}, {"(true)", func(bool) bool { return true }},
		{"sort by na", func(bool) bool { return true }}, {"limit 5", func(bool) bool { return true }}, {"skip 1 limit 2", func(bool) bool { return true }}, {"false", func(bool) bool { return false }},
		{"pa", func(pa bool) bool { return pa }}, {"pa = true sort by na desc", func(pa bool) bool { return pa }}, {"not (pa)", func(pa bool) bool { return !pa }}}
	extras := []struct {
		text string
		val  func(na int64) bool
	}{{"na = 1", func(n int64) bool { return n == 1 }}, {"na != 1", func(n int64) bool { return n != 1 }}, {"na in [0, 2]", func(n int64) bool { return n == 0 || n == 2 }}, {"not (na = 0)", func(n int64) bool { return n != 0 }}, {"na = 1 or na = 2", func(n int64) bool { return n == 1 || n == 2 }}}
	for _, b := range bases {
		for _, x := range extras {
			for order := 0; order < 2; order++ {
				q, err1 := ast.Parse(tbl, b.text)
				xq, err2 := ast.Parse(tbl, x.text)
				c.Eval()
				if err1 != nil || err2 != nil {
					c.Violationf("C12 well-formed boolean expression rejected", map[string]any{"base": b.text, "extra": x.text}, "%v %v", err1, err2)
					continue
				}
				left, right := q.GetPredicate(), xq.GetPredicate()
				if order == 1 {
					left, right = right, left
				}
				q.SetPredicate(ast.NewAndExprNode(left, right))
				for _, pa := range []bool{false, true} {
					for na := int64(0); na < 3; na++ {
						row := memsym.NewRow(tbl)
						row.Vals["pa"], row.Vals["na"] = pa, na
						want := b.val(pa) && x.val(na)
						if got := q.EvalBool(row); got != want {
							c.Violationf("C12 conjunction composed through SetPredicate evaluates wrongly", map[string]any{"base": b.text, "extra": x.text, "order": order},
								"base %q and extra %q (order %d) on pa=%v na=%d: got %v want %v", b.text, x.text, order, pa, na, got, want)
						}
					}
				}
				c.Count("composed_queries", 1)
			}
		}
	}
}

// c12Respell: typed query templates re-spelled; results over random rows must be identical.
func c12Respell(c *core.Ctx, r *core.Rand, tbl *memsym.Table) {
	c12Compose(c, tbl)
	sym := func(s string) ql.Stream { return ql.Stream{ql.T(s)} }
	num := func(s string) ql.Stream { return ql.Stream{ql.T(s)} }
	str := func(s string) ql.Stream { return ql.Stream{ql.T(ql.Lit(s))} }
	dt := func(s string) ql.Stream {
		return ql.Stream{ql.T("datetime("), ql.G(ql.Opt), ql.T(s), ql.G(ql.Opt), ql.T(")")}
	}
	tbl.Types["dt"] = ast.NodeTypeDatetime
	atoms := []ql.Stream{
		ql.Cmp(sym("na"), "=", num("1")), ql.Cmp(sym("na"), "!=", num("2")), ql.Cmp(sym("nb"), "<", num("3")), ql.Cmp(sym("nb"), "<=", num("2")), ql.Cmp(sym("nc"), ">", num("-1")), ql.Cmp(sym("f"), ">=", num("1.5")),
		ql.Cmp(sym("s"), "=", str("ab")), ql.Cmp(sym("pa"), "=", ql.Stream{ql.K("true")}), ql.Cmp(sym("pb"), "!=", ql.Stream{ql.K("false")}), ql.Cmp(sym("s"), "=", ql.Stream{ql.K("null")}), ql.Cmp(sym("nd"), "!=", ql.Stream{ql.K("null")}),
		ql.WordOp(sym("na"), "in", ql.List([]ql.Stream{num("1"), num("2")})), ql.WordOp(sym("na"), "not in", ql.List([]ql.Stream{num("1"), num("3")})),
		ql.WordOp(sym("s"), "in", ql.List([]ql.Stream{str("ab"), str("AND")})), ql.WordOp(sym("s"), "not in", ql.List([]ql.Stream{str("x")})),
		ql.WordOp(sym("nb"), "between", ql.Cat(num("1"), ql.Stream{ql.G(ql.Req), ql.K("and"), ql.G(ql.Req)}, num("3"))),
		ql.WordOp(sym("nb"), "not between", ql.Cat(num("0"), ql.Stream{ql.G(ql.Req), ql.K("and"), ql.G(ql.Req)}, num("2"))),
		ql.WordOp(sym("s"), "contains", str("b")), ql.WordOp(sym("s"), "not contains", str("a")), ql.WordOp(sym("s"), "icontains", str("B")), ql.WordOp(sym("s"), "not icontains", str("A")),
		ql.Cmp(ql.Func("anyOf", sym("tags")), "=", str("or")), ql.Cmp(ql.Func("allOf", sym("tags")), "!=", str("not")), ql.Cmp(ql.Func("count", sym("tags")), ">", num("1")),
		ql.Func("isEmpty", sym("tags")), sym("pc"), {ql.K("true")}, {ql.K("false")},
		ql.WordOp(ql.Func("anyOf", sym("tags")), "in", ql.List([]ql.Stream{str("in"), str("x")})),
		// datetime literals: whitespace is admitted inside their parentheses
		ql.Cmp(sym("dt"), "=", dt("2021-06-15T12:30:00Z")), ql.Cmp(sym("dt"), "<", dt("2022-01-01T00:00:00Z")), ql.Cmp(sym("dt"), ">=", dt("2021-06-15T12:30:00.5+02:00")),
		ql.WordOp(sym("dt"), "between", ql.Cat(dt("2020-01-01T00:00:00Z"), ql.Stream{ql.G(ql.Req), ql.K("and"), ql.G(ql.Req)}, dt("2022-01-01T00:00:00Z"))),
		ql.WordOp(sym("dt"), "not in", ql.List([]ql.Stream{dt("2021-06-15T12:30:00Z"), dt("1999-12-31T23:59:59Z")})),
	}
	rows := make([]*memsym.Row, 12)
	for i := range rows {
		row := memsym.NewRow(tbl)
		for j := 0; j < 5; j++ {
			if r.P(0.8) {
				row.Vals[c12Sym("p", j)] = r.Bool()
			}
			if r.P(0.8) {
				row.Vals[c12Sym("n", j)] = int64(r.Intn(4))
			}
		}
		if r.P(0.8) {
			row.Vals["s"] = core.Pick(r, []string{"ab", "AB", "a", "b", "", "AND", "x"})
		}
		if r.P(0.8) {
			row.Vals["f"] = core.Pick(r, []float64{0, 1.5, 2, -1})
		}
		if r.P(0.8) {
			row.Vals["dt"] = core.Pick(r, []time.Time{time.Date(2021, 6, 15, 12, 30, 0, 0, time.UTC), time.Date(2019, 1, 1, 0, 0, 0, 0, time.UTC), time.Date(2021, 6, 15, 10, 30, 0, 500000000, time.UTC), time.Date(2030, 1, 1, 0, 0, 0, 0, time.UTC)})
		}
		var tags []any
		for _, t := range core.Subset(r, []string{"or", "not", "in", "x"}, 0.4) {
			tags = append(tags, t)
		}
		row.SetVals["tags"] = tags
		rows[i] = row
	}
	for k := 0; k < 150; k++ {
		// a random skeleton over 1..3 template atoms
		n := 1 + r.Intn(3)
		sks := c12Skels(3)
		var sk *skel
		for {
			sk = sks[r.Intn(len(sks))]
			if countAtoms(sk) == n {
				break
			}
		}
		picks := make([]ql.Stream, n)
		for i := range picks {
			picks[i] = atoms[r.Intn(len(atoms))]
		}
		st := sk.stream(func(i int) ql.Stream { return picks[i] })
		canon := st.Canon()
		q0, err := ast.Parse(tbl, canon)
		c.Eval()
		if err != nil {
			c.Violationf("C12 well-formed query rejected (canonical spelling)", map[string]any{"query": canon}, "%q: %v", canon, err)
			continue
		}
		var base []bool
		for _, row := range rows {
			base = append(base, q0.EvalBool(row))
		}
		for v := 0; v < 3; v++ {
			text := st.Respell(r)
			if v == 2 {
				text = ql.Paren(ql.Paren(st)).Respell(r) // redundant parentheses around the whole expression
			}
			q, err := ast.Parse(tbl, text)
			c.Eval()
			if err != nil {
				c.Violationf("C12 re-spelling rejected: "+respellClass(canon), map[string]any{"canonical": canon, "respelled": text}, "canonical %q parses, re-spelling %q does not: %v", canon, text, err)
				continue
			}
			for i, row := range rows {
				if q.EvalBool(row) != base[i] {
					c.Violationf("C12 re-spelling changes the result: "+respellClass(canon), map[string]any{"canonical": canon, "respelled": text}, "canonical %q vs %q differ on row %d (%v / %v)", canon, text, i, row.Vals, row.SetVals)
					break
				}
			}
		}
		c.Nontrivial("respell", canon)
		for _, w := range []string{"not in", "not between", "not contains", "not icontains", "anyOf", "allOf", "count", "isEmpty", "null", "true"} {
			if strings.Contains(canon, w) {
				c.Cover("respelled_keyword", w)
			}
		}
	}
}

func respellClass(canon string) string {
	for _, w := range []string{"not icontains", "not contains", "not between", "not in", "icontains", "contains", "between", " in ", "anyOf", "allOf", "count", "isEmpty", "null", "true", "false"} {
		if strings.Contains(canon, w) {
			return "query uses " + strings.TrimSpace(w)
		}
	}
	return "plain comparison"
}

func c12Sym(prefix string, i int) string { return prefix + string(rune('a'+i)) }
