package props

import (
	"context"
	"fmt"
	"os"

	"github.com/openziti/storage/boltz"
	"go.etcd.io/bbolt"
	"verif/harness/internal/core"
	"verif/harness/internal/dump"
	"verif/harness/internal/schema"
)

// C16 part (c): the system-entity constraint declared on a CHILD store. Entities with data in that child store are
// protected: every attempt from an ordinary context - update or delete through the child store, delete through the
// parent store, DeleteWhere through either - fails and changes nothing; from a system context it succeeds.
const c16ChildCases = 10

func c16Child(c *core.Ctx, idx int) {
	wdef := &schema.StoreDef{Type: "widgets", BasePath: []string{"stores"}, Ext: true,
		Fields: []schema.Field{{Name: "name", Kind: schema.KStr}}}
	kdef := &schema.StoreDef{Type: "widgets", Parent: "widgets", ChildPath: []string{"kid"}, System: true,
		Fields: []schema.Field{{Name: "extra", Kind: schema.KStr}}}
	sc := schema.Build([]*schema.StoreDef{wdef, kdef})
	path := c.TempFile("c16k")
	db, err := sc.OpenDb(path)
	if err != nil {
		c.Violation("C16 setup", err.Error(), nil)
		return
	}
	defer func() { _ = db.Close(); _ = os.Remove(path) }()
	wst, kst := sc.St("widgets"), sc.St("widgets/kid")
	mk := func(id string, sys bool, name string) *schema.Ent {
		e := &schema.Ent{Id: id, Typ: "widgets", V: map[string]any{"name": name, "extra": "x"}}
		e.Ext.Id, e.Ext.IsSystem = id, sys
		return e
	}
	err = db.Update(boltz.NewSystemMutateContext(boltz.NewMutateContext(context.Background())), func(ctx boltz.MutateContext) error {
		if err := kst.Store.Create(ctx, mk("k-sys", true, "s")); err != nil {
			return err
		}
		return kst.Store.Create(ctx, mk("k-ord", false, "o"))
	})
	if err != nil {
		c.Violationf("C16 child-constraint setup failed", nil, "%v", err)
		return
	}
	attempt := []string{"update through the child store", "delete through the child store", "delete through the parent store", "DeleteWhere through the child store", "DeleteWhere through the parent store"}[idx%5]
	sysCtx := idx >= 5
	var before *dump.Dump
	_ = db.View(func(tx *bbolt.Tx) error { before = dump.Tx(tx); return nil })
	opErr := db.Update(nil, func(ctx boltz.MutateContext) error {
		use := ctx
		if sysCtx {
			use = ctx.GetSystemContext()
		}
		switch attempt {
		case "update through the child store":
			return kst.Store.Update(use, mk("k-sys", true, "renamed"), nil)
		case "delete through the child store":
			return kst.Store.DeleteById(use, "k-sys")
		case "delete through the parent store":
			return wst.Store.DeleteById(use, "k-sys")
		case "DeleteWhere through the child store":
			return kst.Store.DeleteWhere(use, `id = "k-sys"`)
		default:
			return wst.Store.DeleteWhere(use, `id = "k-sys"`)
		}
	})
	c.Eval()
	c.Count("child_constraint_cases", 1)
	combo := attempt + " from " + ctxName(sysCtx) + " context"
	c.Cover("child_constraint", combo)
	c.Nontrivial("c16child", combo)
	info := map[string]any{"attempt": attempt, "system_context": sysCtx, "error": fmt.Sprint(opErr)}
	var after *dump.Dump
	_ = db.View(func(tx *bbolt.Tx) error { after = dump.Tx(tx); return nil })
	if (opErr == nil) != sysCtx {
		c.Violationf("C16 constraint on a child store: "+combo+": expected success="+fmt.Sprint(sysCtx), info, "returned %v", opErr)
	}
	if opErr != nil && after.Hash() != before.Hash() {
		c.Violationf("C16 constraint on a child store: a refused attempt changed the database ("+combo+")", info, "diff: %v", dump.Diff(before, after, nil, 6))
	}
	// the ordinary sibling is not protected
	if err := db.Update(nil, func(ctx boltz.MutateContext) error { return kst.Store.Update(ctx, mk("k-ord", false, "o2"), nil) }); err != nil {
		c.Violationf("C16 constraint on a child store: an ordinary entity was refused", info, "%v", err)
	}
}
