package props

import (
	"context"
	"fmt"
	"sort"
	"strings"
	"sync"

	"github.com/openziti/storage/boltz"
	"go.etcd.io/bbolt"
	"verif/harness/internal/core"
	"verif/harness/internal/dump"
	"verif/harness/internal/kmodel"
	"verif/harness/internal/schema"
)

type corruption struct {
	Class     string     `json:"class"`
	Desc      string     `json:"desc"`
	Needles   [][]string `json:"needles"` // each inner list: one report must contain all of these strings
	Unfixable bool       `json:"unfixable"`
	Role      string     `json:"role,omitempty"` // set index value bucket the corruption lives in
	apply     func(tx *bbolt.Tx) error
	fixModel  func(m *kmodel.Model)
}

func tkey(id string) []byte { return boltz.PrependFieldType(boltz.TypeString, []byte(id)) }

func bpath(tx *bbolt.Tx, path ...string) *bbolt.Bucket {
	b := tx.Bucket([]byte(path[0]))
	for _, p := range path[1:] {
		if b == nil {
			return nil
		}
		b = b.Bucket([]byte(p))
	}
	return b
}

func strField(v string) []byte { return boltz.PrependFieldType(boltz.TypeString, []byte(v)) }

// genCorruptions proposes corruptions applicable to the current model state.
func genCorruptions(r *core.Rand, e *kmodel.Engine) []*corruption {
	m := e.M
	var out []*corruption
	emps := e.ExistingIds(kmodel.Emps)
	depts := e.ExistingIds(kmodel.Depts)
	ghostEmp, ghostDept := "ghost-e", "ghost-d"
	name := func(id string) string { s, _ := m.Ents[kmodel.Emps][id].V["name"].(string); return s }
	nullableDept := e.Cfg.DeptFK == schema.FkIndexNullable
	add := func(c *corruption) { out = append(out, c) }
	for _, id := range emps {
		id := id
		v := name(id)
		if v != "" {
			add(&corruption{Class: "unique-missing", Desc: fmt.Sprintf("delete emps.name index entry %q (holder %q)", v, id), Needles: [][]string{{"name", v, id}},
				apply: func(tx *bbolt.Tx) error { return bpath(tx, "stores", "indexes", "emps", "name").Delete([]byte(v)) }})
			// wrong target: point v at another existing entity
			for _, other := range emps {
				other := other
				if other != id {
					add(&corruption{Class: "unique-wrong-target", Desc: fmt.Sprintf("emps.name index %q -> %q (holder is %q)", v, other, id), Needles: [][]string{{"name", other, v}},
						apply: func(tx *bbolt.Tx) error {
							return bpath(tx, "stores", "indexes", "emps", "name").Put([]byte(v), []byte(other))
						}})
					break
				}
			}
		}
		add(&corruption{Class: "unique-stale-value", Desc: fmt.Sprintf("extra emps.name index entry %q -> existing %q", "stale-"+id, id), Needles: [][]string{{"name", id, "stale-" + id}},
			apply: func(tx *bbolt.Tx) error {
				return bpath(tx, "stores", "indexes", "emps", "name").Put([]byte("stale-"+id), []byte(id))
			}})
		roles, _ := m.Ents[kmodel.Emps][id].V["roles"].([]string)
		for _, role := range kmodel.NormSet(roles) {
			role := role
			add(&corruption{Class: "set-missing-entry", Role: role, Desc: fmt.Sprintf("delete %q from roles index value %q", id, role), Needles: [][]string{{"roles", id, role}},
				apply: func(tx *bbolt.Tx) error {
					b := bpath(tx, "stores", "indexes", "emps", "roles", role)
					if b == nil {
						return nil
					}
					return b.Delete(tkey(id))
				}})
		}
		for _, role := range kmodel.RolePool {
			role := role
			has := false
			for _, x := range roles {
				if x == role {
					has = true
				}
			}
			if !has {
				add(&corruption{Class: "set-extra-entry-existing", Desc: fmt.Sprintf("add %q to roles index value %q which it does not hold", id, role), Needles: [][]string{{"roles", role, id}},
					apply: func(tx *bbolt.Tx) error {
						b, err := bpath(tx, "stores", "indexes", "emps", "roles").CreateBucketIfNotExists([]byte(role))
						if err != nil {
							return err
						}
						return b.Put(tkey(id), nil)
					}})
				break
			}
		}
		// fk back-reference corruptions (dept is an fk index in every configuration)
		if d, ok := m.Ents[kmodel.Emps][id].V["dept"].(string); ok && d != "" {
			add(&corruption{Class: "fk-missing-backref", Desc: fmt.Sprintf("delete back-reference %q from depts[%q].members", id, d), Needles: [][]string{{"dept", id, d}},
				apply: func(tx *bbolt.Tx) error {
					b := bpath(tx, "stores", "depts", d, "members")
					if b == nil {
						return nil
					}
					return b.Delete(tkey(id))
				}})
		}
		for _, d := range depts {
			d := d
			if cur, _ := m.Ents[kmodel.Emps][id].V["dept"].(string); cur != d {
				add(&corruption{Class: "fk-extra-backref-nonmatching", Desc: fmt.Sprintf("add back-reference %q to depts[%q].members although its dept is %q", id, d, cur), Needles: [][]string{{"dept", d, id}},
					apply: func(tx *bbolt.Tx) error {
						b, err := bpath(tx, "stores", "depts", d).CreateBucketIfNotExists([]byte("members"))
						if err != nil {
							return err
						}
						return b.Put(tkey(id), nil)
					}})
				break
			}
		}
		// dangling references
		add(&corruption{Class: "fk-dangling-dept", Desc: fmt.Sprintf("emps[%q].dept = %q (missing)", id, ghostDept), Needles: [][]string{{"dept", id, ghostDept}}, Unfixable: !nullableDept,
			apply: func(tx *bbolt.Tx) error {
				// also drop the old back reference so that only the dangling reference is wrong
				if d, ok := m.Ents[kmodel.Emps][id].V["dept"].(string); ok && d != "" {
					if b := bpath(tx, "stores", "depts", d, "members"); b != nil {
						if err := b.Delete(tkey(id)); err != nil {
							return err
						}
					}
				}
				return bpath(tx, "stores", "emps", id).Put([]byte("dept"), strField(ghostDept))
			},
			fixModel: func(m *kmodel.Model) {
				if nullableDept {
					m.Ents[kmodel.Emps][id].V["dept"] = nil
				}
			}})
		if e.Cfg.BossCascade != boltz.CascadeCreateUpdate || true {
			add(&corruption{Class: "fk-dangling-boss", Desc: fmt.Sprintf("emps[%q].boss = %q (missing)", id, ghostEmp), Needles: [][]string{{"boss", id, ghostEmp}}, Unfixable: !e.Cfg.BossNullable,
				apply: func(tx *bbolt.Tx) error {
					return bpath(tx, "stores", "emps", id).Put([]byte("bs"), strField(ghostEmp))
				},
				fixModel: func(m *kmodel.Model) {
					if e.Cfg.BossNullable {
						m.Ents[kmodel.Emps][id].V["boss"] = nil
					}
				}})
		}
		// unfixable: null in a non-nullable foreign key field (three stored spellings of null)
		nilPut := func(tx *bbolt.Tx, field string, how int) error {
			b := bpath(tx, "stores", "emps", id)
			switch how {
			case 0:
				return b.Put([]byte(field), []byte{byte(boltz.TypeNil)})
			case 1:
				return b.Put([]byte(field), nil)
			}
			return b.Delete([]byte(field))
		}
		how := r.Intn(3)
		if !nullableDept {
			add(&corruption{Class: "null-in-non-nullable-fk-index", Desc: fmt.Sprintf("emps[%q].dept = nil (spelling %d), back-reference removed", id, how), Needles: [][]string{{"dept", id, "nil"}}, Unfixable: true,
				apply: func(tx *bbolt.Tx) error {
					if d, ok := m.Ents[kmodel.Emps][id].V["dept"].(string); ok && d != "" {
						if b := bpath(tx, "stores", "depts", d, "members"); b != nil {
							if err := b.Delete(tkey(id)); err != nil {
								return err
							}
						}
					}
					return nilPut(tx, "dept", how)
				}})
		}
		if !e.Cfg.BossNullable {
			add(&corruption{Class: "null-in-non-nullable-fk-constraint", Desc: fmt.Sprintf("emps[%q].boss = nil (spelling %d)", id, how), Needles: [][]string{{"boss", id, "nil"}}, Unfixable: true,
				apply: func(tx *bbolt.Tx) error { return nilPut(tx, "bs", how) }})
		}
		// links
		for _, d := range m.LinksOf(kmodel.Emps, id) {
			d := d
			add(&corruption{Class: "link-one-sided-emp-side-removed", Desc: fmt.Sprintf("remove %q from emps[%q].watching only", d, id), Needles: [][]string{{d, id, "reverse link"}},
				apply: func(tx *bbolt.Tx) error { return bpath(tx, "stores", "emps", id, "watching").Delete(tkey(d)) }})
			add(&corruption{Class: "link-one-sided-dept-side-removed", Desc: fmt.Sprintf("remove %q from depts[%q].watchers only", id, d), Needles: [][]string{{id, d, "reverse link"}},
				apply: func(tx *bbolt.Tx) error { return bpath(tx, "stores", "depts", d, "watchers").Delete(tkey(id)) }})
			break
		}
		// one to three neighbouring links to missing depts (fix mode removes links while it walks them)
		nGhostLinks := 1 + r.Intn(3)
		var ghostLinks []string
		var glNeedles [][]string
		for i := 0; i < nGhostLinks; i++ {
			g := ghostDept
			if i > 0 {
				g = fmt.Sprintf("%s%d", ghostDept, i)
			}
			ghostLinks = append(ghostLinks, g)
			glNeedles = append(glNeedles, []string{id, g})
		}
		add(&corruption{Class: "link-dangling", Desc: fmt.Sprintf("add %d missing depts %q to emps[%q].watching", nGhostLinks, ghostLinks, id), Needles: glNeedles,
			apply: func(tx *bbolt.Tx) error {
				b, err := bpath(tx, "stores", "emps", id).CreateBucketIfNotExists([]byte("watching"))
				if err != nil {
					return err
				}
				for _, g := range ghostLinks {
					if err := b.Put(tkey(g), nil); err != nil {
						return err
					}
				}
				return nil
			}})
		// unfixable: null in the non-nullable unique index field
		if v != "" {
			add(&corruption{Class: "null-in-non-nullable-unique", Desc: fmt.Sprintf("emps[%q].name = nil, index entry %q removed", id, v), Needles: [][]string{{"name", id}}, Unfixable: true,
				apply: func(tx *bbolt.Tx) error {
					if err := bpath(tx, "stores", "emps", id).Put([]byte("name"), []byte{byte(boltz.TypeNil)}); err != nil {
						return err
					}
					return bpath(tx, "stores", "indexes", "emps", "name").Delete([]byte(v))
				}})
		}
	}
	// duplicates: two entities with the same unique value
	if len(emps) >= 2 {
		a, b := emps[0], emps[1]
		va := name(a)
		if va != "" {
			add(&corruption{Class: "duplicate-unique-value", Desc: fmt.Sprintf("emps[%q].name = %q which %q holds", b, va, a), Needles: [][]string{{"name", a, b, va}}, Unfixable: true,
				apply: func(tx *bbolt.Tx) error {
					if old := name(b); old != "" {
						if err := bpath(tx, "stores", "indexes", "emps", "name").Delete([]byte(old)); err != nil {
							return err
						}
					}
					return bpath(tx, "stores", "emps", b).Put([]byte("name"), strField(va))
				}})
		}
	}
	// two entities with the same unique value and NO index entry for it: the fix run indexes the first holder it meets
	// and reports the other one as a conflict it cannot repair (it does not give up half-way)
	if len(emps) >= 2 {
		a, b := emps[len(emps)-1], emps[len(emps)-2]
		if va := name(a); va != "" {
			add(&corruption{Class: "duplicate-unique-value-unindexed", Desc: fmt.Sprintf("emps[%q].name = %q which %q holds, index entry for %q removed", b, va, a, va), Needles: [][]string{{"name", va, a}, {"name", va, b}}, Unfixable: true,
				apply: func(tx *bbolt.Tx) error {
					ix := bpath(tx, "stores", "indexes", "emps", "name")
					if old := name(b); old != "" {
						if err := ix.Delete([]byte(old)); err != nil {
							return err
						}
					}
					if err := ix.Delete([]byte(va)); err != nil {
						return err
					}
					return bpath(tx, "stores", "emps", b).Put([]byte("name"), strField(va))
				}})
		}
	}
	// the whole bucket of the set index over roles is gone: every (role, holder) pair is missing from it
	{
		var needles [][]string
		for _, id := range emps {
			roles, _ := m.Ents[kmodel.Emps][id].V["roles"].([]string)
			for _, role := range kmodel.NormSet(roles) {
				needles = append(needles, []string{"roles", role, id})
			}
		}
		if len(needles) > 0 {
			add(&corruption{Class: "set-index-bucket-missing", Desc: fmt.Sprintf("delete the emps.roles index bucket (%d entries)", len(needles)), Needles: needles,
				apply: func(tx *bbolt.Tx) error { return bpath(tx, "stores", "indexes", "emps").DeleteBucket([]byte("roles")) }})
		}
	}
	// the whole bucket of the (nullable) unique index over nick is gone: every holder of a nick is missing from it
	{
		var needles [][]string
		for _, id := range emps {
			if v, _ := m.Ents[kmodel.Emps][id].V["nick"].(string); v != "" {
				needles = append(needles, []string{"nick", v, id})
			}
		}
		if len(needles) > 0 {
			add(&corruption{Class: "unique-index-bucket-missing", Desc: fmt.Sprintf("delete the emps.nick index bucket (%d holders)", len(needles)), Needles: needles,
				apply: func(tx *bbolt.Tx) error { return bpath(tx, "stores", "indexes", "emps").DeleteBucket([]byte("nick")) }})
		}
	}
	// the nick index bucket is gone AND two entities hold the same nick: the fix run rebuilds the index, the second holder
	// is a conflict it cannot repair - reported, not a reason to give up
	{
		var holders []string
		for _, id := range emps {
			if v, _ := m.Ents[kmodel.Emps][id].V["nick"].(string); v != "" {
				holders = append(holders, id)
			}
		}
		if len(holders) >= 1 && len(emps) >= 2 {
			a := holders[0]
			b := emps[0]
			if b == a {
				b = emps[1]
			}
			va, _ := m.Ents[kmodel.Emps][a].V["nick"].(string)
			// (the other holders' entries are missing as well and come back with the fix; only the conflict stays)
			needles := [][]string{{"nick", va, a}, {"nick", va, b}}
			add(&corruption{Class: "unique-index-bucket-missing-with-duplicate", Desc: fmt.Sprintf("delete the emps.nick index bucket, emps[%q].nick = %q which %q holds", b, va, a), Needles: needles, Unfixable: true,
				apply: func(tx *bbolt.Tx) error {
					if err := bpath(tx, "stores", "emps", b).Put([]byte("nk"), strField(va)); err != nil {
						return err
					}
					return bpath(tx, "stores", "indexes", "emps").DeleteBucket([]byte("nick"))
				}})
		}
	}
	// index-level corruptions not tied to one entity
	// several adjacent dangling entries in one bucket (fix mode deletes through the cursor it iterates with)
	nAdj := 1 + r.Intn(4)
	var ghosts []string
	var udNeedles, sdNeedles [][]string
	for i := 0; i < nAdj; i++ {
		g := fmt.Sprintf("%s%d", ghostEmp, i)
		ghosts = append(ghosts, g)
		udNeedles = append(udNeedles, []string{"name", g, "zz-dangling" + g})
		sdNeedles = append(sdNeedles, []string{"roles", "r1", g})
	}
	add(&corruption{Class: "unique-dangling-entry", Desc: fmt.Sprintf("%d adjacent emps.name index entries -> missing ids", nAdj), Needles: udNeedles,
		apply: func(tx *bbolt.Tx) error {
			for _, g := range ghosts {
				if err := bpath(tx, "stores", "indexes", "emps", "name").Put([]byte("zz-dangling"+g), []byte(g)); err != nil {
					return err
				}
			}
			return nil
		}})
	_ = sdNeedles
	for _, role := range kmodel.RolePool {
		role := role
		var needles [][]string
		for _, g := range ghosts {
			needles = append(needles, []string{"roles", role, g})
		}
		add(&corruption{Class: "set-extra-entry-dangling", Role: role, Desc: fmt.Sprintf("roles index value %s references %d missing ids", role, nAdj), Needles: needles,
			apply: func(tx *bbolt.Tx) error {
				b, err := bpath(tx, "stores", "indexes", "emps", "roles").CreateBucketIfNotExists([]byte(role))
				if err != nil {
					return err
				}
				for _, g := range ghosts {
					if err := b.Put(tkey(g), nil); err != nil {
						return err
					}
				}
				return nil
			}})
	}
	add(&corruption{Class: "set-empty-value-bucket", Desc: "empty roles index value bucket zz-empty", Needles: [][]string{{"roles", "zz-empty"}},
		apply: func(tx *bbolt.Tx) error {
			_, err := bpath(tx, "stores", "indexes", "emps", "roles").CreateBucketIfNotExists([]byte("zz-empty"))
			return err
		}})
	// whole value key missing
	roleHolders := map[string][]string{}
	for _, id := range emps {
		roles, _ := m.Ents[kmodel.Emps][id].V["roles"].([]string)
		for _, role := range kmodel.NormSet(roles) {
			roleHolders[role] = append(roleHolders[role], id)
		}
	}
	var rs []string
	for role := range roleHolders {
		rs = append(rs, role)
	}
	sort.Strings(rs)
	for _, role := range rs {
		role := role
		var needles [][]string
		for _, id := range roleHolders[role] {
			needles = append(needles, []string{"roles", id, role})
		}
		add(&corruption{Class: "set-missing-value-key", Desc: fmt.Sprintf("delete whole roles index value %q (holders %q)", role, roleHolders[role]), Needles: needles,
			apply: func(tx *bbolt.Tx) error {
				return bpath(tx, "stores", "indexes", "emps", "roles").DeleteBucket([]byte(role))
			}})
		break
	}
	// the whole back-reference bucket of a dept that has members is gone (absent, not empty)
	for _, d := range depts {
		d := d
		var needles [][]string
		for _, id := range emps {
			if cur, _ := m.Ents[kmodel.Emps][id].V["dept"].(string); cur == d {
				needles = append(needles, []string{"dept", id, d})
			}
		}
		if len(needles) > 0 {
			add(&corruption{Class: "fk-missing-backref-bucket", Desc: fmt.Sprintf("delete the whole depts[%q].members bucket (%d members)", d, len(needles)), Needles: needles,
				apply: func(tx *bbolt.Tx) error {
					b := bpath(tx, "stores", "depts", d)
					if b == nil || b.Bucket([]byte("members")) == nil {
						return nil
					}
					return b.DeleteBucket([]byte("members"))
				}})
			break
		}
	}
	for _, d := range depts {
		d := d
		var fdNeedles [][]string
		for _, g := range ghosts {
			fdNeedles = append(fdNeedles, []string{"dept", d, g})
		}
		add(&corruption{Class: "fk-extra-backref-dangling", Desc: fmt.Sprintf("add %d missing emps to depts[%q].members", nAdj, d), Needles: fdNeedles,
			apply: func(tx *bbolt.Tx) error {
				b, err := bpath(tx, "stores", "depts", d).CreateBucketIfNotExists([]byte("members"))
				if err != nil {
					return err
				}
				for _, g := range ghosts {
					if err := b.Put(tkey(g), nil); err != nil {
						return err
					}
				}
				return nil
			}})
		break
	}
	return out
}

type report struct {
	Msg   string
	Fixed bool
	Store string
}

// runIntegrity runs CheckIntegrity on every store of the schema. mode: "view" (read-only tx) or "update".
func runIntegrity(e *kmodel.Engine, fix bool, mode string) ([]report, error) {
	var reps []report
	run := func(ctx boltz.MutateContext) error {
		for _, k := range e.Sc.Order {
			k := k
			if err := e.Sc.St(k).Store.CheckIntegrity(ctx, fix, func(err error, fixed bool) {
				reps = append(reps, report{Msg: err.Error(), Fixed: fixed, Store: k})
			}); err != nil {
				return fmt.Errorf("store %s: %w", k, err)
			}
		}
		return nil
	}
	var err error
	if mode == "view" {
		err = e.Db.View(func(tx *bbolt.Tx) error {
			return run(boltz.NewTxMutateContext(context.Background(), tx))
		})
	} else {
		err = e.Db.Update(nil, run)
	}
	return reps, err
}

func covered(reps []report, needles []string) bool {
	for _, r := range reps {
		all := true
		for _, n := range needles {
			if !strings.Contains(r.Msg, n) {
				all = false
				break
			}
		}
		if all {
			return true
		}
	}
	return false
}

func init() {
	core.Register(&core.Property{
		ID:    "C09",
		Level: "exploration",
		Rule: "consistent states reached through the API (random histories over schema K) must produce zero reports in check-only mode (read-only and writable transaction; on every third case also from four goroutines at once, each in its own read transaction) and in fix mode; then a committed raw-write transaction injects a random subset (1-6) of " +
			"corruptions from 26 classes (unique index missing / dangling / wrong-target / stale entry / the whole index bucket absent; set index missing entry / missing value key / dangling / non-holder entry / empty bucket / the whole index bucket absent; fk missing back-reference (one key, or the whole bucket absent) / dangling / non-matching back-reference, dangling reference nullable or not; " +
			"links one-sided either side / dangling; duplicate unique values (with and without an index entry for the value); null in a non-nullable unique field, fk-index field and fk-constraint field in three stored spellings). Oracle: every injected inconsistency is covered by a report naming its value and id(s), in View and Update check-only runs, which leave the whole-file dump unchanged and do not panic or fail; " +
			"one fix pass then leaves only the predicted unfixable reports on re-check and (when none is unfixable) a structural-monitor-clean database equal to the model. Every fifth case runs the fix pass inside the very transaction that damaged the indexes (cursors over buckets already written to in the transaction); dangling links, dangling index entries and dangling back-references come in runs of one to four neighbours, also next to a one-sided link of the same entity (whose repair, made from the other store, writes to the bucket the dangling links are then removed from). Soundness is also checked on a model-free schema: one parent with two sibling child stores, the second extended with a NON-nullable unique index, six ids so that runs of neighbours without data in it occur; after every operation whose raw scan finds the indexes mirroring the entities the check-only run (both transaction kinds) must report nothing and change nothing. non-trivial = distinct corruption-class subsets of size >= 2",
		Assumptions: []string{"report matching is by mention of the index/field name, value and ids (wording not judged); extra reports on a corrupted database are not judged", "ref-counted link collections are not part of CheckIntegrity (not injected)"},
		Plan: func(tier core.Tier, seed int64) int {
			if tier == core.Thorough {
				return 120000 + c09SibCases*8 + c06SymCases*4
			}
			return 480 + c09SibCases + c06SymCases/2
		},
		Run: runC09,
		Promises: func(core.Tier) map[string][]string {
			return map[string][]string{"class": {"unique-missing", "unique-wrong-target", "unique-stale-value", "unique-dangling-entry", "set-missing-entry", "set-missing-value-key", "set-extra-entry-dangling",
				"set-extra-entry-existing", "set-empty-value-bucket", "fk-missing-backref", "fk-extra-backref-dangling", "fk-extra-backref-nonmatching", "fk-dangling-dept", "fk-dangling-boss",
				"link-one-sided-emp-side-removed", "link-one-sided-dept-side-removed", "link-dangling", "duplicate-unique-value", "null-in-non-nullable-unique", "null-in-non-nullable-fk-index", "null-in-non-nullable-fk-constraint", "fk-missing-backref-bucket", "unique-index-bucket-missing", "duplicate-unique-value-unindexed", "set-index-bucket-missing", "unique-index-bucket-missing-with-duplicate"}}
		},
		MinCounters: func(core.Tier) map[string]int64 {
			return map[string]int64{"consistent_states_checked": 300, "corrupted_states": 300, "fix_converged_clean": 100, "fix_runs_inside_the_damaging_transaction": 50, "sibling_consistent_states_checked": 500, "extended_store_checked_over_a_run_of_parent_only_neighbours": 50}
		},
	})
}

const c09SibCases = 24

func runC09(c *core.Ctx, idx int) {
	if n := map[bool]int{false: 480 + c09SibCases, true: 120000 + c09SibCases*8}[c.Tier == core.Thorough]; idx >= n {
		// link collections that stay inside one store: history, then soundness and one-sided links (c09SameStoreLinks)
		c06Symmetric(c, idx-n)
		return
	}
	if n := map[bool]int{false: 480, true: 120000}[c.Tier == core.Thorough]; idx >= n {
		// soundness over a parent with two sibling child stores (one extended with a non-nullable unique index)
		siblingScenario(c, idx-n, "C09")
		return
	}
	if idx%60 == 7 {
		c09Many(c, idx)
	}
	r := c.Rand()
	cfg := c09Configs[idx%len(c09Configs)]
	e, err := kmodel.NewEngine(c, cfg)
	if err != nil {
		c.Violation("C09 setup", err.Error(), nil)
		return
	}
	defer e.Close()
	e.W = map[string]int{"create": 10, "update": 4, "patch": 3, "delete": 2, "addlinks": 5, "setlinks": 2, "rcinc": 1}
	for t := 0; t < 25; t++ {
		e.RunTx(e.GenTx(r, 4, false), "C09 history")
	}
	if ds := e.Check("C09 history", nil); len(ds) > 0 {
		return
	}
	// (A) soundness on the consistent state
	info := map[string]any{"cfg": cfg.String()}
	d0 := dumpDb(e)
	for _, mode := range []string{"view", "update"} {
		reps, err := runIntegrity(e, false, mode)
		c.Eval()
		c.Count("consistent_states_checked", 1)
		if err != nil {
			c.Violationf("C09 check-only failed on a consistent database ("+mode+")", info, "%v", err)
		}
		for _, rp := range reps {
			c.Violationf("C09 report on a consistent database: "+reportClass(rp.Msg), info, "[%s/%s] %s", mode, rp.Store, rp.Msg)
		}
		if d := dumpDb(e); d.Hash() != d0.Hash() {
			c.Violationf("C09 check-only changed a consistent database ("+mode+")", info, "diff: %v", dump.Diff(d0, d, nil, 6))
			d0 = d
		}
	}
	// several check-only runs at the same time, each in a read transaction of its own, on every third case
	if idx%3 == 0 {
		var wg sync.WaitGroup
		var mu sync.Mutex
		var all []string
		for g := 0; g < 4; g++ {
			wg.Add(1)
			go func() {
				defer wg.Done()
				for k := 0; k < 3; k++ {
					reps, err := runIntegrity(e, false, "view")
					mu.Lock()
					if err != nil {
						all = append(all, "error: "+err.Error())
					}
					for _, rp := range reps {
						all = append(all, "["+rp.Store+"] "+rp.Msg)
					}
					mu.Unlock()
				}
			}()
		}
		wg.Wait()
		c.Eval()
		c.Count("concurrent_check_only_runs", 12)
		if len(all) > 0 {
			c.Violationf("C09 concurrent check-only runs report on a consistent database: "+reportClass(all[0]), info, "%d reports from 4 x 3 concurrent runs: %v", len(all), all[:min(len(all), 4)])
		}
		if d := dumpDb(e); d.Hash() != d0.Hash() {
			c.Violationf("C09 concurrent check-only runs changed a consistent database", info, "diff: %v", dump.Diff(d0, d, nil, 6))
		}
	}
	if r.P(0.3) {
		reps, err := runIntegrity(e, true, "update")
		c.Eval()
		if err != nil || len(reps) > 0 {
			c.Violationf("C09 fix pass reported on a consistent database", info, "err=%v reports=%v", err, reps)
		}
		if d := dumpDb(e); d.Hash() != d0.Hash() {
			c.Violationf("C09 fix pass changed a consistent database", info, "diff: %v", dump.Diff(d0, d, nil, 6))
		}
	}
	// (A2) soundness inside the writing transaction: link / index writes that are not committed yet must be seen
	// by a check (and a fix pass) running in the same transaction
	{
		ops := e.GenTx(r, 4, false)
		scratch := e.M.Clone()
		var applied []kmodel.Op
		err := e.Db.Update(nil, func(ctx boltz.MutateContext) error {
			for i := range ops {
				op := ops[i]
				cp := op
				if p, _ := kmodel.Predict(scratch, &cp); p.Skip || p.Exp != kmodel.ExpOK {
					break
				}
				if err := e.Apply(ctx, &op); err != nil {
					return err
				}
				applied = append(applied, op)
			}
			for pass, fix := range []bool{false, true, false} {
				for _, k := range e.Sc.Order {
					k := k
					if err := e.Sc.St(k).Store.CheckIntegrity(ctx, fix, func(err error, fixed bool) {
						c.Violationf("C09 report on consistent uncommitted state inside the writing transaction: "+reportClass(err.Error()), map[string]any{"cfg": cfg.String(), "ops_in_tx": applied, "pass": pass},
							"[pass %d fix=%v store %s] %s", pass, fix, k, err.Error())
					}); err != nil {
						return err
					}
				}
			}
			return nil
		})
		c.Eval()
		c.Count("in_tx_checks", 1)
		if err != nil {
			c.Violationf("C09 check inside the writing transaction failed", map[string]any{"cfg": cfg.String(), "ops_in_tx": applied}, "%v", err)
			e.Resync()
		} else {
			e.M = scratch
			if ds := e.Check("C09 after in-transaction check", nil); len(ds) > 0 {
				return
			}
		}
	}
	// (B) corrupt
	all := genCorruptions(r, e)
	if len(all) == 0 {
		return
	}
	n := 1 + r.Intn(6)
	if n > len(all) {
		n = len(all)
	}
	var chosen []*corruption
	usedClass := map[string]bool{}
	touchedEnt := map[string]bool{}
	classCount := map[string]int{}
	classLimit := map[string]int{"unique-missing": 3, "set-missing-entry": 2} // several entities can miss their entries at once
	pairedRole := ""                                                          // a missing entry and dangling references share one value bucket
	for _, j := range r.Perm(len(all)) {
		cand := all[j]
		// a bounded number of corruptions per class and no stacking of entity-field rewrites on the same description
		limit := classLimit[cand.Class]
		if limit == 0 {
			limit = 1
		}
		if classCount[cand.Class] >= limit {
			continue
		}
		if cand.Class == "set-missing-entry" || cand.Class == "set-extra-entry-dangling" {
			if pairedRole != "" && cand.Role != pairedRole {
				continue
			}
		}
		key := cand.Desc
		if touchedEnt[key] {
			continue
		}
		touchedEnt[key] = true
		// the name-field rewrites and the dept / boss rewrites interfere with other classes of their family: exclusive per
		// family, except for repeats of a class that may occur several times
		fam := family(cand.Class)
		if fam != "" && usedClass["fam:"+fam] && !(classCount[cand.Class] > 0 && limit > 1) {
			continue
		}
		entryClass := cand.Class == "set-missing-entry" || cand.Class == "set-extra-entry-dangling"
		if (entryClass && usedClass["fam:roles"]) || (fam == "roles" && classCount["set-missing-entry"]+classCount["set-extra-entry-dangling"] > 0) {
			continue // whole-key corruptions and per-entry corruptions of the set index overwrite each other
		}
		// the whole set index bucket going away wipes every other corruption of that index: not combined with them
		if strings.HasPrefix(cand.Class, "set-") && cand.Class != "set-index-bucket-missing" && usedClass["set-index-bucket-missing"] {
			continue
		}
		if cand.Class == "set-index-bucket-missing" {
			clash := false
			for cl := range usedClass {
				clash = clash || (strings.HasPrefix(cl, "set-") && usedClass[cl])
			}
			if clash {
				continue
			}
		}
		usedClass[cand.Class] = true
		classCount[cand.Class]++
		if cand.Class == "set-missing-entry" || cand.Class == "set-extra-entry-dangling" {
			pairedRole = cand.Role
		}
		if fam != "" {
			usedClass["fam:"+fam] = true
		}
		chosen = append(chosen, cand)
		if len(chosen) == n {
			break
		}
	}
	var classes []string
	anyUnfixable := false
	for _, ch := range chosen {
		classes = append(classes, ch.Class)
		c.Cover("class", ch.Class)
		if ch.Unfixable {
			anyUnfixable = true
		}
	}
	sort.Strings(classes)
	if len(classes) >= 2 {
		c.Nontrivial(cfg.String(), strings.Join(classes, "+"))
	} else {
		c.Nontrivial(cfg.String(), classes[0], "single")
	}
	// every fifth case: the fix run shares its transaction with the writes that damaged the indexes (its cursors then
	// walk buckets which were already written to in this transaction); the check-only passes are left out there
	sameTx := idx%5 == 4
	info = map[string]any{"cfg": cfg.String(), "corruptions": chosen, "fix_in_the_damaging_transaction": sameTx}
	var sameTxReps []report
	var sameTxErr error
	err = e.Db.Update(nil, func(ctx boltz.MutateContext) error {
		for _, ch := range chosen {
			if err := ch.apply(ctx.Tx()); err != nil {
				return fmt.Errorf("%s: %w", ch.Desc, err)
			}
		}
		if sameTx {
			for _, k := range e.Sc.Order {
				k := k
				if sameTxErr = e.Sc.St(k).Store.CheckIntegrity(ctx, true, func(err error, fixed bool) {
					sameTxReps = append(sameTxReps, report{Msg: err.Error(), Fixed: fixed, Store: k})
				}); sameTxErr != nil {
					sameTxErr = fmt.Errorf("store %s: %w", k, sameTxErr)
					return nil
				}
			}
		}
		return nil
	})
	if err != nil {
		c.Count("corruption_apply_failed", 1)
		return
	}
	c.Count("corrupted_states", 1)
	if sameTx {
		c.Count("fix_runs_inside_the_damaging_transaction", 1)
	}
	if c.WantSample() {
		var ds []string
		for _, ch := range chosen {
			ds = append(ds, ch.Class+": "+ch.Desc)
		}
		c.Sample(map[string]any{"cfg": cfg.String(), "corruptions": ds})
	}
	d1 := dumpDb(e)
	for _, mode := range []string{"view", "update"} {
		if sameTx {
			break
		}
		reps, err := runIntegrity(e, false, mode)
		c.Eval()
		if err != nil {
			c.Violationf("C09 check-only run failed ("+mode+"): "+firstWords(err.Error()), info, "%v", err)
		}
		for _, ch := range chosen {
			for _, nd := range ch.Needles {
				if !covered(reps, nd) {
					c.Violationf("C09 inconsistency not reported in check-only mode: "+ch.Class, info, "[%s] %s: no report mentions %q; reports: %v", mode, ch.Desc, nd, msgs(reps))
				}
			}
		}
		for _, rp := range reps {
			if rp.Fixed {
				c.Violationf("C09 check-only run claims to have fixed something", info, "[%s] %s", mode, rp.Msg)
			}
		}
		if d := dumpDb(e); d.Hash() != d1.Hash() {
			c.Violationf("C09 check-only mode changed the database ("+mode+"): "+diffClass(dump.Diff(d1, d, nil, 1)), info, "diff: %v", dump.Diff(d1, d, nil, 6))
			// restore expectations for the following steps
			d1 = d
		}
	}
	// (C) one fix pass
	var fixReps []report
	if sameTx {
		fixReps, err = sameTxReps, sameTxErr
	} else {
		fixReps, err = runIntegrity(e, true, "update")
	}
	c.Eval()
	if err != nil {
		c.Violationf("C09 fix run failed: "+firstWords(err.Error()), info, "%v", err)
	}
	for _, ch := range chosen {
		for _, nd := range ch.Needles {
			if !covered(fixReps, nd) {
				c.Violationf("C09 inconsistency not reported in fix mode: "+ch.Class, info, "%s: no report mentions %q; reports: %v", ch.Desc, nd, msgs(fixReps))
			}
		}
	}
	// (D) re-check
	reps, err := runIntegrity(e, false, "view")
	c.Eval()
	if err != nil {
		c.Violationf("C09 re-check failed: "+firstWords(err.Error()), info, "%v", err)
	}
	for _, rp := range reps {
		allowed := false
		for _, ch := range chosen {
			if !ch.Unfixable {
				continue
			}
			for _, nd := range ch.Needles {
				if covered([]report{rp}, nd[:2]) {
					allowed = true
				}
			}
		}
		if !allowed {
			c.Violationf("C09 fix pass did not converge: "+reportClass(rp.Msg), info, "re-check after one fix pass still reports: %s (classes injected: %v)", rp.Msg, classes)
		}
	}
	for _, ch := range chosen {
		if ch.Unfixable {
			for _, nd := range ch.Needles {
				if !covered(reps, nd) {
					c.Violationf("C09 unfixable conflict no longer reported after fix: "+ch.Class, info, "%s", ch.Desc)
				}
			}
		}
	}
	if !anyUnfixable {
		for _, ch := range chosen {
			if ch.fixModel != nil {
				ch.fixModel(e.M)
			}
		}
		ds := e.Check("C09 after fix", info)
		if len(ds) == 0 && len(reps) == 0 {
			c.Count("fix_converged_clean", 1)
		}
	} else {
		c.Count("rounds_with_unfixable", 1)
	}
}

// C09 leaves out CascadeCreateUpdate: there dangling references are reachable through the API (declared
// non-enforcement on delete), so such a state is not "consistent" in the sense of the statement.
var c09Configs = []kmodel.Config{
	{DeptFK: schema.FkIndexNullable, BossCascade: boltz.CascadeNone, BossNullable: true, Children: true},
	{DeptFK: schema.FkIndex, BossCascade: boltz.CascadeDelete, BossNullable: true, Children: true},
	{DeptFK: schema.FkIndexCascade, BossCascade: boltz.CascadeNone, BossNullable: true, Children: false},
	{DeptFK: schema.FkIndexNullable, BossCascade: boltz.CascadeDelete, BossNullable: true, Children: false},
	{DeptFK: schema.FkIndex, BossCascade: boltz.CascadeNone, BossNullable: false, Children: false},
}

func family(class string) string {
	switch class {
	case "unique-missing", "unique-wrong-target", "null-in-non-nullable-unique", "duplicate-unique-value", "duplicate-unique-value-unindexed":
		return "name"
	case "fk-missing-backref", "fk-dangling-dept", "fk-extra-backref-nonmatching", "null-in-non-nullable-fk-index", "fk-missing-backref-bucket", "fk-extra-backref-dangling":
		return "dept"
	case "fk-dangling-boss", "null-in-non-nullable-fk-constraint":
		return "boss"
	case "set-missing-value-key", "set-extra-entry-existing":
		return "roles"
	// set-missing-entry and set-extra-entry-dangling may be combined with each other (same value bucket)
	case "link-one-sided-emp-side-removed", "link-one-sided-dept-side-removed":
		return "watch"
	case "unique-index-bucket-missing", "unique-index-bucket-missing-with-duplicate":
		return "nick"
	}
	return ""
}

func msgs(reps []report) []string {
	var out []string
	for _, r := range reps {
		out = append(out, r.Msg)
	}
	return out
}

func firstWords(s string) string {
	w := strings.Fields(s)
	if len(w) > 8 {
		w = w[:8]
	}
	return strings.Join(w, " ")
}

// reportClass strips ids/values from a report so that it can serve as a stable key.
func reportClass(msg string) string {
	for _, p := range []string{"unique index", "for index on", "for fk", "references", "back-reference", "reverse link", "non-nillable", "invalid value", "no referenced values"} {
		if strings.Contains(msg, p) {
			w := strings.Fields(msg)
			if len(w) > 4 {
				w = w[:4]
			}
			return p + " (" + strings.Join(w, " ") + ")"
		}
	}
	return firstWords(msg)
}

func diffClass(d []string) string {
	if len(d) == 0 {
		return ""
	}
	s := d[0]
	if i := strings.Index(s, ":"); i > 0 {
		kind := s[:i]
		rest := s[i+1:]
		parts := strings.Split(rest, "/")
		if len(parts) > 5 {
			parts = parts[:5]
		}
		return kind + strings.Join(parts, "/")
	}
	return s
}

// c09Many: a database with more than a thousand inconsistencies of one kind (a unique index full of entries for
// entities that are gone): a check-only run reports every one of them, like the fix run that follows; then it is clean.
func c09Many(c *core.Ctx, idx int) {
	e, err := kmodel.NewEngine(c, c09Configs[idx%len(c09Configs)])
	if err != nil {
		c.Violation("C09 setup", err.Error(), nil)
		return
	}
	defer e.Close()
	n := 1100 + 100*(idx%5)
	if err := e.Db.Update(nil, func(ctx boltz.MutateContext) error {
		ix := bpath(ctx.Tx(), "stores", "indexes", "emps", "name")
		if ix == nil {
			return fmt.Errorf("no name index bucket")
		}
		for i := 0; i < n; i++ {
			if err := ix.Put([]byte(fmt.Sprintf("zz-many-%05d", i)), []byte(fmt.Sprintf("gone-%05d", i))); err != nil {
				return err
			}
		}
		return nil
	}); err != nil {
		c.Violationf("C09 many inconsistencies: planting failed", nil, "%v", err)
		return
	}
	count := func(reps []report) int {
		seen := map[string]bool{}
		for _, r := range reps {
			if i := strings.Index(r.Msg, "zz-many-"); i >= 0 && len(r.Msg) >= i+13 {
				seen[r.Msg[i:i+13]] = true
			}
		}
		return len(seen)
	}
	for _, mode := range []string{"view", "update"} {
		reps, err := runIntegrity(e, false, mode)
		c.Eval()
		c.Count("check_runs_over_more_than_a_thousand_inconsistencies", 1)
		if got := count(reps); err != nil || got != n {
			c.Violationf("C09 a check-only run does not report every inconsistency of a badly damaged index ("+mode+")", map[string]any{"planted": n}, "%d of %d dangling unique index entries reported, err=%v", got, n, err)
		}
	}
	reps, err := runIntegrity(e, true, "update")
	if got := count(reps); err != nil || got != n {
		c.Violationf("C09 a fix run does not report every inconsistency of a badly damaged index", map[string]any{"planted": n}, "%d of %d reported, err=%v", got, n, err)
	}
	if reps, err := runIntegrity(e, false, "view"); err != nil || len(reps) > 0 {
		c.Violationf("C09 many inconsistencies: still reported after the fix run", map[string]any{"planted": n}, "%d reports, err=%v", len(reps), err)
	}
	c.Nontrivial("c09many", n)
}
