package props

import (
	"fmt"
	"os"
	"sort"

	"github.com/openziti/storage/boltz"
	"go.etcd.io/bbolt"
	"verif/harness/internal/core"
	"verif/harness/internal/schema"
)

// C04 part (d): a foreign key which belongs to a child store and does not allow null. The child part of an entity is
// created either together with the entity (create through the child store) or later, over an entity that exists in
// the parent store already (create through the child store again). In both situations the reference must name an
// existing target: a null reference and a dangling one are refused and leave nothing behind, a valid one is accepted
// and shows up in the target's back-reference set (index kinds).
const c04ChildCases = 18

func c04Child(c *core.Ctx, idx int) {
	r := c.Rand()
	kind := []schema.FKKind{schema.FkIndex, schema.FkIndexCascade, schema.FkConstraint, schema.FkIndexNullable}[idx%4]
	kindName := []string{"non-nullable fk index", "cascade-delete fk index", "non-nullable fk constraint", "nullable fk index"}[idx%4]
	depots := &schema.StoreDef{Type: "depots", BasePath: []string{"stores"},
		Fields: []schema.Field{{Name: "crates", Kind: schema.KList, FK: "crates", Derived: true}}}
	crates := &schema.StoreDef{Type: "crates", BasePath: []string{"stores"}, Fields: []schema.Field{{Name: "label", Kind: schema.KStr}}}
	fk := schema.FKDef{Field: "depot", Target: "depots", Kind: kind, BackRef: "crates"}
	if kind == schema.FkConstraint {
		fk = schema.FKDef{Field: "depot", Target: "depots", Kind: kind, Nullable: false, Cascade: int(boltz.CascadeNone)}
	}
	kid := &schema.StoreDef{Type: "crates", Parent: "crates", ChildPath: []string{"kid"}, Extended: idx%2 == 1,
		Fields: []schema.Field{{Name: "depot", Kind: schema.KStr, FK: "depots"}, {Name: "serial", Kind: schema.KStr}},
		Unique: []schema.UniqueDef{{Field: "serial", Nullable: false}},
		FKs:    []schema.FKDef{fk}}
	sc := schema.Build([]*schema.StoreDef{depots, crates, kid})
	path := c.TempFile("c04k")
	db, err := sc.OpenDb(path)
	if err != nil {
		c.Violation("C04 setup", err.Error(), nil)
		return
	}
	defer func() { _ = db.Close(); _ = os.Remove(path) }()
	pst, kst, dst := sc.St("crates"), sc.St("crates/kid"), sc.St("depots")
	if err := db.Update(nil, func(ctx boltz.MutateContext) error {
		for _, id := range []string{"d1", "d2"} {
			if err := dst.Store.Create(ctx, &schema.Ent{Id: id, Typ: "depots", V: map[string]any{}}); err != nil {
				return err
			}
		}
		return nil
	}); err != nil {
		c.Violation("C04 setup", err.Error(), nil)
		return
	}
	childOf := map[string]string{} // crate id -> depot, for crates with child data
	parentOnly := map[string]bool{}
	for step := 0; step < 40; step++ {
		id := fmt.Sprintf("c%d", r.Intn(8))
		ref := core.Pick(r, []string{"d1", "d2", "d1", "nowhere", "", "<nil>", "d1 ", " d2", id}) // blanks around an existing id name nothing; the last one: the entity's own id, which names no depot
		serial := core.Pick(r, []string{"sn-" + id, "sn-" + id, "<nil>"})
		_, hasChild := childOf[id]
		situation := "together with the entity"
		if parentOnly[id] {
			situation = "over an entity that exists in the parent store"
		} else if !hasChild && r.P(0.4) {
			// first the parent part on its own
			if err := db.Update(nil, func(ctx boltz.MutateContext) error {
				return pst.Store.Create(ctx, &schema.Ent{Id: id, Typ: "crates", V: map[string]any{"label": "l"}})
			}); err != nil {
				c.Violationf("C04 child-store fk: create through the parent store failed", nil, "%s: %v", id, err)
				return
			}
			parentOnly[id] = true
			situation = "over an entity that exists in the parent store"
		}
		if hasChild {
			// the child part exists: re-point the reference through the child store, or (nullable kind) clear it
			to := core.Pick(r, []string{"d1", "d2", "<nil>"})
			ent := &schema.Ent{Id: id, Typ: "crates", HasChild: true, V: map[string]any{"label": "l3", "serial": "sn-" + id}}
			if to != "<nil>" {
				ent.V["depot"] = to
			}
			wantOk := to != "<nil>" || kind == schema.FkIndexNullable
			uerr := db.Update(nil, func(ctx boltz.MutateContext) error { return kst.Store.Update(ctx, ent, nil) })
			c.Eval()
			c.Count("child_store_fk_updates", 1)
			c.Cover("child_fk", fmt.Sprintf("%s: update to %s", kindName, map[bool]string{true: "null", false: "another target"}[to == "<nil>"]))
			uinfo := map[string]any{"fk_kind": kindName, "id": id, "from": childOf[id], "to": to}
			if (uerr == nil) != wantOk {
				c.Violationf(fmt.Sprintf("C04 child-store foreign key (%s): update of the reference through the child store: expected accepted=%v", kindName, wantOk), uinfo, "returned %v", uerr)
			}
			if uerr == nil {
				childOf[id] = to
			}
			if kind != schema.FkConstraint {
				_ = db.View(func(tx *bbolt.Tx) error {
					for _, d := range []string{"d1", "d2"} {
						var want []string
						for cid, dep := range childOf {
							if dep == d {
								want = append(want, cid)
							}
						}
						sort.Strings(want)
						got := dst.Store.GetRelatedEntitiesIdList(tx, d, "crates")
						sort.Strings(got)
						if fmt.Sprint(got) != fmt.Sprint(want) {
							c.Violationf("C04 child-store fk ("+kindName+"): back-reference set differs from the committed references after an update", uinfo, "depot %s: crates %q, referencing child parts %q", d, got, want)
						}
					}
					return nil
				})
			}
			continue
		}
		ent := &schema.Ent{Id: id, Typ: "crates", HasChild: true, V: map[string]any{"label": "l2"}}
		if ref != "<nil>" {
			ent.V["depot"] = ref
		}
		if serial != "<nil>" {
			ent.V["serial"] = serial
		}
		refClass := map[string]string{"d1": "existing target", "d2": "existing target", "nowhere": "dangling reference", "d1 ": "dangling reference (an existing id with a trailing blank)", " d2": "dangling reference (an existing id with a leading blank)", "": "empty reference", "<nil>": "null reference", id: "dangling reference that is the entity's own id"}[ref]
		wantOk := (refClass == "existing target" || (kind == schema.FkIndexNullable && (refClass == "null reference" || refClass == "empty reference"))) && serial != "<nil>"
		opErr := db.Update(nil, func(ctx boltz.MutateContext) error { return kst.Store.Create(ctx, ent) })
		c.Eval()
		c.Count("child_store_fk_creates", 1)
		serialClass := map[bool]string{true: "null value for the non-nullable unique index", false: "unique value"}[serial == "<nil>"]
		c.Cover("child_fk", fmt.Sprintf("%s: %s, %s", kindName, refClass, situation))
		c.Nontrivial("c04child", kindName, refClass, serialClass, situation, kid.Extended)
		info := map[string]any{"fk_kind": kindName, "reference": refClass, "unique_field": serialClass, "situation": situation, "extended_child_store": kid.Extended, "id": id}
		if (opErr == nil) != wantOk {
			c.Violationf(fmt.Sprintf("C04 child-store foreign key (%s): create through the child store %s with %s / %s: expected accepted=%v", kindName, situation, refClass, serialClass, wantOk), info, "returned %v", opErr)
		}
		if opErr == nil {
			delete(parentOnly, id)
			childOf[id] = ref
		}
		// what is there afterwards
		_ = db.View(func(tx *bbolt.Tx) error {
			for cid, dep := range childOf {
				e, found, err := kst.Store.FindById(tx, cid)
				if err != nil || !found {
					c.Violationf("C04 child-store fk: an accepted child part is not there", info, "crate %s: found=%v err=%v", cid, found, err)
					continue
				}
				if got, _ := e.V["depot"].(string); got != dep && (dep == "d1" || dep == "d2") {
					c.Violationf("C04 child-store fk: stored reference differs", info, "crate %s: depot %q, written %q", cid, got, dep)
				}
				if got, _ := e.V["depot"].(string); !dst.Store.IsEntityPresent(tx, got) && !(kind == schema.FkIndexNullable && got == "") {
					c.Violationf("C04 child-store fk ("+kindName+"): a committed reference names no existing target", info, "crate %s -> depot %q", cid, got)
				}
			}
			for cid := range parentOnly {
				if kst.Store.IsEntityPresent(tx, cid) && !kid.Extended {
					c.Violationf("C04 child-store fk: a refused create left child data behind", info, "crate %s", cid)
				}
			}
			if kind != schema.FkConstraint {
				for _, d := range []string{"d1", "d2"} {
					var want []string
					for cid, dep := range childOf {
						if dep == d {
							want = append(want, cid)
						}
					}
					sort.Strings(want)
					got := dst.Store.GetRelatedEntitiesIdList(tx, d, "crates")
					sort.Strings(got)
					if fmt.Sprint(got) != fmt.Sprint(want) {
						c.Violationf("C04 child-store fk ("+kindName+"): back-reference set differs from the committed references", info, "depot %s: crates %q, referencing child parts %q", d, got, want)
					}
				}
			}
			return nil
		})
	}
}
