package props

import (
	"fmt"
	"os"
	"sort"
	"strings"
	"sync"
	"unicode/utf8"

	"github.com/openziti/storage/ast"
	"github.com/openziti/storage/boltz"
	"github.com/openziti/storage/zitiql"
	"go.etcd.io/bbolt"
	"verif/harness/internal/core"
	"verif/harness/internal/memsym"
	"verif/harness/internal/ql"
	"verif/harness/internal/schema"
)

var c11Alphabet = []string{"a", "n", "t", `"`, `\`, " ", "é", "\n", "\t", "\r", "\f"}

// confusables returns strings a mis-decoding of lit(s) could produce or match instead of s.
func confusables(s string) []string {
	set := map[string]bool{}
	add := func(x string) {
		if x != s {
			set[x] = true
		}
	}
	esc := map[string]string{`\n`: "\n", `\t`: "\t", `\r`: "\r", `\f`: "\f"}
	// backslash+letter read as a control character, and the reverse
	x, y := s, s
	for k, v := range esc {
		x = strings.ReplaceAll(x, k, v)
		y = strings.ReplaceAll(y, v, k)
	}
	add(x)
	add(y)
	add(strings.ReplaceAll(s, `\\`, `\`))
	add(strings.ReplaceAll(s, `\`, `\\`))
	add(strings.ReplaceAll(s, `\"`, `"`))
	add(strings.ReplaceAll(s, `"`, `\"`))
	add(strings.ReplaceAll(s, `\`, ""))
	add(strings.ReplaceAll(s, `"`, ""))
	add(strings.Trim(s, `"`))
	add(strings.TrimSuffix(s, `"`) + `\`)
	add(s + `\`)
	add(s + `"`)
	add(`\` + s)
	add(strings.TrimSpace(s))
	add(strings.ToUpper(s))
	if !utf8.ValidString(s) {
		add(strings.ToValidUTF8(s, "\uFFFD"))
		add(strings.ReplaceAll(s, "\xff", "\xfe"))
		add(strings.ReplaceAll(s, "\xfe", "\xff"))
	}
	// the literal text itself (escapes not decoded at all)
	lit := ql.Lit(s)
	add(lit[1 : len(lit)-1])
	var out []string
	for k := range set {
		out = append(out, k)
	}
	sort.Strings(out)
	return out
}

// c11Count is the number of strings of length <= maxLen; c11String(i) is the i-th in length-then-lexicographic order.
func c11Count(maxLen int) int {
	n, p := 1, 1
	for l := 1; l <= maxLen; l++ {
		p *= len(c11Alphabet)
		n += p
	}
	return n
}

func c11String(i int) string {
	if i == 0 {
		return ""
	}
	i--
	l, p := 1, len(c11Alphabet)
	for i >= p {
		i -= p
		p *= len(c11Alphabet)
		l++
	}
	parts := make([]string, l)
	for k := l - 1; k >= 0; k-- {
		parts[k] = c11Alphabet[i%len(c11Alphabet)]
		i /= len(c11Alphabet)
	}
	return strings.Join(parts, "")
}

const c11Chunk = 400

func init() {
	core.Register(&core.Property{
		ID:    "C11",
		Level: "exploration",
		Rule: "every string over {a, n, t, \", \\, space, é, LF, TAB, CR, FF} up to length 4 (quick) / 6 (thorough, 1948717 strings; exhaustive) plus random strings to length 12: lit(s) escapes backslash and double quote and writes the four control characters as \\n \\t \\r \\f. " +
			"Oracles: ParseZqlString(lit(s)) == s; over rows holding s and its confusables (escape sequences decoded / not decoded / doubled, quotes trimmed, ...) the filters f = lit, f != lit, f in [lit], f in [lit, \"\"] / [\"\", lit] / [other, lit], f not in [lit, \"\"], f contains lit, the same comparisons on a map element (any-type symbol), anyOf(tags) = lit (seek path) and anyOf(tags) != lit " +
			"and families of look-alike lists ([\"a, b\"] / [\"a\", \"b\"] / [\"b\", \"a\"], [\"x\", \"y, z\"] / [\"x, y\", \"z\"], elements holding quote-comma-quote, [\"mn\"] / [\"m\", \"n\"], duplicates), each list parsed after its look-alikes in the same process in two orders, under in / not in / map element in / anyOf in, " +
			"must select exactly the rows the string semantics selects, evaluated through package ast over an in-memory symbol table and (sampled) through a bolt store. non-trivial = distinct strings that contain at least one of backslash, quote or a control character",
		Assumptions: []string{"the literal spelling is the one the statement describes; other spellings (raw control characters) are not sentences"},
		Exhaustive:  func(t core.Tier) bool { return true },
		Plan: func(tier core.Tier, seed int64) int {
			n := c11Count(4)
			if tier == core.Thorough {
				n = c11Count(6) // 1948717 strings
			}
			return (n+c11Chunk-1)/c11Chunk + 16
		},
		Run: runC11,
	})
}

func runC11(c *core.Ctx, idx int) {
	r := c.Rand()
	maxLen := 4
	if c.Tier == core.Thorough {
		maxLen = 6
	}
	total := c11Count(maxLen)
	nChunks := (total + c11Chunk - 1) / c11Chunk
	var strs []string
	if idx < nChunks {
		for i := idx * c11Chunk; i < (idx+1)*c11Chunk && i < total; i++ {
			strs = append(strs, c11String(i))
		}
	} else {
		// strings that read like another kind of literal: they denote themselves, whatever the symbol they are compared with
		strs = append(strs, "2023-01-01T00:00:00Z", "2020-01-02T03:04:05.123+05:45", "datetime(2020-01-02T03:04:05Z)", "true", "false", "null", "123", "-1", "1.5", "1e3", "[1]", `["a"]`, "anyOf(a)", "a and b", "not", "", "Alice", "alice", "ALICE", " a", "a ", "AN", "an",
			// byte strings that are not valid UTF-8 (an id read from elsewhere): a filter over one is refused or denotes it,
			// it never denotes another string (the replacement character, another invalid byte)
			"\xff", "\xfe", "a\xffb", "\xc0\xaf", "\x80", "\uFFFD")
		for i := 0; i < 150; i++ {
			n := 5 + r.Intn(8)
			var sb strings.Builder
			for j := 0; j < n; j++ {
				sb.WriteString(core.Pick(r, c11Alphabet))
			}
			strs = append(strs, sb.String())
		}
	}
	tbl := memsym.NewTable()
	tbl.Types["f"] = ast.NodeTypeString
	tbl.Types["tags"] = ast.NodeTypeString
	tbl.Sets["tags"] = true
	tbl.Types["mp.k"] = ast.NodeTypeAnyType

	// bolt store for the sampled path
	def := &schema.StoreDef{Type: "strs", BasePath: []string{"stores"}, Fields: []schema.Field{{Name: "f", Kind: schema.KStr}, {Name: "tags", Kind: schema.KList}, {Name: "mp", Kind: schema.KMap}, {Name: "u", Kind: schema.KStr}},
		// u holds what f holds and has a (nullable) unique index: the index knows no entry for the empty string
		Unique: []schema.UniqueDef{{Field: "u", Nullable: true}}}
	sc := schema.Build([]*schema.StoreDef{def})
	path := c.TempFile("c11")
	db, err := sc.OpenDb(path)
	if err != nil {
		c.Violation("C11 setup", err.Error(), nil)
		return
	}
	defer func() { _ = db.Close(); _ = os.Remove(path) }()
	st := sc.St("strs")

	c11LongLiteral(c, tbl)
	// the look-alike lists come first in every worker process, before this process has parsed any other list (whatever
	// the library remembers about lists it has seen is empty then), and again at the end of the list cases
	c11FirstInProcess.Do(func() {
		for round := 0; round < 2; round++ {
			c11Lists(c, tbl, db, st, round+idx)
		}
		c.Count("list_families_as_the_first_lists_of_a_process", 1)
	})

	for si, s := range strs {
		lit := ql.Lit(s)
		special := strings.ContainsAny(s, "\\\"\n\t\r\f")
		c.Eval()
		if got := zitiql.ParseZqlString(lit); got != s {
			c.Violationf("C11 ParseZqlString(lit(s)) != s: "+classifyEsc(s, got), map[string]any{"s": s, "lit": lit}, "s=%q lit=%s decoded=%q", s, lit, got)
		}
		if special {
			c.Nontrivial(s)
		}
		cands := append([]string{s}, confusables(s)...)
		if s != "" {
			hasEmpty := false
			for _, cand := range cands {
				if cand == "" {
					hasEmpty = true
				}
			}
			if !hasEmpty {
				cands = append(cands, "")
			}
		}
		type q struct {
			name string
			text string
			pred func(row string) bool
			set  bool
		}
		qs := []q{
			{"=", "f = " + lit, func(row string) bool { return row == s }, false},
			{"!=", "f != " + lit, func(row string) bool { return row != s }, false},
			{"in", "f in [" + lit + "]", func(row string) bool { return row == s }, false},
			{"contains", "f contains " + lit, func(row string) bool { return strings.Contains(row, s) }, false},
			{"in [lit, \"\"]", "f in [" + lit + `, ""]`, func(row string) bool { return row == s || row == "" }, false},
			{"in [\"\", lit]", `f in ["", ` + lit + "]", func(row string) bool { return row == s || row == "" }, false},
			{"in [other, lit]", `f in ["zz-other", ` + lit + "]", func(row string) bool { return row == s || row == "zz-other" }, false},
			{"not in [lit, \"\"]", "f not in [" + lit + `, ""]`, func(row string) bool { return row != s && row != "" }, false},
			{"map element =", "mp.k = " + lit, func(row string) bool { return row == s }, false},
			{"map element !=", "mp.k != " + lit, func(row string) bool { return row != s }, false},
			{"map element in", "mp.k in [" + lit + "]", func(row string) bool { return row == s }, false},
			{"anyOf =", "anyOf(tags) = " + lit, nil, true},
			// the same literal twice in one filter, under a case-insensitive and a case-sensitive operator
			{"icontains and =", "f icontains " + lit + " and f = " + lit, func(row string) bool { return row == s }, false},
			{"= and icontains", "f = " + lit + " and f icontains " + lit, func(row string) bool { return row == s }, false},
			// two comparisons of one field joined by or: each keeps its own operator
			{"= other or contains lit", `f = "zz-other" or f contains ` + lit, func(row string) bool { return row == "zz-other" || strings.Contains(row, s) }, false},
			{"= lit or != lit", "f = " + lit + ` or f != ` + lit, func(row string) bool { return true }, false},
			{"= other or > lit", `f = "zz-other" or f > ` + lit, func(row string) bool { return row == "zz-other" || row > s }, false},
			// two comparisons over the same set in one filter: each looks at the whole set
			{"anyOf in, after a miss on the same set", `anyOf(tags) in ["zz-none"] or anyOf(tags) in [` + lit + "]", nil, true},
			{"anyOf contains, after a miss on the same set", `anyOf(tags) != "zz-none-a" and anyOf(tags) = ` + lit, nil, true},
		}
		for _, qq := range qs {
			query, err := ast.Parse(tbl, qq.text)
			c.Eval()
			if err != nil {
				if !utf8.ValidString(s) {
					c.Count("filters_over_invalid_utf8_refused", 1)
					continue // text that is not valid UTF-8 is no sentence: refusing it is fine
				}
				c.Violationf("C11 literal rejected: "+qq.name, map[string]any{"s": s, "query": qq.text}, "query %s for s=%q: %v", qq.text, s, err)
				continue
			}
			if !qq.set {
				for _, cand := range cands {
					row := memsym.NewRow(tbl)
					row.Vals["f"] = cand
					row.Vals["mp.k"] = cand
					want := qq.pred(cand)
					if got := query.EvalBool(row); got != want {
						c.Violationf("C11 literal denotes another string ("+qq.name+"): "+classifyEsc(s, cand), map[string]any{"s": s, "row": cand, "query": qq.text},
							"query %s (s=%q) on row %q: got %v want %v", qq.text, s, cand, got, want)
					}
				}
			} else {
				// one row whose tag set is exactly the confusables (must not match), one that also holds s (must match)
				for _, with := range []bool{false, true} {
					row := memsym.NewRow(tbl)
					var tags []any
					for _, cand := range cands[1:] {
						tags = append(tags, cand)
					}
					if with {
						tags = append(tags, s)
					}
					row.SetVals["tags"] = tags
					if got := query.EvalBool(row); got != with {
						c.Violationf("C11 literal denotes another string (anyOf seek): "+classifyEsc(s, ""), map[string]any{"s": s, "tags": fmt.Sprintf("%q", tags), "query": qq.text},
							"query %s (s=%q) over tags %q: got %v want %v", qq.text, s, tags, got, with)
					}
				}
			}
		}
		// bolt path, sampled
		if (special && (si%8 == 0 || idx >= nChunks)) || s == "" || (!special && si%50 == 0) {
			c11Bolt(c, db, st, s, cands)
		}
		if c.WantSample() && special && len(s) >= 3 {
			c.Sample(map[string]any{"s": s, "literal": lit, "confusable_rows": len(cands) - 1})
		}
	}
	if idx >= nChunks {
		for round := 0; round < 2; round++ {
			c11Lists(c, tbl, db, st, round+idx)
		}
	}
}

// c11ListFamilies: lists of literals which read alike once their structure is flattened (joined by ", ", concatenated,
// quotes dropped, order ignored). Each list denotes exactly its own elements, whichever look-alike was parsed before it
// in the same process.
var c11ListFamilies = [][][]string{
	{{"a, b"}, {"a", "b"}, {"b", "a"}, {"b, a"}, {"a,b"}, {"a", " b"}},
	{{"x", "y, z"}, {"x, y", "z"}, {"x", "y", "z"}, {"x, y, z"}, {"z", "y", "x"}},
	{{`p", "q`}, {"p", "q"}, {`p"`, `"q`}, {`p\", \"q`}},
	{{"mn"}, {"m", "n"}, {"", "mn"}, {"m", "", "n"}, {"mn", ""}},
	{{"k", "k"}, {"k"}, {"k, k"}, {"kk"}},
}

var c11FirstInProcess sync.Once

func c11Lists(c *core.Ctx, tbl *memsym.Table, db *boltz.DbImpl, st *schema.St, round int) {
	for fi, fam := range c11ListFamilies {
		// the rows: every element of every list of the family
		seen := map[string]bool{}
		var rows []string
		for _, l := range fam {
			for _, e := range l {
				if !seen[e] {
					seen[e] = true
					rows = append(rows, e)
				}
			}
		}
		err := db.Update(nil, func(ctx boltz.MutateContext) error {
			ids, _, _ := st.Store.QueryIds(ctx.Tx(), "true")
			for _, id := range ids {
				if err := st.Store.DeleteById(ctx, id); err != nil {
					return err
				}
			}
			for i, row := range rows {
				tags := []string{"zz"}
				if row != "" {
					tags = append(tags, row)
				}
				if err := st.Store.Create(ctx, &schema.Ent{Id: fmt.Sprintf("r%02d", i), Typ: "strs", V: map[string]any{"f": row, "tags": tags, "mp": map[string]any{"k": row}}}); err != nil {
					return err
				}
			}
			return nil
		})
		if err != nil {
			c.Violationf("C11 bolt setup failed", fam, "%v", err)
			return
		}
		order := make([]int, len(fam))
		for i := range order {
			order[i] = (i + round) % len(fam) // another order per round: rotated, and back to front in odd rounds
			if round%2 == 1 {
				order[i] = (len(fam) - 1 - i + round) % len(fam)
			}
		}
		for _, li := range order {
			l := fam[li]
			var lits []string
			in := map[string]bool{}
			for _, e := range l {
				lits = append(lits, ql.Lit(e))
				in[e] = true
			}
			list := "[" + strings.Join(lits, ", ") + "]"
			for _, form := range []struct {
				name, text string
				neg        bool
			}{{"in", "f in " + list, false}, {"not in", "f not in " + list, true}, {"map element in", "mp.k in " + list, false}, {"anyOf in", "anyOf(tags) in " + list, false}} {
				info := map[string]any{"query": form.text, "list": fmt.Sprintf("%q", l), "family": fi, "rows": fmt.Sprintf("%q", rows)}
				c.Count("list_queries", 1)
				if form.name != "anyOf in" {
					query, err := ast.Parse(tbl, form.text)
					c.Eval()
					if err != nil {
						c.Violationf("C11 list of literals rejected ("+form.name+")", info, "%v", err)
						continue
					}
					for _, cand := range rows {
						row := memsym.NewRow(tbl)
						row.Vals["f"], row.Vals["mp.k"] = cand, cand
						if got, want := query.EvalBool(row), in[cand] != form.neg; got != want {
							c.Violationf("C11 a list of literals denotes other strings than its elements ("+form.name+")", info, "row %q: got %v want %v", cand, got, want)
						}
					}
				}
				_ = db.View(func(tx *bbolt.Tx) error {
					ids, _, err := st.Store.QueryIds(tx, form.text)
					c.Eval()
					var want []string
					for i, cand := range rows {
						if (in[cand] != form.neg) && !(form.name == "anyOf in" && cand == "") {
							want = append(want, fmt.Sprintf("r%02d", i))
						}
					}
					if err != nil || fmt.Sprint(ids) != fmt.Sprint(want) {
						c.Violationf("C11 bolt store: a list of literals denotes other strings than its elements ("+form.name+")", info, "got %v err=%v want %v", ids, err, want)
					}
					return nil
				})
			}
		}
	}
}

func classifyEsc(s, got string) string {
	switch {
	case strings.Contains(s, `\n`) || strings.Contains(s, `\t`) || strings.Contains(s, `\r`) || strings.Contains(s, `\f`):
		return "backslash followed by an escape letter"
	case strings.HasSuffix(s, `"`):
		return "trailing double quote"
	case strings.HasPrefix(s, `\`) || strings.HasPrefix(s, `"`) || strings.HasPrefix(s, "\n") || strings.HasPrefix(s, "\t"):
		return "leading escaped character"
	case strings.Contains(s, `\`):
		return "backslash"
	case strings.Contains(s, `"`):
		return "double quote"
	case strings.ContainsAny(s, "\n\t\r\f"):
		return "control character"
	}
	return "plain"
}

func c11Bolt(c *core.Ctx, db *boltz.DbImpl, st *schema.St, s string, cands []string) {
	lit := ql.Lit(s)
	uHolder := map[int]bool{} // rows whose unique-indexed field holds the row's string (the first row of each string)
	err := db.Update(nil, func(ctx boltz.MutateContext) error {
		// replace the rows
		ids, _, _ := st.Store.QueryIds(ctx.Tx(), "true")
		for _, id := range ids {
			if err := st.Store.DeleteById(ctx, id); err != nil {
				return err
			}
		}
		// one more row whose field is null (not the empty string)
		if err := st.Store.Create(ctx, &schema.Ent{Id: "rnull", Typ: "strs", V: map[string]any{"f": nil, "tags": []string{"zz"}}}); err != nil {
			return err
		}
		seenU := map[string]bool{}
		for i, cand := range cands {
			tags := []string{"zz"}
			if cand != "" {
				tags = append(tags, cand)
			}
			v := map[string]any{"f": cand, "tags": tags, "mp": map[string]any{"k": cand}}
			if !seenU[cand] {
				seenU[cand] = true
				v["u"] = cand
				uHolder[i] = true
			}
			if err := st.Store.Create(ctx, &schema.Ent{Id: fmt.Sprintf("r%02d", i), Typ: "strs", V: v}); err != nil {
				return err
			}
		}
		return nil
	})
	if err != nil {
		c.Violationf("C11 bolt setup failed", s, "%v", err)
		return
	}
	_ = db.View(func(tx *bbolt.Tx) error {
		check := func(name, text string, pred func(i int, cand string) bool) {
			ids, _, err := st.Store.QueryIds(tx, text)
			c.Eval()
			var want []string
			for i, cand := range cands {
				if pred(i, cand) {
					want = append(want, fmt.Sprintf("r%02d", i))
				}
			}
			if name == "!=" {
				want = append(want, "rnull") // a null field differs from every string literal
			}
			if err != nil && !utf8.ValidString(text) {
				return // refused: not valid UTF-8
			}
			if err != nil || fmt.Sprint(ids) != fmt.Sprint(want) {
				c.Violationf("C11 bolt store: literal denotes another string ("+name+"): "+classifyEsc(s, ""), map[string]any{"s": s, "rows": fmt.Sprintf("%q", cands), "query": text},
					"query %s (s=%q): got %v err=%v want %v over rows %q", text, s, ids, err, want, cands)
			}
		}
		check("=", "f = "+lit, func(_ int, cand string) bool { return cand == s })
		check("!=", "f != "+lit, func(_ int, cand string) bool { return cand != s })
		check("contains", "f contains "+lit, func(_ int, cand string) bool { return strings.Contains(cand, s) })
		check(`in [lit, ""]`, "f in ["+lit+`, ""]`, func(_ int, cand string) bool { return cand == s || cand == "" })
		check(`in ["", lit]`, `f in ["", `+lit+"]", func(_ int, cand string) bool { return cand == s || cand == "" })
		check("map element =", "mp.k = "+lit, func(_ int, cand string) bool { return cand == s })
		check("map element in", "mp.k in ["+lit+"]", func(_ int, cand string) bool { return cand == s })
		check("icontains and =", "f icontains "+lit+" and f = "+lit, func(_ int, cand string) bool { return cand == s })
		check("unique-indexed field =", "u = "+lit, func(i int, cand string) bool { return uHolder[i] && cand == s })
		check("unique-indexed field = (paged)", "u = "+lit+" skip 0 limit 5", func(i int, cand string) bool { return uHolder[i] && cand == s })
		check("unique-indexed field in", "u in ["+lit+"]", func(i int, cand string) bool { return uHolder[i] && cand == s })
		if s != "" {
			check("anyOf in, after a miss on the same set", `anyOf(tags) in ["zz-none"] or anyOf(tags) in [`+lit+"]", func(_ int, cand string) bool { return cand == s })
			check("anyOf !=, then = on the same set", `anyOf(tags) != "zz-none-a" and anyOf(tags) = `+lit, func(_ int, cand string) bool { return cand == s })
			check("anyOf =", "anyOf(tags) = "+lit, func(_ int, cand string) bool { return cand == s })
			check("anyOf in", "anyOf(tags) in ["+lit+"]", func(_ int, cand string) bool { return cand == s })
		}
		// the same filter with a literal that differs from s in letter case or outer blanks only, asked right after it of
		// the same store: it denotes the variant, not s
		for _, variant := range []string{strings.ToUpper(s), strings.ToLower(s), " " + s, s + " ", strings.TrimSpace(s)} {
			if variant == s {
				continue
			}
			variant := variant
			vlit := ql.Lit(variant)
			check("= (case / blank variant asked after the original)", "f = "+vlit, func(_ int, cand string) bool { return cand == variant })
			check("in (case / blank variant asked after the original)", "f in ["+vlit+"]", func(_ int, cand string) bool { return cand == variant })
		}
		return nil
	})
}

// c11LongLiteral: literals longer than anything bbolt would take as a key (32768 bytes) compared with a field that holds
// exactly such a value: a literal denotes its string, however long.
func c11LongLiteral(c *core.Ctx, tbl *memsym.Table) {
	for _, n := range []int{32767, 32768, 32769, 40000, 70000} {
		long := strings.Repeat("L", n-1) + "x"
		other := strings.Repeat("L", n-1) + "y"
		lit := ql.Lit(long)
		for _, tc := range []struct {
			name, text string
			want       func(row string) bool
		}{
			{"=", "f = " + lit, func(row string) bool { return row == long }},
			{"!=", "f != " + lit, func(row string) bool { return row != long }},
			{"in", "f in [" + lit + "]", func(row string) bool { return row == long }},
			{"contains", "f contains " + lit, func(row string) bool { return strings.Contains(row, long) }},
			{"not contains", "f not contains " + lit, func(row string) bool { return !strings.Contains(row, long) }},
		} {
			q, err := ast.Parse(tbl, tc.text)
			c.Eval()
			c.Count("long_literal_queries", 1)
			if err != nil {
				c.Violationf("C11 a filter with a long string literal is refused ("+tc.name+")", map[string]any{"literal_bytes": n}, "%v", err)
				continue
			}
			for _, cand := range []string{long, other, "L", ""} {
				row := memsym.NewRow(tbl)
				row.Vals["f"] = cand
				if got := q.EvalBool(row); got != tc.want(cand) {
					c.Violationf("C11 a long string literal does not denote its string ("+tc.name+")", map[string]any{"literal_bytes": n, "row_bytes": len(cand)}, "f %s <literal of %d bytes> over a row of %d bytes (equal: %v) evaluates to %v", tc.name, n, len(cand), cand == long, got)
				}
			}
		}
	}
}
