package props

import (
	"context"
	"fmt"
	"os"
	"reflect"
	"sort"

	"github.com/openziti/storage/boltz"
	"go.etcd.io/bbolt"
	"verif/harness/internal/core"
	"verif/harness/internal/dump"
	"verif/harness/internal/schema"
)

type c16Ent struct {
	Name     string
	IsSystem bool
	Tags     map[string]any
	Child    bool // has data in the child store
	Extra    string
}

type c16Op struct {
	Kind    string         `json:"kind"` // create update patch delete
	Child   bool           `json:"through_child_store,omitempty"`
	Over    bool           `json:"create_over_existing_parent,omitempty"`
	Extra   string         `json:"extra,omitempty"`
	Id      string         `json:"id"`
	SysCtx  bool           `json:"system_context"`
	SysVia  int            `json:"system_context_derivation,omitempty"`
	Flag    bool           `json:"entity_is_system_flag"`
	Migrate bool           `json:"migrate,omitempty"`
	Defer   bool           `json:"in_pre_commit_action,omitempty"`
	Name    string         `json:"name"`
	Tags    map[string]any `json:"tags,omitempty"`
	Fields  []string       `json:"fields,omitempty"`
	Exp     string         `json:"exp"`
}

func init() {
	core.Register(&core.Property{
		ID:    "C16",
		Level: "exploration",
		Rule: "random histories over a BaseExtEntity store with the system-entity constraint: create/update/patch/delete x {ordinary, system} context (contexts mixed inside one transaction via GetSystemContext / NewSystemMutateContext) x " +
			"{ordinary, system} entity, with update payloads that try to flip the flag in both directions (with and without the Migrate marker) and field checkers that include or skip written fields; " +
			"the same operations through a child store of that store (incl. a child-store create over an existing parent-only system entity from an ordinary context), and tolerant callers that ignore the error of a refused update / delete, carry on in the same transaction and commit; " +
			"the last operation of a third of the transactions runs inside a pre-commit action through the context the action is handed (ordinary unless the action derives a system context itself, also when earlier operations of the transaction derived one); " +
			"part (b): all 32 combinations of (widget flag, flags of two gadgets that reference it through a cascade-delete fk, context, DeleteById / DeleteWhere): from an ordinary context the delete may only succeed when no system entity is in its cascade closure, refused deletes change nothing; " +
			"part (c): the constraint declared on a child store: update / delete / DeleteWhere of a protected child entity through the child and through the parent store, from both context kinds; " +
			"model predicts accept/reject; after every transaction every entity is read back (flag, name, tags) and compared, refused transactions must leave the whole-file dump unchanged; " +
			"non-trivial = distinct (op, context kind, stored flag, payload flag, migrate, checker shape, outcome, position in transaction) tuples",
		Assumptions: []string{"createdAt/updatedAt timestamps are not compared"},
		Plan: func(tier core.Tier, seed int64) int {
			if tier == core.Thorough {
				return 24000 + c16CascadeCases*4 + c16ChildCases
			}
			return 480 + c16CascadeCases + c16ChildCases
		},
		Run: runC16,
		Promises: func(core.Tier) map[string][]string {
			var want []string
			for _, k := range []string{"create", "update", "patch", "delete"} {
				for _, ctx := range []string{"sysctx", "plainctx"} {
					for _, st := range []string{"sysent", "plainent"} {
						exp := "ok"
						if ctx == "plainctx" && st == "sysent" {
							exp = "reject"
						}
						want = append(want, k+":"+ctx+":"+st+":"+exp)
					}
				}
			}
			return map[string][]string{"combo": want, "flip": {"to-system:plainctx", "to-system:sysctx", "to-ordinary:sysctx", "to-system-migrate:plainctx", "to-system-migrate:sysctx", "child-create-over-sysent-parent:plainctx:payload-flag=false", "child-create-over-sysent-parent:plainctx:payload-flag=true", "child-create-over-sysent-parent:sysctx:payload-flag=false",
				"child-create-over-plainent-parent:plainctx:payload-flag=true", "child-create-over-plainent-parent:sysctx:payload-flag=true", "child-create-over-plainent-parent:plainctx:payload-flag=false"},
				"system_context_via": {"GetSystemContext", "NewSystemMutateContext", "GetSystemContext twice", "NewSystemMutateContext over a system context", "ordinary after UpdateContext", "the context the transaction function is handed", "a system context after UpdateContext"},
				"child_constraint":   {"delete through the parent store from ordinary context", "delete through the child store from ordinary context", "update through the child store from ordinary context", "DeleteWhere through the parent store from ordinary context", "delete through the parent store from system context"},
				"cascade":            {"any-system=true:ordinary:DeleteById", "any-system=true:ordinary:DeleteWhere", "any-system=true:system:DeleteById", "any-system=false:ordinary:DeleteById", "any-system=false:ordinary:DeleteWhere"},
				"transaction_via":    {"Update", "Batch", "Update opened with a system context", "Batch opened with a system context"},
				"tolerant":           {"update:plainctx:sysent", "patch:plainctx:sysent", "delete:plainctx:sysent"},
				"pre_commit_op": {"ordinary context, expected reject, system context derived earlier in the transaction=true", "ordinary context, expected reject, system context derived earlier in the transaction=false", "system context, expected ok, system context derived earlier in the transaction=false",
					"ordinary context, expected ok, system context derived earlier in the transaction=true"}}
		},
	})
}

func runC16(c *core.Ctx, idx int) {
	nHist := 480
	if c.Tier == core.Thorough {
		nHist = 24000 // (200000 before every widget carried links, a nested part and a child-store index: about ten minutes now)
	}
	nCascade := c16CascadeCases
	if c.Tier == core.Thorough {
		nCascade *= 4
	}
	if idx >= nHist+nCascade {
		c16Child(c, idx-nHist-nCascade)
		return
	}
	if idx >= nHist {
		c16Cascade(c, (idx-nHist)%c16CascadeCases)
		return
	}
	r := c.Rand()
	// code and labels never change and never clash (derived from the id): their index entries exist exactly as long as
	// the entity does, whatever was refused in between
	def := &schema.StoreDef{Type: "widgets", BasePath: []string{"stores"}, Ext: true, System: true,
		Fields: []schema.Field{{Name: "name", Kind: schema.KStr}, {Name: "code", Kind: schema.KStr}, {Name: "labels", Kind: schema.KList},
			// a field the strategy writes through a nested bucket of the entity (settings/zone): it follows the name
			{Name: "zone", Kind: schema.KStr, Prefix: []string{"settings"}},
			// a required string, written through PersistContext.SetRequiredString
			{Name: "title", Kind: schema.KStrReq},
			{Name: "pegs", Kind: schema.KList, FK: "pegs", Derived: true}, {Name: "rpegs", Kind: schema.KList, FK: "pegs", Derived: true}},
		Unique: []schema.UniqueDef{{Field: "code", Nullable: true}}, SetIdx: []string{"labels"},
		Links: []schema.LinkDef{{Field: "pegs", Target: "pegs", TargetField: "widgets"}, {Field: "rpegs", Target: "pegs", TargetField: "rwidgets", RefCounted: true}}}
	// every widget is linked to both pegs from its creation on (a link collection and a ref-counted one): the links,
	// seen from either side, exist exactly as long as the widget does - a refused delete leaves them alone
	pegs := &schema.StoreDef{Type: "pegs", BasePath: []string{"stores"},
		Fields: []schema.Field{{Name: "widgets", Kind: schema.KList, FK: "widgets", Derived: true}, {Name: "rwidgets", Kind: schema.KList, FK: "widgets", Derived: true}},
		Links:  []schema.LinkDef{{Field: "widgets", Target: "widgets", TargetField: "pegs"}, {Field: "rwidgets", Target: "widgets", TargetField: "rpegs", RefCounted: true}}}
	// the child store has an index of its own (kcode, derived from the id like code): it goes when the child data goes,
	// and only then - not when a delete is refused further up
	kid := &schema.StoreDef{Type: "widgets", Parent: "widgets", ChildPath: []string{"kid"}, Fields: []schema.Field{{Name: "extra", Kind: schema.KStr}, {Name: "kcode", Kind: schema.KStr}},
		Unique: []schema.UniqueDef{{Field: "kcode", Nullable: true}}}
	sc := schema.Build([]*schema.StoreDef{def, kid, pegs})
	kst := sc.St("widgets/kid")
	pst := sc.St("pegs")
	path := c.TempFile("c16")
	db, err := sc.OpenDb(path)
	if err != nil {
		c.Violation("C16 setup", err.Error(), nil)
		return
	}
	defer func() { _ = db.Close(); _ = os.Remove(path) }()
	st := sc.St("widgets")
	if err := db.Update(nil, func(ctx boltz.MutateContext) error {
		for _, id := range []string{"p1", "p2"} {
			if err := pst.Store.Create(ctx, &schema.Ent{Id: id, Typ: "pegs", V: map[string]any{}}); err != nil {
				return err
			}
		}
		return nil
	}); err != nil {
		c.Violation("C16 setup", err.Error(), nil)
		return
	}
	model := map[string]*c16Ent{}
	ids := []string{"w1", "w2", "w3", "w4", "w5"}
	names := []string{"a", "b", "c", ""}
	tagPool := []map[string]any{nil, {}, {"k": "v"}, {"k": int64(3), "b": true}}

	dumpNow := func() *dump.Dump {
		var d *dump.Dump
		_ = db.View(func(tx *bbolt.Tx) error { d = dump.Tx(tx); return nil })
		return d
	}
	predict := func(m map[string]*c16Ent, op *c16Op) {
		cur, exists := m[op.Id]
		switch op.Kind {
		case "create":
			if exists && op.Over && !cur.Child {
				// through the child store over an existing parent-only entity: the entity's shared fields are overwritten
				// (an update of that entity) and the child part is added; the flag stays what it was at creation
				if cur.IsSystem && !op.SysCtx {
					op.Exp = "reject"
				} else {
					op.Exp = "ok"
					cur.Name, cur.Tags, cur.Child, cur.Extra = op.Name, normTags(op.Tags), true, op.Extra
				}
			} else if exists {
				op.Exp = "reject"
			} else if op.Flag && !op.SysCtx {
				op.Exp = "reject"
			} else {
				op.Exp = "ok"
				m[op.Id] = &c16Ent{Name: op.Name, IsSystem: op.Flag, Tags: normTags(op.Tags), Child: op.Child, Extra: op.Extra}
			}
		case "update", "patch":
			if !exists || (op.Child && !cur.Child) {
				op.Exp = "reject"
			} else if cur.IsSystem && !op.SysCtx {
				op.Exp = "reject"
			} else {
				op.Exp = "ok"
				sel := func(f string) bool {
					if op.Kind == "update" {
						return true
					}
					for _, x := range op.Fields {
						if x == f {
							return true
						}
					}
					return false
				}
				if sel("name") {
					cur.Name = op.Name
				}
				if sel("tags") {
					cur.Tags = normTags(op.Tags)
				}
				if op.Child && sel("extra") {
					cur.Extra = op.Extra
				}
			}
		case "delete":
			if !exists {
				op.Exp = "reject"
			} else if cur.IsSystem && !op.SysCtx {
				op.Exp = "reject"
			} else {
				op.Exp = "ok"
				delete(m, op.Id)
			}
		}
	}
	apply := func(ctx boltz.MutateContext, op c16Op) error {
		use := ctx
		if op.SysCtx {
			// every way of obtaining a system context from the transaction's context
			switch op.SysVia {
			case 0:
				use = ctx.GetSystemContext()
			case 1:
				use = boltz.NewSystemMutateContext(ctx)
			case 2:
				use = ctx.GetSystemContext().GetSystemContext()
			case 3:
				use = boltz.NewSystemMutateContext(ctx.GetSystemContext())
			case 4:
				use = ctx // the transaction was opened with a system context: what the function is handed must be one
			}
			via := []string{"GetSystemContext", "NewSystemMutateContext", "GetSystemContext twice", "NewSystemMutateContext over a system context", "the context the transaction function is handed"}[op.SysVia]
			if (len(op.Name)+len(op.Id)+op.SysVia)%3 == 0 {
				// what UpdateContext hands back for a system context (a value put on its context.Context) is that system context
				use = use.UpdateContext(func(cc context.Context) context.Context { return context.WithValue(cc, c16Key{}, "y") })
				via = "a system context after UpdateContext"
			}
			c.Cover("system_context_via", via)
		} else if op.SysVia == 1 {
			// an ordinary context whose context.Context was replaced stays ordinary
			use = ctx.UpdateContext(func(cc context.Context) context.Context { return context.WithValue(cc, c16Key{}, "x") })
			c.Cover("system_context_via", "ordinary after UpdateContext")
		}
		switch op.Kind {
		case "create", "update", "patch":
			name := op.Name
			var nameV any = name
			if name == "" {
				nameV = nil // the optional string cleared: written as null
			}
			e := &schema.Ent{Id: op.Id, Typ: "widgets", V: map[string]any{"name": nameV, "zone": "z-" + name, "title": "t-" + name, "code": "code-" + op.Id, "labels": []string{"l-" + op.Id, "shared"}}}
			target := st
			if op.Child {
				target = kst
				e.V["extra"] = op.Extra
				e.V["kcode"] = "kc-" + op.Id
			}
			e.Ext.Id = op.Id
			e.Ext.IsSystem = op.Flag
			e.Ext.Tags = op.Tags
			e.Ext.Migrate = op.Migrate
			if op.Kind == "create" {
				fresh := !st.Store.IsEntityPresent(use.Tx(), op.Id)
				if err := target.Store.Create(use, e); err != nil || !fresh {
					return err
				}
				if err := st.Links["pegs"].AddLinks(use.Tx(), op.Id, "p1", "p2"); err != nil {
					return err
				}
				_, err := st.RcLinks["rpegs"].IncrementLinkCount(use.Tx(), []byte(op.Id), []byte("p1"))
				return err
			}
			if op.Kind == "update" {
				return target.Store.Update(use, e, nil)
			}
			return target.Store.Update(use, e, checker(op.Fields))
		case "delete":
			if op.Child {
				return kst.Store.DeleteById(use, op.Id)
			}
			return st.Store.DeleteById(use, op.Id)
		}
		return nil
	}
	var hist [][]c16Op
	for t := 0; t < 30; t++ {
		n := 1 + r.Intn(3)
		scratch := cloneC16(model)
		var ops []c16Op
		// a tolerant caller ignores the error of a refused update or delete, carries on in the same transaction and
		// commits: the refused attempt must not have changed anything
		tolerant := r.P(0.4)
		if tolerant {
			n += 2
		}
		for i := 0; i < n; i++ {
			op := c16Op{Kind: core.Pick(r, []string{"create", "create", "update", "patch", "delete"}), SysCtx: r.Bool(), Flag: r.P(0.4), Name: core.Pick(r, names), Tags: core.Pick(r, tagPool), SysVia: r.Intn(4),
				Child: r.P(0.4), Extra: core.Pick(r, []string{"x", "y", ""})}
			var existing []string
			for id := range scratch {
				existing = append(existing, id)
			}
			sort.Strings(existing)
			if op.Kind == "create" || len(existing) == 0 {
				op.Kind = "create"
				op.Id = core.Pick(r, ids)
				if _, ex := scratch[op.Id]; ex && r.P(0.8) {
					for _, id := range ids {
						if _, ex := scratch[id]; !ex {
							op.Id = id
							break
						}
					}
				}
				// through the child store over an existing parent-only entity: system or ordinary, from either context,
				// with either flag in the payload
				if r.P(0.3) {
					for _, id := range existing {
						if cur := scratch[id]; !cur.Child && r.P(0.6) {
							op.Id, op.Child, op.Over = id, true, true
							if cur.IsSystem && r.P(0.5) {
								op.SysCtx = false
							}
							break
						}
					}
				}
				if _, ex := scratch[op.Id]; ex && !op.Over {
					op.Child = false // an ordinary duplicate create goes through the parent store
				}
			} else {
				op.Id = core.Pick(r, existing)
				if r.P(0.05) {
					op.Id = core.Pick(r, ids)
				}
				if cur, ok := scratch[op.Id]; !ok || !cur.Child {
					// parent-only entities are not touched through the child store (left open by the statements), except
					// that an update through it must not find them
					if op.Kind == "delete" || r.P(0.8) {
						op.Child = false
					}
				}
			}
			if op.Kind == "update" || op.Kind == "patch" {
				op.Migrate = r.P(0.3)
				if cur, ok := scratch[op.Id]; ok && r.P(0.6) {
					op.Flag = !cur.IsSystem // flip attempt
				}
			}
			if op.Kind == "patch" {
				op.Fields = core.Subset(r, []string{"name", "tags", "isSystem", "extra"}, 0.5)
				if op.Fields == nil {
					op.Fields = []string{}
				}
			}
			storedSys := false
			if cur, ok := scratch[op.Id]; ok {
				storedSys = cur.IsSystem
			} else if op.Kind == "create" {
				storedSys = op.Flag
			}
			_, existed := scratch[op.Id]
			predict(scratch, &op)
			ops = append(ops, op)
			ctxs := map[bool]string{true: "sysctx", false: "plainctx"}[op.SysCtx]
			ents := map[bool]string{true: "sysent", false: "plainent"}[storedSys]
			if existed || op.Kind == "create" {
				if !(op.Kind == "create" && existed) {
					c.Cover("combo", op.Kind+":"+ctxs+":"+ents+":"+op.Exp)
				}
			}
			if (op.Kind == "update" || op.Kind == "patch") && existed && op.Flag != storedSys {
				dir := "to-system"
				if storedSys {
					dir = "to-ordinary"
				}
				if op.Migrate && !storedSys {
					dir += "-migrate"
				}
				c.Cover("flip", dir+":"+ctxs)
			}
			c.Nontrivial(op.Kind, op.SysCtx, storedSys, op.Flag, op.Migrate, len(op.Fields), op.Exp, i, op.Child, op.Over, tolerant)
			if op.Over {
				c.Cover("flip", fmt.Sprintf("child-create-over-%s-parent:%s:payload-flag=%v", ents, ctxs, op.Flag))
			}
			if op.Exp != "ok" {
				if tolerant && op.Kind != "create" && existed {
					c.Cover("tolerant", op.Kind+":"+ctxs+":"+ents)
					continue
				}
				break
			}
		}
		hist = append(hist, ops)
		before := dumpNow()
		openSys := r.P(0.3)
		var ctx boltz.MutateContext = boltz.NewMutateContext(context.Background())
		if openSys {
			// opened with a system context: every op is then in a system context
			allSys := true
			for _, op := range ops {
				if !op.SysCtx {
					allSys = false
				}
			}
			if allSys {
				ctx = boltz.NewSystemMutateContext(ctx)
				// half of these transactions use the context exactly as the transaction function receives it
				if r.Bool() {
					for i := range ops {
						ops[i].SysVia = 4
					}
				}
			}
		}
		// the last operation of some transactions runs inside a pre-commit action, through the context the action is
		// handed: that is the caller's context (ordinary here), whatever contexts were derived from it earlier in the
		// transaction; a system context is only what the action derives itself
		if last := len(ops) - 1; last >= 0 && !ctx.IsSystemContext() && r.P(0.35) {
			ops[last].Defer = true
			c.Count("ops_in_pre_commit_actions", 1)
			derivedEarlier := false
			for _, op := range ops[:last] {
				derivedEarlier = derivedEarlier || op.SysCtx
			}
			c.Cover("pre_commit_op", fmt.Sprintf("%s context, expected %s, system context derived earlier in the transaction=%v", ctxName(ops[last].SysCtx), ops[last].Exp, derivedEarlier))
		}
		expectFail := false
		// every third transaction goes through Db.Batch instead of Db.Update
		openTx := db.Update
		if t%3 == 2 {
			openTx = db.Batch
			c.Cover("transaction_via", map[bool]string{true: "Batch opened with a system context", false: "Batch"}[ctx.IsSystemContext()])
		} else {
			c.Cover("transaction_via", map[bool]string{true: "Update opened with a system context", false: "Update"}[ctx.IsSystemContext()])
		}
		err := openTx(ctx, func(ctx boltz.MutateContext) error {
			for i, op := range ops {
				if op.Defer {
					i, op := i, op
					ctx.AddPreCommitAction(func(actx boltz.MutateContext) error {
						err := apply(actx, op)
						c.Eval()
						if (err == nil) != (op.Exp == "ok") {
							c.Violationf(fmt.Sprintf("C16 outcome inside a pre-commit action: %s in %s context on %s entity expected %s", op.Kind, ctxName(op.SysCtx), entName(model, scratch, op), op.Exp),
								map[string]any{"history": tailC16(hist, 5), "op_index": i}, "op %+v returned %v, model predicted %s", op, err, op.Exp)
						}
						return err
					})
					if op.Exp != "ok" {
						expectFail = true
					}
					continue
				}
				err := apply(ctx, op)
				c.Eval()
				if (err == nil) != (op.Exp == "ok") {
					c.Violationf(fmt.Sprintf("C16 outcome: %s in %s context on %s entity expected %s", op.Kind, ctxName(op.SysCtx), entName(model, scratch, op), op.Exp),
						map[string]any{"history": tailC16(hist, 5), "op_index": i}, "op %+v returned %v, model predicted %s", op, err, op.Exp)
				}
				if op.Exp != "ok" && err != nil && i < len(ops)-1 {
					continue // tolerant caller: the generator only continues past a refused update / delete in that mode
				}
				if op.Exp != "ok" {
					expectFail = true
				}
				if err != nil {
					return err
				}
			}
			return nil
		})
		c.Count("transactions", 1)
		if err == nil && !expectFail {
			model = scratch
		} else if err != nil {
			c.Count("transactions_refused", 1)
			after := dumpNow()
			c.Eval()
			if before.Hash() != after.Hash() {
				c.Violationf("C16 refused transaction changed the database", map[string]any{"history": tailC16(hist, 5)}, "diff: %v", dump.Diff(before, after, nil, 6))
			}
		} else {
			// accepted something the model rejects: resync from the database
			model = map[string]*c16Ent{}
			_ = db.View(func(tx *bbolt.Tx) error {
				for _, id := range st.RawIds(tx) {
					if e, found, _ := st.Store.FindById(tx, id); found {
						n, _ := e.V["name"].(string)
						model[id] = &c16Ent{Name: n, IsSystem: e.Ext.IsSystem, Tags: normTags(e.Ext.Tags)}
						if ke, found, _ := kst.Store.FindById(tx, id); found && ke != nil {
							model[id].Child = true
							model[id].Extra, _ = ke.V["extra"].(string)
						}
					}
				}
				return nil
			})
		}
		// read back
		_ = db.View(func(tx *bbolt.Tx) error {
			raw := st.RawIds(tx)
			var exp []string
			for id := range model {
				exp = append(exp, id)
			}
			sort.Strings(exp)
			c.Eval()
			if !reflect.DeepEqual(append([]string{}, raw...), append([]string{}, exp...)) && (len(raw) > 0 || len(exp) > 0) {
				c.Violationf("C16 entity set differs from the model", map[string]any{"history": tailC16(hist, 5)}, "db %q model %q", raw, exp)
			}
			// the store's indexes mirror the entities: refused operations of a tolerant caller included
			var shared []string
			st.SetIdx["labels"].Read(tx, []byte("shared"), func(v []byte) { shared = append(shared, string(v)) })
			sort.Strings(shared)
			if !reflect.DeepEqual(append([]string{}, shared...), append([]string{}, exp...)) && (len(shared) > 0 || len(exp) > 0) {
				c.Violationf("C16 set index differs from the entities after the transaction", map[string]any{"history": tailC16(hist, 5)}, "labels[shared] = %q, entities %q", shared, exp)
			}
			for _, side := range []struct {
				what string
				got  []string
			}{{"widgets of peg p1", pst.Links["widgets"].GetLinks(tx, "p1")}, {"widgets of peg p2", pst.Links["widgets"].GetLinks(tx, "p2")}, {"widgets of peg p1 (ref-counted)", c16RcLinks(pst.RcLinks["rwidgets"], tx, "p1")}} {
				c.Eval()
				if got := append([]string{}, side.got...); !reflect.DeepEqual(got, append([]string{}, exp...)) {
					c.Violationf("C16 links of the store's entities differ from the entities after the transaction", map[string]any{"history": tailC16(hist, 5)}, "%s = %q, entities %q", side.what, got, exp)
				}
			}
			for _, id := range exp {
				if got := st.Links["pegs"].GetLinks(tx, id); !reflect.DeepEqual(got, []string{"p1", "p2"}) {
					c.Violationf("C16 links of an entity changed though no link operation was made", map[string]any{"history": tailC16(hist, 5), "id": id}, "pegs of %s = %q", id, got)
				}
				if got := c16RcLinks(st.RcLinks["rpegs"], tx, id); !reflect.DeepEqual(got, []string{"p1"}) {
					c.Violationf("C16 ref-counted links of an entity changed though no link operation was made", map[string]any{"history": tailC16(hist, 5), "id": id}, "rpegs of %s = %q", id, got)
				}
			}
			for _, id := range ids {
				kholder := string(kst.Unique["kcode"].Read(tx, []byte("kc-"+id)))
				if m, live := model[id]; (live && m.Child && kholder != id) || ((!live || !m.Child) && kholder != "") {
					c.Violationf("C16 the child store's unique index differs from the entities after the transaction", map[string]any{"history": tailC16(hist, 5), "id": id}, "kcode[kc-%s] = %q, entity present %v with child data %v", id, kholder, live, live && m.Child)
				}
				holder := string(st.Unique["code"].Read(tx, []byte("code-"+id)))
				if _, live := model[id]; (live && holder != id) || (!live && holder != "") {
					c.Violationf("C16 unique index differs from the entities after the transaction", map[string]any{"history": tailC16(hist, 5), "id": id}, "code[code-%s] = %q, entity present %v", id, holder, live)
				}
			}
			for _, id := range exp {
				e, found, err := st.Store.FindById(tx, id)
				if err != nil || !found {
					continue
				}
				m := model[id]
				n, _ := e.V["name"].(string)
				if e.Ext.IsSystem != m.IsSystem {
					c.Violationf(fmt.Sprintf("C16 system flag changed: now %v, fixed at creation as %v", e.Ext.IsSystem, m.IsSystem), map[string]any{"history": tailC16(hist, 5), "id": id}, "entity %s", id)
				}
				hasKid := kst.Store.IsEntityPresent(tx, id)
				extra := ""
				if ke, found, _ := kst.Store.FindById(tx, id); found && ke != nil {
					extra, _ = ke.V["extra"].(string)
				}
				if hasKid != m.Child || (m.Child && extra != m.Extra) {
					c.Violationf("C16 child-store part differs from the model", map[string]any{"history": tailC16(hist, 5), "id": id}, "entity %s: child data present %v (model %v), extra %q (model %q)", id, hasKid, m.Child, extra, m.Extra)
				}
				if title, _ := e.V["title"].(string); title != "t-"+m.Name {
					c.Violationf("C16 a required string field of the entity differs from the model", map[string]any{"history": tailC16(hist, 5), "id": id}, "entity %s: title %q, expected %q", id, title, "t-"+m.Name)
				}
				if zone, _ := e.V["zone"].(string); zone != "z-"+m.Name {
					c.Violationf("C16 a field in a nested bucket of the entity differs from the model", map[string]any{"history": tailC16(hist, 5), "id": id}, "entity %s: settings/zone %q, expected %q", id, zone, "z-"+m.Name)
				}
				if n != m.Name || !nestedEq(expectNested(m.Tags), e.Ext.Tags) {
					c.Violationf("C16 entity state differs from the model", map[string]any{"history": tailC16(hist, 5), "id": id}, "entity %s: name %q/%q tags %v/%v", id, n, m.Name, e.Ext.Tags, m.Tags)
				}
			}
			return nil
		})
	}
	if c.WantSample() {
		c.Sample(map[string]any{"first_transactions": tailC16(hist[:min(3, len(hist))], 3)})
	}
}

type c16Key struct{}

func c16RcLinks(lc boltz.RefCountedLinkCollection, tx *bbolt.Tx, id string) []string {
	var out []string
	for cur := lc.IterateLinks(tx, []byte(id), true); cur.IsValid(); cur.Next() {
		out = append(out, string(cur.Current()))
	}
	return out
}

func normTags(t map[string]any) map[string]any {
	if t == nil {
		return map[string]any{}
	}
	return t
}

func cloneC16(m map[string]*c16Ent) map[string]*c16Ent {
	out := map[string]*c16Ent{}
	for k, v := range m {
		cp := *v
		out[k] = &cp
	}
	return out
}

func ctxName(sys bool) string {
	if sys {
		return "system"
	}
	return "ordinary"
}

func entName(model, scratch map[string]*c16Ent, op c16Op) string {
	if e, ok := model[op.Id]; ok {
		if e.IsSystem {
			return "system"
		}
		return "ordinary"
	}
	if op.Kind == "create" {
		if op.Flag {
			return "system"
		}
		return "ordinary"
	}
	return "in-transaction"
}

func tailC16(h [][]c16Op, n int) [][]c16Op {
	if len(h) > n {
		return h[len(h)-n:]
	}
	return h
}

func checker(fields []string) boltz.FieldChecker {
	if fields == nil {
		return nil
	}
	m := boltz.MapFieldChecker{}
	for _, f := range fields {
		m[f] = struct{}{}
		if f == "name" {
			m["zone"] = struct{}{} // the nested field follows the name
			m["title"] = struct{}{}
		}
	}
	return m
}
