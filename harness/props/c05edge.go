package props

import (
	"fmt"
	"sort"
	"strings"

	"github.com/openziti/storage/boltz"
	"go.etcd.io/bbolt"
	"verif/harness/internal/core"
	"verif/harness/internal/dump"
	"verif/harness/internal/kmodel"
	"verif/harness/internal/schema"
)

// C05 part (c): ids at the key-size limit of the storage engine, judged without a model.
//
// An id of 32767 or 32768 bytes is a legal entity id (bucket name) but cannot be written as a tagged list key, so a
// link operation touching it fails on exactly one of its two writes. The statement leaves open whether such an
// operation succeeds; it does not leave open what the database looks like afterwards:
//   - an operation that returned an error (its transaction is rolled back) changed nothing;
//   - after every committed operation each plain link is present on both sides or on neither, both sides of a
//     ref-counted link hold the same positive count, no link names a missing entity;
//   - an operation that reported success had its effect on the side it was issued from.
const c05EdgeCases = 24

var c05EdgeLens = []int{32766, 32767, 32768}

func edgeId(prefix string, n int) string { return prefix + strings.Repeat("x", n-len(prefix)) }

func shortId(id string) string {
	if len(id) > 24 {
		return fmt.Sprintf("%s..(%d bytes)", id[:6], len(id))
	}
	return id
}

type edgeLinks struct {
	plain map[string]map[string]bool // "store\x00id" -> other ids
	rc    map[string]map[string]int32
}

func readEdgeLinks(tx *bbolt.Tx, sc *schema.Schema) *edgeLinks {
	out := &edgeLinks{plain: map[string]map[string]bool{}, rc: map[string]map[string]int32{}}
	for _, store := range []string{kmodel.Emps, kmodel.Depts} {
		for _, id := range sc.St(store).RawIds(tx) {
			k := store + "\x00" + id
			out.plain[k], out.rc[k] = map[string]bool{}, map[string]int32{}
			if b := bpath(tx, "stores", store, id, map[string]string{kmodel.Emps: "watching", kmodel.Depts: "watchers"}[store]); b != nil {
				_ = b.ForEach(func(key, _ []byte) error {
					if len(key) > 0 {
						out.plain[k][string(key[1:])] = true
					}
					return nil
				})
			}
			if b := bpath(tx, "stores", store, id, map[string]string{kmodel.Emps: "credits", kmodel.Depts: "creditors"}[store]); b != nil {
				_ = b.ForEach(func(key, val []byte) error {
					if len(key) > 0 {
						n := int32(-1 << 30)
						if _, raw := boltz.GetTypeAndValue(val); len(raw) == 4 {
							if p := boltz.BytesToInt32(raw); p != nil {
								n = *p
							}
						}
						out.rc[k][string(key[1:])] = n
					}
					return nil
				})
			}
		}
	}
	return out
}

func otherStore(s string) string {
	if s == kmodel.Emps {
		return kmodel.Depts
	}
	return kmodel.Emps
}

// check returns (kind, description) of asymmetries.
func (l *edgeLinks) check() [][2]string {
	var out [][2]string
	for k, others := range l.plain {
		store, id, _ := strings.Cut(k, "\x00")
		for o := range others {
			back, exists := l.plain[otherStore(store)+"\x00"+o]
			switch {
			case !exists:
				out = append(out, [2]string{"plain link to a missing entity", fmt.Sprintf("plain link %s[%s] -> missing %s", store, shortId(id), shortId(o))})
			case !back[id]:
				out = append(out, [2]string{"one-sided plain link", fmt.Sprintf("one-sided plain link: %s[%s] lists %s, the reverse side does not", store, shortId(id), shortId(o))})
			}
		}
	}
	for k, others := range l.rc {
		store, id, _ := strings.Cut(k, "\x00")
		for o, n := range others {
			back, exists := l.rc[otherStore(store)+"\x00"+o]
			switch {
			case !exists:
				out = append(out, [2]string{"ref-counted link to a missing entity", fmt.Sprintf("ref-counted link %s[%s] -> missing %s", store, shortId(id), shortId(o))})
			case n <= 0:
				out = append(out, [2]string{"ref-counted link with a non-positive count", fmt.Sprintf("ref-counted link %s[%s] -> %s with count %d", store, shortId(id), shortId(o), n)})
			default:
				if bn, ok := back[id]; !ok || bn != n {
					out = append(out, [2]string{"ref-counted link counts differ between the sides", fmt.Sprintf("ref-counted link %s[%s] -> %s has count %d, the reverse side has %v (present=%v)", store, shortId(id), shortId(o), n, bn, ok)})
				}
			}
		}
	}
	sort.Slice(out, func(i, j int) bool { return out[i][1] < out[j][1] })
	return out
}

func c05Edge(c *core.Ctx, idx int) {
	r := c.Rand()
	cfg := kmodel.Config{DeptFK: schema.FkIndexNullable, BossCascade: boltz.CascadeNone, BossNullable: true}
	e, err := kmodel.NewEngine(c, cfg)
	if err != nil {
		c.Violation("C05 setup", err.Error(), nil)
		return
	}
	defer e.Close()
	sc := e.Sc
	bigLen := c05EdgeLens[idx%len(c05EdgeLens)]
	ids := map[string][]string{
		kmodel.Depts: {"d1", "d2", edgeId("D", bigLen), edgeId("DD", c05EdgeLens[(idx/3)%3])},
		kmodel.Emps:  {"e1", "e2", edgeId("E", bigLen), edgeId("EE", c05EdgeLens[(idx/9)%3])},
	}
	// population: each create in its own transaction; what cannot be created is simply absent
	for _, store := range []string{kmodel.Depts, kmodel.Emps} {
		for i, id := range ids[store] {
			v := map[string]any{"name": fmt.Sprintf("n-%s-%d", store, i)}
			if store == kmodel.Emps {
				v["title"] = "t1"
			}
			_ = e.Db.Update(nil, func(ctx boltz.MutateContext) error {
				return sc.St(store).Store.Create(ctx, &schema.Ent{Id: id, Typ: store, V: v})
			})
		}
	}
	present := map[string][]string{}
	_ = e.Db.View(func(tx *bbolt.Tx) error {
		for _, store := range []string{kmodel.Depts, kmodel.Emps} {
			present[store] = sc.St(store).RawIds(tx)
		}
		return nil
	})
	for _, store := range []string{kmodel.Depts, kmodel.Emps} {
		for _, id := range present[store] {
			if len(id) >= 32766 {
				c.Cover("edge_id_created", fmt.Sprintf("%s:%d", store, len(id)))
			}
		}
	}
	kinds := []string{"addlinks", "addlink", "removelinks", "removelink", "setlinks", "rcinc", "rcdec", "rcset", "delete"}
	weights := []int{6, 4, 3, 2, 5, 6, 3, 4, 1}
	pickKind := func() string {
		total := 0
		for _, w := range weights {
			total += w
		}
		x := r.Intn(total)
		for i, w := range weights {
			if x < w {
				return kinds[i]
			}
			x -= w
		}
		return kinds[0]
	}
	for step := 0; step < 40; step++ {
		kind := pickKind()
		store := core.Pick(r, []string{kmodel.Emps, kmodel.Depts})
		src := core.Pick(r, ids[store])
		var others []string
		n := 1
		if kind == "addlinks" || kind == "removelinks" || kind == "setlinks" {
			n = r.Intn(4)
		}
		for i := 0; i < n; i++ {
			others = append(others, core.Pick(r, ids[otherStore(store)]))
		}
		blankOther := false
		if (kind == "setlinks" || kind == "addlinks") && r.P(0.15) {
			// a blank id among the requested ones: it names no entity
			others = append(others, "")
			blankOther = true
		}
		// counts that are no counts (negative, beyond int32) may be refused or read as a removal, but never stored
		count := core.Pick(r, []int{0, 1, 2, 3, 1, 2, -1, -3, 1 << 31, 1 << 32, 1<<32 + 2, 1<<31 - 1, 1<<31 - 1, 256, 257, 513, 65537}) // the largest count: an increment follows sooner or later
		var before *dump.Dump
		var prevLinks *edgeLinks
		_ = e.Db.View(func(tx *bbolt.Tx) error { before = dump.Tx(tx); prevLinks = readEdgeLinks(tx, sc); return nil })
		st := sc.St(store)
		lc, rc := st.Links[map[string]string{kmodel.Emps: "watching", kmodel.Depts: "watchers"}[store]], st.RcLinks[map[string]string{kmodel.Emps: "credits", kmodel.Depts: "creditors"}[store]]
		opErr := e.Db.Update(nil, func(ctx boltz.MutateContext) error {
			tx := ctx.Tx()
			switch kind {
			case "addlinks":
				return lc.AddLinks(tx, src, others...)
			case "addlink":
				_, err := lc.AddLink(tx, []byte(src), []byte(others[0]))
				return err
			case "removelinks":
				return lc.RemoveLinks(tx, src, others...)
			case "removelink":
				_, err := lc.RemoveLink(tx, []byte(src), []byte(others[0]))
				return err
			case "setlinks":
				return lc.SetLinks(tx, src, append([]string{}, others...))
			case "rcinc":
				_, err := rc.IncrementLinkCount(tx, []byte(src), []byte(others[0]))
				return err
			case "rcdec":
				_, err := rc.DecrementLinkCount(tx, []byte(src), []byte(others[0]))
				return err
			case "rcset":
				_, _, err := rc.SetLinkCount(tx, []byte(src), []byte(others[0]), count)
				return err
			case "delete":
				return st.Store.DeleteById(ctx, src)
			}
			return nil
		})
		c.Eval()
		var shortOthers []string
		for _, o := range others {
			shortOthers = append(shortOthers, shortId(o))
		}
		info := map[string]any{"op": kind, "store": store, "id": shortId(src), "id_len": len(src), "others": shortOthers, "count": count, "step": step, "error": fmt.Sprint(opErr)}
		maxOther := 0
		for _, o := range others {
			if len(o) > maxOther {
				maxOther = len(o)
			}
		}
		sizeClass := func(n int) string {
			if n >= 32766 {
				return fmt.Sprint(n)
			}
			return "short"
		}
		cell := fmt.Sprintf("%s src=%s other=%s", kind, sizeClass(len(src)), sizeClass(maxOther))
		outcome := "ok"
		if opErr != nil {
			outcome = "error"
		}
		c.Cover("edge_op", kind+":"+outcome)
		if kind == "rcset" && (count < 0 || count > 2147483647) {
			c.Count("set_link_count_with_a_value_that_is_no_count", 1)
		}
		c.Nontrivial("edge", cell, outcome)
		var after *dump.Dump
		var links *edgeLinks
		_ = e.Db.View(func(tx *bbolt.Tx) error { after = dump.Tx(tx); links = readEdgeLinks(tx, sc); return nil })
		if opErr == nil && blankOther && links.plain[store+"\x00"+src] != nil {
			c.Violationf("C05 edge ids: "+kind+" with a blank id among the requested ones (it names no entity) reported success", info, "requested %q", others)
		}
		if opErr != nil {
			if after.Hash() != before.Hash() {
				c.Violationf("C05 edge ids: an operation that returned an error changed the database: "+cell, info, "diff: %v", dump.Diff(before, after, nil, 4))
			}
		} else {
			// the effect on the issuing side
			mine := links.plain[store+"\x00"+src]
			mineRc := links.rc[store+"\x00"+src]
			exists := mine != nil
			switch kind {
			case "addlinks", "addlink":
				for _, o := range others {
					if exists && !mine[o] {
						c.Violationf("C05 edge ids: "+kind+" reported success but the link is absent: "+cell, info, "%s[%s] does not list %s", store, shortId(src), shortId(o))
					}
				}
			case "removelinks", "removelink":
				for _, o := range others {
					if mine[o] {
						c.Violationf("C05 edge ids: "+kind+" reported success but the link is still there: "+cell, info, "%s[%s] lists %s", store, shortId(src), shortId(o))
					}
				}
			case "setlinks":
				if exists {
					want := kmodel.NormSet(others)
					var got []string
					for o := range mine {
						got = append(got, o)
					}
					if !sameStrSet(got, want) {
						c.Violationf("C05 edge ids: SetLinks reported success but left a different set: "+cell, info, "%d links, %d requested", len(got), len(want))
					}
				}
			case "rcinc", "rcdec":
				// one step up or down from what was there (a count of 257 goes to 256, not away)
				if prev, had := prevLinks.rc[store+"\x00"+src][others[0]]; exists && had && prev > 1 && prev < 2147483647 {
					want := prev + 1
					if kind == "rcdec" {
						want = prev - 1
					}
					if mineRc[others[0]] != want {
						c.Violationf("C05 edge ids: "+kind+" reported success but the count is not one step from the previous one: "+cell, info, "count was %d, is %d", prev, mineRc[others[0]])
					}
				}
			case "rcset":
				if exists && count > 0 && count <= 2147483647 && mineRc[others[0]] != int32(count) {
					c.Violationf("C05 edge ids: SetLinkCount reported success but the count differs: "+cell, info, "count %d stored %d", count, mineRc[others[0]])
				}
			}
		}
		for _, problem := range links.check() {
			c.Violationf("C05 edge ids: "+problem[0]+" after "+cell+" ("+outcome+")", info, "%s", problem[1])
			break
		}
		if c.WantSample() && len(src) > 100 && opErr == nil {
			c.Sample(info)
		}
	}
}
