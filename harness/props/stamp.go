package props

import (
	"fmt"
	"sort"
	"strings"
	"sync"
	"sync/atomic"
	"time"

	"github.com/openziti/storage/ast"
	"github.com/openziti/storage/boltz"
	"go.etcd.io/bbolt"
	"verif/harness/internal/schema"
)

// Stamped (self-certifying) state: every write transaction rewrites the whole small database into
// state(g), a pure function of a globally unique generation number g that is stamped on every entity,
// index value and link. A reader that sees stamp g can verify the entire logical content against state(g).

const stampCells = 4

func stampDefs() []*schema.StoreDef {
	hubs := &schema.StoreDef{Type: "hubs", BasePath: []string{"stores"},
		Fields: []schema.Field{{Name: "gen", Kind: schema.KI64}, {Name: "cells", Kind: schema.KList, FK: "cells", Derived: true}},
		Links:  []schema.LinkDef{{Field: "cells", Target: "cells", TargetField: "hubs"}}}
	cells := &schema.StoreDef{Type: "cells", BasePath: []string{"stores"},
		Fields: []schema.Field{{Name: "gen", Kind: schema.KI64}, {Name: "name", Kind: schema.KStr}, {Name: "roles", Kind: schema.KList}, {Name: "hub", Kind: schema.KStr, FK: "hubs"},
			{Name: "hubs", Kind: schema.KLinks, FK: "hubs"}, {Name: "meta", Kind: schema.KMap},
			{Name: "attrs", Kind: schema.KMap, Prefix: []string{"px", "py"}}, // a map stored two buckets below the entity
			{Name: "blank", Kind: schema.KMap}},                              // a map which never has entries
		Unique: []schema.UniqueDef{{Field: "name"}},
		SetIdx: []string{"roles"},
		FKs:    []schema.FKDef{{Field: "hub", Target: "hubs", Kind: schema.FkConstraint, Nullable: false, Cascade: boltz.CascadeNone}},
		Links:  []schema.LinkDef{{Field: "hubs", Target: "hubs", TargetField: "cells"}}}
	return []*schema.StoreDef{hubs, cells}
}

func cellId(i int) string            { return fmt.Sprintf("c%d", i) }
func cellName(i int, g int64) string { return fmt.Sprintf("name-%d-g%d", i, g) }
func genRole(g int64) string         { return fmt.Sprintf("role-g%d", g) }
func cellHub(i int, g int64) string  { return fmt.Sprintf("h%d", (int64(i)+g)%2) }

// parRole: half of the cells hold par-0, the other half par-1, and they swap with every generation
func parRole(i int, g int64) string { return fmt.Sprintf("par-%d", (int64(i)+g)%2) }

type stampDb struct {
	sc      *schema.Schema
	db      *boltz.DbImpl
	path    string
	gen     atomic.Int64 // generation allocator
	commits atomic.Int64 // number of committed write transactions (sampled by readers)
	// index-driven cursor providers created once and shared by every reader and transaction (as a caller that keeps a
	// provider per role list would): over two values (merged set) and over one (the index's own cursor)
	anyOfPar0, onlyPar1 func(tx *bbolt.Tx, forward bool) ast.SetCursor
	// and one that wants two values at once (everybody has "all", "par-0" changes hands with every generation)
	allOfPar0 func(tx *bbolt.Tx, forward bool) ast.SetCursor
	// role lists handed to FindMatching / FindMatchingAnyOf by every reader (one slice each, shared like a constant)
	allOfRoles, anyOfRoles []string
	// ids returned by queries, kept by the caller beyond its read transaction (with copies made while it was open)
	keptMu sync.Mutex
	kept   []keptIds
}

type keptIds struct {
	query   string
	ids     []string // as returned by the store
	copies  []string // strings.Clone of each, made inside the transaction
	commits int64    // commits seen when they were returned
}

func openStamp(path string) (*stampDb, error) {
	sc := schema.Build(stampDefs())
	db, err := sc.OpenDb(path)
	if err != nil {
		return nil, err
	}
	s := &stampDb{sc: sc, db: db, path: path, allOfRoles: []string{"all", "par-0"}, anyOfRoles: []string{"par-1", "no-such-role"}}
	cells := sc.St("cells")
	s.anyOfPar0 = cells.Store.IteratorMatchingAnyOf(cells.SetIdx["roles"], []string{"par-0", "no-such-role"})
	s.onlyPar1 = cells.Store.IteratorMatchingAnyOf(cells.SetIdx["roles"], []string{"par-1"})
	s.allOfPar0 = cells.Store.IteratorMatchingAllOf(cells.SetIdx["roles"], []string{"all", "par-0"})
	return s, nil
}

// writeState rewrites the database into state(g) in one transaction. first=true creates the entities.
func (s *stampDb) writeState(g int64) error { return s.writeStateVia(g, false) }

// writeStateVia writes state(g) through Db.Update or Db.Batch.
func (s *stampDb) writeStateVia(g int64, batch bool) error {
	cells, hubs := s.sc.St("cells"), s.sc.St("hubs")
	run := s.db.Update
	if batch {
		run = s.db.Batch
	}
	return run(nil, func(ctx boltz.MutateContext) error {
		tx := ctx.Tx()
		// the writer looks before it writes: the very filters readers of state(g) will run, evaluated while they still
		// match nothing
		for _, q := range []string{fmt.Sprintf("gen = %d", g), fmt.Sprintf(`anyOf(roles) = "%s"`, genRole(g)), fmt.Sprintf(`name = "%s"`, cellName(1, g))} {
			if ids, _, err := cells.Store.QueryIds(tx, q); err != nil || len(ids) != 0 {
				return fmt.Errorf("writer pre-query %q inside its transaction: %d ids err=%v (state %d is not written yet)", q, len(ids), err, g)
			}
		}
		for h := 0; h < 2; h++ {
			id := fmt.Sprintf("h%d", h)
			e := &schema.Ent{Id: id, Typ: "hubs", V: map[string]any{"gen": g}}
			var err error
			if hubs.Store.IsEntityPresent(tx, id) {
				err = hubs.Store.Update(ctx, e, nil)
			} else {
				err = hubs.Store.Create(ctx, e)
			}
			if err != nil {
				return err
			}
		}
		for i := 0; i < stampCells; i++ {
			id := cellId(i)
			e := &schema.Ent{Id: id, Typ: "cells", V: map[string]any{"gen": g, "name": cellName(i, g), "roles": []string{genRole(g), "all", parRole(i, g)}, "hub": cellHub(i, g),
				"hubs": []string{cellHub(i, g)}, "blank": map[string]any{}, "meta": map[string]any{"g": g, "tag": genRole(g)},
				"attrs": map[string]any{"net": map[string]any{"zone": genRole(g)}, "hw": map[string]any{"zone": "hz"}}}}
			var err error
			if cells.Store.IsEntityPresent(tx, id) {
				err = cells.Store.Update(ctx, e, nil)
			} else {
				err = cells.Store.Create(ctx, e)
			}
			if err != nil {
				return err
			}
		}
		return nil
	})
}

// readGen reads the stamp of cell 0 in tx (-1 = database empty).
func (s *stampDb) readGen(tx *bbolt.Tx) int64 {
	e, found, err := s.sc.St("cells").Store.FindById(tx, cellId(0))
	if err != nil || !found {
		return -1
	}
	g, _ := e.V["gen"].(int64)
	return g
}

// verifyTx checks, inside one read transaction, that the entire logical content equals state(g) for the g read first;
// returns g and a list of discrepancies.
func (s *stampDb) verifyTx(tx *bbolt.Tx, deep bool) (int64, []string) {
	var bad []string
	cells, hubs := s.sc.St("cells"), s.sc.St("hubs")
	g := s.readGen(tx)
	if g < 0 {
		return g, nil
	}
	addf := func(format string, a ...any) {
		if len(bad) < 6 {
			bad = append(bad, fmt.Sprintf(format, a...))
		}
	}
	// what earlier read transactions were handed stays what it was, however many commits have recycled pages since
	s.keptMu.Lock()
	now := s.commits.Load()
	rest := s.kept[:0]
	for _, k := range s.kept {
		if k.commits+3 > now {
			rest = append(rest, k)
			continue
		}
		for i := range k.ids {
			if k.ids[i] != k.copies[i] {
				addf("ids returned by %q changed after the read transaction ended: %q, were %q", k.query, k.ids, k.copies)
				break
			}
		}
	}
	s.kept = rest
	s.keptMu.Unlock()
	var allIds []string
	for i := 0; i < stampCells; i++ {
		id := cellId(i)
		allIds = append(allIds, id)
		e, found, err := cells.Store.FindById(tx, id)
		if err != nil || !found {
			addf("cell %s missing in generation %d (err=%v)", id, g, err)
			continue
		}
		// what a caller does with an entity it loaded is its own business: here it puts an entry into the (empty) map of
		// its copy, as one preparing an update would. Every load starts with the map as stored: empty
		if bm, _ := e.V["blank"].(map[string]any); len(bm) != 0 {
			addf("cell %s was loaded with entries in a map that is stored empty: %v", id, bm)
		} else if bm != nil {
			bm["scratch"] = g
		}
		if eg, _ := e.V["gen"].(int64); eg != g {
			addf("cell %s has generation %d, cell c0 has %d", id, eg, g)
		}
		if n, _ := e.V["name"].(string); n != cellName(i, g) {
			addf("cell %s name %q, expected %q", id, n, cellName(i, g))
		}
		if got := string(cells.Unique["name"].Read(tx, []byte(cellName(i, g)))); got != id {
			addf("unique index name[%s] = %q, expected %s", cellName(i, g), got, id)
		}
		if got := cells.Links["hubs"].GetLinks(tx, id); len(got) != 1 || got[0] != cellHub(i, g) {
			addf("cell %s links %q, expected [%s] (generation %d)", id, got, cellHub(i, g), g)
		}
	}
	var roleIds []string
	cells.SetIdx["roles"].Read(tx, []byte(genRole(g)), func(v []byte) { roleIds = append(roleIds, string(v)) })
	if fmt.Sprint(roleIds) != fmt.Sprint(allIds) {
		addf("set index roles[%s] = %q, expected %q", genRole(g), roleIds, allIds)
	}
	var keys []string
	cells.SetIdx["roles"].ReadKeys(tx, func(v []byte) { keys = append(keys, string(v)) })
	if fmt.Sprint(keys) != fmt.Sprint([]string{"all", "par-0", "par-1", genRole(g)}) {
		addf("set index keys %q, expected [all par-0 par-1 %s]", keys, genRole(g))
	}
	for h := 0; h < 2; h++ {
		hid := fmt.Sprintf("h%d", h)
		var exp []string
		for i := 0; i < stampCells; i++ {
			if cellHub(i, g) == hid {
				exp = append(exp, cellId(i))
			}
		}
		got := hubs.Links["cells"].GetLinks(tx, hid)
		sort.Strings(got)
		if fmt.Sprint(got) != fmt.Sprint(exp) {
			addf("hub %s links %q, expected %q (generation %d)", hid, got, exp, g)
		}
	}
	if deep {
		queries := []struct {
			q   string
			exp []string
		}{
			{"", allIds},
			{fmt.Sprintf("gen = %d", g), allIds},
			{fmt.Sprintf("gen != %d", g), nil},
			{fmt.Sprintf(`attrs.net.zone = "%s" and attrs.hw.zone = "hz"`, genRole(g)), allIds},
			{fmt.Sprintf(`attrs.hw.zone = "%s" or attrs.net.zone = "hz"`, genRole(g)), nil},
			{fmt.Sprintf(`anyOf(roles) = "%s"`, genRole(g)), allIds},
			{fmt.Sprintf(`name = "%s"`, cellName(1, g)), []string{cellId(1)}},
			{fmt.Sprintf(`meta.tag = "%s" sort by name desc`, genRole(g)), []string{"c3", "c2", "c1", "c0"}},
			// more sort fields than the scanner honours (the surplus is cut off per store, on the read path)
			{fmt.Sprintf(`gen = %d sort by gen, name desc, hub, gen desc, name, id, hub desc`, g), []string{"c3", "c2", "c1", "c0"}},
			{fmt.Sprintf(`anyOf(hubs.gen) = %d`, g), allIds},
			{fmt.Sprintf(`hub.gen != %d or isEmpty(hubs)`, g), nil},
		}
		for _, q := range queries {
			ids, _, err := cells.Store.QueryIds(tx, q.q)
			if err != nil || fmt.Sprint(ids) != fmt.Sprint(q.exp) {
				addf("query %q = %q err=%v, expected %q", q.q, ids, err, q.exp)
			} else if len(ids) > 0 {
				k := keptIds{query: q.q, ids: ids, commits: s.commits.Load()}
				for _, id := range ids {
					k.copies = append(k.copies, strings.Clone(id))
				}
				s.keptMu.Lock()
				if len(s.kept) < 256 {
					s.kept = append(s.kept, k)
				}
				s.keptMu.Unlock()
			}
		}
		// the shared providers, asked inside this transaction, answer for this transaction's state
		for pi, provider := range []func(tx *bbolt.Tx, forward bool) ast.SetCursor{s.anyOfPar0, s.onlyPar1, s.allOfPar0} {
			var exp []string
			for i := 0; i < stampCells; i++ {
				if parRole(i, g) == fmt.Sprintf("par-%d", pi%2) {
					exp = append(exp, cellId(i))
				}
			}
			for _, text := range []string{"true", "true sort by name desc"} {
				want := exp
				if text != "true" {
					want = []string{exp[1], exp[0]}
				}
				pq, perr := ast.Parse(cells.Store, text)
				if perr != nil {
					addf("parse %q: %v", text, perr)
					continue
				}
				ids, _, err := cells.Store.QueryWithCursorC(tx, provider, pq)
				if err != nil || fmt.Sprint(ids) != fmt.Sprint(want) {
					addf("shared IteratorMatchingAnyOf / AllOf provider %d with %q = %q err=%v, expected %q (generation %d)", pi, text, ids, err, want, g)
				}
			}
		}
		{
			var par0, par1 []string
			for i := 0; i < stampCells; i++ {
				if parRole(i, g) == "par-0" {
					par0 = append(par0, cellId(i))
				} else {
					par1 = append(par1, cellId(i))
				}
			}
			if got := cells.Store.FindMatching(tx, cells.SetIdx["roles"], s.allOfRoles); fmt.Sprint(got) != fmt.Sprint(par0) {
				addf("FindMatching(%q) = %q, expected %q (generation %d)", s.allOfRoles, got, par0, g)
			}
			got := cells.Store.FindMatchingAnyOf(tx, cells.SetIdx["roles"], s.anyOfRoles)
			sort.Strings(got)
			if fmt.Sprint(got) != fmt.Sprint(par1) {
				addf("FindMatchingAnyOf(%q) = %q, expected %q (generation %d)", s.anyOfRoles, got, par1, g)
			}
		}
		it := idsOf(cells.Store.IterateIds(tx, ast.BoolNodeTrue))
		if fmt.Sprint(it) != fmt.Sprint(allIds) {
			addf("IterateIds = %q", it)
		}
	}
	if g2 := s.readGen(tx); g2 != g {
		addf("generation changed inside one read transaction: %d then %d", g, g2)
	}
	return g, bad
}

// ---- history recording for the linearizability check ----

type histOp struct {
	Client int
	Kind   string // write | restore | read
	Gen    int64  // write: generation written; restore: generation of the snapshot; read: generation observed
	Call   int64
	Ret    int64
	Ok     bool
}

type histLog struct {
	mu    sync.Mutex
	ops   []histOp
	start time.Time
}

func (h *histLog) now() int64 { return int64(time.Since(h.start)) }

func (h *histLog) add(op histOp) {
	h.mu.Lock()
	h.ops = append(h.ops, op)
	h.mu.Unlock()
}
