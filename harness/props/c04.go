package props

import (
	"verif/harness/internal/core"
	"verif/harness/internal/dump"
	"verif/harness/internal/kmodel"
)

func init() {
	core.Register(&core.Property{
		ID:    "C04",
		Level: "exploration",
		Rule: "random histories over six foreign-key wirings (fk index nullable / non-nullable / cascade-delete; fk constraint nullable or not with cascade none / delete / create-update; self-referencing store) " +
			"with ids containing quotes, backslash escapes, newlines, spaces and filter keywords; model predicts accept / reject class and the exact cascade closure; structural monitor compares back-reference buckets, " +
			"dangling references and the surviving id set after every transaction; cascade closures include reference cycles and self references (boss chains that lead back to the deleted employee): every member goes, once; Part (b): a store whose fk index points at itself (self references, cycles; restrict, nullable, and in every third case cascade-delete on both fks: exactly the transitive referrers computed from the raw pre-state are gone) plus a second store referencing it, with ids of 32766-32768 bytes, judged without a model after every operation: an error changed nothing; every reference names an existing entity listed back by its target; every back-reference entry names an existing referrer. Part (c): two sibling child stores that each declare an fk constraint of the same name to the same target store: after every operation (incl. deletes of the target) no stored reference names a missing entity. non-trivial = distinct (op kind, store, outcome, population class, configuration) tuples Part (d): a non-nullable foreign key and a non-nullable unique index of a child store: the child part is created together with the entity or over an entity that exists in the parent store already, with an existing target, a dangling, an empty or a null reference: only the existing target is accepted, refused creates leave no child data, the target's back-reference set equals the committed references.",
		Assumptions: []string{"CascadeCreateUpdate declares no enforcement on delete: dangling boss references there are predicted, not reported"},
		Plan: func(tier core.Tier, seed int64) int {
			if tier == core.Thorough {
				return 96000 + c04SelfCases*20 + 24*10 + c04ChildCases*10
			}
			return 720 + c04SelfCases + 24 + c04ChildCases
		},
		Run: func(c *core.Ctx, idx int) {
			nHist := 720
			if c.Tier == core.Thorough {
				nHist = 96000
			}
			nSelf := c04SelfCases
			if c.Tier == core.Thorough {
				nSelf *= 20
			}
			nSib := 24
			if c.Tier == core.Thorough {
				nSib *= 10
			}
			if idx >= nHist+nSelf+nSib {
				c04Child(c, idx-nHist-nSelf-nSib)
				return
			}
			if idx >= nHist+nSelf {
				siblingScenario(c, idx-nHist-nSelf, "C04") // both sibling child stores carry an fk constraint of the same name to one target
				return
			}
			if idx >= nHist {
				c04Self(c, idx-nHist)
				return
			}
			r := c.Rand()
			cfg := kmodel.AllConfigs[idx%len(kmodel.AllConfigs)]
			w := map[string]int{"create": 10, "update": 5, "patch": 5, "delete": 9, "deletewhere": 2}
			// every third case lets the two stores share id strings (an employee and a department with the same id)
			var setup func(e *kmodel.Engine)
			if idx%3 == 2 {
				setup = func(e *kmodel.Engine) {
					e.EmpPool = append(append([]string{}, kmodel.EmpIds[:5]...), "d1", "D1", "null")
					e.DeptPool = append(append([]string{}, kmodel.DeptIds[:4]...), "e1", "E1", "or")
				}
				c.Cover("id_universe", "shared-between-stores")
			}
			runHistory(c, r, histOpts{Prefix: "C04", FanIn: true, Cfg: cfg, NTx: 40, MaxOps: 3, Hostile: true, Weights: w, Setup: setup,
				AfterTx: func(e *kmodel.Engine, res *kmodel.TxResult, _, _ *dump.Dump) {
					if !res.Committed {
						return
					}
					for _, op := range res.Ops {
						if op.Kind == "delete" && op.Exp == kmodel.ExpOK {
							c.Cover("delete", cfg.String()+":accepted")
							if n := len(e.M.LastDeleted); n > 1 {
								if n > 3 {
									c.Count("cascades_of_3_or_more", 1)
								}
								c.Count("cascade_deletes", 1)
								c.Count("cascaded_entities", int64(n-1))
								c.Cover("delete", cfg.String()+":cascaded")
							}
						}
					}
				}})
		},
		Promises: func(core.Tier) map[string][]string {
			return map[string][]string{"op_outcome": {"create:ok", "create:notfound", "update:notfound", "delete:ok", "delete:refexists", "delete:notfound"},
				"self_fk":       {"create-node:ok", "create-node:error", "update-node:ok", "update-node:error", "delete-node:ok", "delete-node:error", "create-pin:ok", "create-pin:error", "delete-pin:ok"},
				"self_fk_shape": {"self", "self+edge-size id"},
				"child_fk": {"non-nullable fk index: null reference, over an entity that exists in the parent store", "cascade-delete fk index: null reference, over an entity that exists in the parent store", "non-nullable fk constraint: null reference, over an entity that exists in the parent store",
					"non-nullable fk index: existing target, over an entity that exists in the parent store", "non-nullable fk constraint: dangling reference, together with the entity"}}
		},
		MinCounters: func(core.Tier) map[string]int64 {
			return map[string]int64{"child_store_fk_creates": 200, "cascade_deletes": 20, "cascades_of_3_or_more": 100, "self_fk_states_checked": 1000, "cascade_deletes_over_a_reference_cycle": 20, "self_fk_cascade_deletes_over_a_cycle": 8}
		},
	})
}
