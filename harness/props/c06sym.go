package props

import (
	"fmt"
	"os"
	"sort"
	"strings"

	"github.com/openziti/storage/boltz"
	"go.etcd.io/bbolt"
	"verif/harness/internal/core"
	"verif/harness/internal/schema"
)

// C06 part (e): a link collection whose two sides are the same set symbol of one store (peers.friends <-> peers.friends),
// entities linked to themselves included. Links are written and entities deleted in the same transaction or in
// separate ones. After every commit: the id of a deleted entity is in nobody's link set, the links are symmetric, and
// the link sets are what the committed link operations say.
const c06SymCases = 24

func c06Symmetric(c *core.Ctx, idx int) {
	r := c.Rand()
	// odd cases: the two sides are two fields of the one store (mentees <-> mentors), links are directed
	directed := idx%2 == 1
	peers := &schema.StoreDef{Type: "peers", BasePath: []string{"stores"},
		Fields: []schema.Field{{Name: "label", Kind: schema.KStr}, {Name: "friends", Kind: schema.KList, FK: "peers", Derived: true}},
		Links:  []schema.LinkDef{{Field: "friends", Target: "peers", TargetField: "friends"}}}
	if directed {
		peers.Fields = []schema.Field{{Name: "label", Kind: schema.KStr}, {Name: "mentees", Kind: schema.KList, FK: "peers", Derived: true}, {Name: "mentors", Kind: schema.KList, FK: "peers", Derived: true}}
		peers.Links = []schema.LinkDef{{Field: "mentees", Target: "peers", TargetField: "mentors"}, {Field: "mentors", Target: "peers", TargetField: "mentees"}}
	}
	sc := schema.Build([]*schema.StoreDef{peers})
	path := c.TempFile("c06y")
	db, err := sc.OpenDb(path)
	if err != nil {
		c.Violation(c.Prop.ID+" setup", err.Error(), nil)
		return
	}
	defer func() { _ = db.Close(); _ = os.Remove(path) }()
	st := sc.St("peers")
	links := st.Links["friends"]
	back := links
	if directed {
		links, back = st.Links["mentees"], st.Links["mentors"]
	}
	pool := []string{"a", "b", "c", "d", "\x05e", "f", "g"} // one id begins with the byte stored keys are tagged with
	live := map[string]bool{}
	pair := func(x, y string) [2]string {
		if x > y && !directed {
			x, y = y, x
		}
		return [2]string{x, y}
	}
	linked := map[[2]string]bool{}
	var hist []string
	for t := 0; t < 14; t++ {
		// one transaction: a few of create / link / unlink / delete
		type step struct {
			kind   string
			id     string
			others []string
		}
		var steps []step
		tLive, tLinked := map[string]bool{}, map[[2]string]bool{}
		for k, v := range live {
			tLive[k] = v
		}
		for k, v := range linked {
			tLinked[k] = v
		}
		n := 1 + r.Intn(4)
		for i := 0; i < n; i++ {
			var liveIds []string
			for _, id := range pool {
				if tLive[id] {
					liveIds = append(liveIds, id)
				}
			}
			kind := core.Pick(r, []string{"create", "link", "link", "unlink", "delete"})
			if len(liveIds) < 3 {
				kind = "create"
			}
			switch kind {
			case "create":
				for _, id := range pool {
					if !tLive[id] {
						steps = append(steps, step{kind: "create", id: id})
						tLive[id] = true
						break
					}
				}
			case "link":
				id := core.Pick(r, liveIds)
				others := core.Subset(r, liveIds, 0.6)
				if r.P(0.6) && !contains(others, id) {
					others = append([]string{id}, others...) // linked to itself, in front of the others
				}
				if len(others) == 0 {
					continue
				}
				steps = append(steps, step{kind: "link", id: id, others: others})
				for _, o := range others {
					tLinked[pair(id, o)] = true
				}
			case "unlink":
				id := core.Pick(r, liveIds)
				o := core.Pick(r, liveIds)
				steps = append(steps, step{kind: "unlink", id: id, others: []string{o}})
				delete(tLinked, pair(id, o))
			case "delete":
				id := core.Pick(r, liveIds)
				steps = append(steps, step{kind: "delete", id: id})
				delete(tLive, id)
				for p := range tLinked {
					if p[0] == id || p[1] == id {
						delete(tLinked, p)
					}
				}
				sameTx := false
				for _, s := range steps[:len(steps)-1] {
					if s.kind == "link" && (s.id == id || contains(s.others, id)) {
						sameTx = true
					}
				}
				c.Cover("symmetric_delete", fmt.Sprintf("links of the deleted entity written in the same transaction=%v, two fields=%v", sameTx, directed))
			}
		}
		var desc []string
		err := db.Update(nil, func(ctx boltz.MutateContext) error {
			for _, s := range steps {
				desc = append(desc, fmt.Sprintf("%s %s %v", s.kind, s.id, s.others))
				var err error
				switch s.kind {
				case "create":
					err = st.Store.Create(ctx, &schema.Ent{Id: s.id, Typ: "peers", V: map[string]any{"label": "l"}})
				case "link":
					err = links.AddLinks(ctx.Tx(), s.id, s.others...)
				case "unlink":
					err = links.RemoveLinks(ctx.Tx(), s.id, s.others...)
				case "delete":
					err = st.Store.DeleteById(ctx, s.id)
				}
				if err != nil {
					return fmt.Errorf("%s %s %v: %w", s.kind, s.id, s.others, err)
				}
			}
			return nil
		})
		hist = append(hist, fmt.Sprint(desc))
		c.Eval()
		c.Count("symmetric_link_transactions", 1)
		info := map[string]any{"transactions": hist[max(0, len(hist)-3):]}
		if err != nil {
			c.Violationf(c.Prop.ID+" symmetric link collection: a valid transaction was refused", info, "%v", err)
			return
		}
		live, linked = tLive, tLinked
		c.Nontrivial("c06sym", len(steps), len(linked), t, idx)
		_ = db.View(func(tx *bbolt.Tx) error {
			for _, id := range pool {
				if !live[id] {
					continue
				}
				got := links.GetLinks(tx, id)
				var want, wantBack []string
				for _, o := range pool {
					if linked[pair(id, o)] {
						want = append(want, o)
					}
					if linked[pair(o, id)] {
						wantBack = append(wantBack, o)
					}
				}
				sort.Strings(got)
				sort.Strings(want)
				sort.Strings(wantBack)
				if gotBack := back.GetLinks(tx, id); directed {
					sort.Strings(gotBack)
					for _, o := range gotBack {
						if !live[o] {
							c.Violationf(c.Prop.ID+" link collection between two fields of one store: the id of a deleted entity is still in a link set", info, "mentors of %s = %q, %s was deleted", id, gotBack, o)
						}
					}
					if fmt.Sprint(gotBack) != fmt.Sprint(wantBack) {
						c.Violationf(c.Prop.ID+" link collection between two fields of one store: link set differs from the committed link operations", info, "mentors of %s = %q, expected %q", id, gotBack, wantBack)
					}
				}
				for _, o := range got {
					if !live[o] {
						c.Violationf(c.Prop.ID+" symmetric link collection: the id of a deleted entity is still in a link set", info, "friends of %s = %q, %s was deleted", id, got, o)
					} else if !back.IsLinked(tx, []byte(o), []byte(id)) {
						c.Violationf(c.Prop.ID+" symmetric link collection: a link exists on one side only", info, "%s lists %s, %s does not list %s", id, o, o, id)
					}
				}
				if fmt.Sprint(got) != fmt.Sprint(want) {
					c.Violationf(c.Prop.ID+" symmetric link collection: link set differs from the committed link operations", info, "friends of %s = %q, expected %q", id, got, want)
				}
			}
			return nil
		})
	}
	if c.Prop.ID == "C09" {
		c09SameStoreLinks(c, db, st, directed, live, pool)
	}
}

// c09SameStoreLinks (run by C09 over the final state of the history): the integrity check of a link collection that
// stays inside one store. The consistent state yields no report; a link of an entity to itself (or to a neighbour)
// that has lost one of its two sides is reported by a check-only run and repaired by a fix run.
func c09SameStoreLinks(c *core.Ctx, db *boltz.DbImpl, st *schema.St, directed bool, live map[string]bool, pool []string) {
	field, other := "friends", "friends"
	if directed {
		field, other = "mentees", "mentors"
	}
	run := func(fix bool) ([]string, error) {
		var reps []string
		err := db.Update(nil, func(ctx boltz.MutateContext) error {
			return st.Store.CheckIntegrity(ctx, fix, func(err error, fixed bool) { reps = append(reps, err.Error()) })
		})
		return reps, err
	}
	reps, err := run(false)
	c.Eval()
	info := map[string]any{"two_fields": directed}
	if err != nil || len(reps) > 0 {
		c.Violationf("C09 link collection inside one store: integrity check reports on a consistent database", info, "err=%v reports %v", err, reps)
		return
	}
	var a, b string
	for _, id := range pool {
		if live[id] && a == "" {
			a = id
		} else if live[id] && b == "" {
			b = id
		}
	}
	if b == "" {
		return
	}
	for _, tc := range []struct{ what, from, to string }{{"an entity linked to itself", a, a}, {"an entity linked to its neighbour", a, b}} {
		if !directed && tc.from == tc.to {
			continue // one symbol on both sides: a self link has one entry, there is no side to lose
		}
		// make sure the link exists, then remove the far side raw
		if err := db.Update(nil, func(ctx boltz.MutateContext) error {
			if err := st.Links[field].AddLinks(ctx.Tx(), tc.from, tc.to); err != nil {
				return err
			}
			lb := bpath(ctx.Tx(), "stores", "peers", tc.to, other)
			if lb == nil {
				return fmt.Errorf("no %s bucket of %s", other, tc.to)
			}
			return lb.Delete(tkey(tc.from))
		}); err != nil {
			c.Violationf("C09 link collection inside one store: could not plant the one-sided link", info, "%v", err)
			return
		}
		reps, err := run(false)
		c.Eval()
		c.Count("one_sided_links_inside_one_store", 1)
		c.Cover("same_store_link", fmt.Sprintf("%s, two fields=%v", tc.what, directed))
		tinfo := map[string]any{"two_fields": directed, "planted": fmt.Sprintf("%s.%s lists %s, %s.%s does not list %s", tc.from, field, tc.to, tc.to, other, tc.from), "reports": reps}
		mentioned := false
		for _, rep := range reps {
			mentioned = mentioned || (strings.Contains(rep, tc.from) && strings.Contains(rep, tc.to))
		}
		if err != nil || !mentioned {
			c.Violationf("C09 link collection inside one store: a one-sided link ("+tc.what+") is not reported", tinfo, "err=%v, %d reports", err, len(reps))
		}
		if _, err := run(true); err != nil {
			c.Violationf("C09 link collection inside one store: fix run failed", tinfo, "%v", err)
		}
		if reps, err := run(false); err != nil || len(reps) > 0 {
			c.Violationf("C09 link collection inside one store: still reported after a fix run ("+tc.what+")", tinfo, "err=%v reports %v", err, reps)
		}
	}
}
