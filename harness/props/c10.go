package props

import (
	"fmt"
	"math"
	"runtime/debug"
	"unicode/utf8"

	"go.etcd.io/bbolt"
	"strings"
	"time"
	"verif/harness/internal/qx"

	"github.com/openziti/storage/ast"
	"github.com/openziti/storage/boltz"
	"github.com/openziti/storage/zitiql"
	"verif/harness/internal/core"
	"verif/harness/internal/memsym"
	"verif/harness/internal/schema"
)

// symbol table for C10: one symbol per type, a set, a non-set used as a set, a map element, a linked set
func c10Table() (*memsym.Table, []*memsym.Row) {
	linked := memsym.NewTable()
	linked.Types["name"] = ast.NodeTypeString
	linked.Types["rank"] = ast.NodeTypeInt64
	linked.Types["lt"] = ast.NodeTypeString
	linked.Sets["lt"] = true
	linked.Types["back"] = ast.NodeTypeString
	linked.Sets["back"] = true
	t := memsym.NewTable()
	linked.Linked["back"] = t
	t.Types["sa"] = ast.NodeTypeString
	t.Types["na"] = ast.NodeTypeInt64
	t.Types["fa"] = ast.NodeTypeFloat64
	t.Types["ba"] = ast.NodeTypeBool
	t.Types["da"] = ast.NodeTypeDatetime
	t.Types["ta"] = ast.NodeTypeString
	t.Sets["ta"] = true
	t.Types["ia"] = ast.NodeTypeInt64
	t.Sets["ia"] = true
	t.Types["m.k"] = ast.NodeTypeAnyType
	t.Types["m.a.b"] = ast.NodeTypeAnyType
	t.Types["ls"] = ast.NodeTypeString
	t.Sets["ls"] = true
	t.Linked["ls"] = linked
	mk := func() *memsym.Row { return memsym.NewRow(t) }
	var rows []*memsym.Row
	rows = append(rows, mk()) // everything null, all sets empty
	full := mk()
	full.Vals["sa"], full.Vals["na"], full.Vals["fa"], full.Vals["ba"] = "ab", int64(3), 2.5, true
	full.Vals["da"] = time.Date(2020, 1, 2, 3, 4, 5, 0, time.UTC)
	full.Vals["m.k"], full.Vals["m.a.b"] = "x", int64(7)
	full.SetVals["ta"] = []any{"a", "b", "ab"}
	full.SetVals["ia"] = []any{int64(1), int64(2)}
	l1, l2 := memsym.NewRow(linked), memsym.NewRow(linked)
	l1.Vals["name"], l1.Vals["rank"] = "n1", int64(1)
	l2.Vals["rank"] = int64(5)
	l1.SetVals["lt"] = []any{"a", ""}
	l1.SetVals["back"] = []any{"r1"}
	l1.LinkedRows["back"] = []*memsym.Row{mk()}
	full.LinkedRows["ls"] = []*memsym.Row{l1, l2}
	full.SetVals["ls"] = []any{"l1", "l2"}
	rows = append(rows, full)
	mixed := mk()
	mixed.Vals["m.k"], mixed.Vals["m.a.b"] = 2.5, true // map values of other types
	mixed.Vals["sa"] = ""
	mixed.SetVals["ta"] = []any{""}
	mixed.SetVals["ia"] = []any{nil, int64(1)} // a null element
	rows = append(rows, mixed)
	return t, rows
}

var c10Lhs = []string{"sa", "na", "fa", "ba", "da", "ta", "ia", "m.k", "m.a.b", "zz", "ls", "anyOf(ta)", "allOf(ta)", "anyOf(ia)", "allOf(ia)", "count(ta)", "anyOf(sa)", "count(na)", "anyOf(zz)", "anyOf(ls)",
	"count(from ls where rank > 1)", "count(from ls where name = \"n1\" sort by rank skip 1 limit 1)", "count(from ta where true)", "count(from zz where true)", "anyOf(m.k)"}
var c10Scalars = []string{`"ab"`, `""`, "3", "-1", "2.5", "1e3", "9223372036854775807", "9223372036854775808", "datetime(2020-01-02T03:04:05Z)", "datetime(2020-01-02T03:04:05.123+05:45)", "true", "FALSE", "null", "NULL",
	// literals the lexer accepts and the conversion refuses
	"1e400", "datetime(2020-02-30T00:00:00Z)",
	// escapes at the ends of a string literal
	`"a\""`, `"\""`, `"\\"`, `"\"a"`}
var c10Arrays = []string{`[1, 1e400]`, `[1e400, 1]`, `[1, 2, 1e400, 3]`, `[1, 9223372036854775808]`, `[datetime(2020-01-02T03:04:05Z), datetime(2020-02-30T00:00:00Z)]`, `[datetime(2020-02-30T00:00:00Z), datetime(2020-01-02T03:04:05Z)]`, `["a", "b\q"]`,
	`["a", "b"]`, `[1, 2]`, `[1.5, 2]`, `[1, 2.5, 3]`, `[datetime(2020-01-02T03:04:05Z)]`, `[datetime(2020-01-02T03:04:05Z), datetime(2021-01-02T03:04:05Z)]`, `["a"]`, `[1]`,
	// long lists (16 and more elements; values below, inside and above the list's range occur among the rows)
	`[-9, -8, -7, -6, -5, -4, -3, -2, -1, 0, 1, 2, 3, 4, 5, 6, 7, 8, 9, 10]`, `["a", "b", "c", "d", "e", "f", "g", "h", "i", "j", "k", "l", "m", "n", "o", "p", "q"]`, `[0.5, 1.5, 2.5, 3.5, 4.5, 5.5, 6.5, 7.5, 8.5, 9.5, 10.5, 11.5, 12.5, 13.5, 14.5, 15.5]`, `[-11, -4, 3, 10, -6, 1, 8, -8, -1, 6, -10, -3, 4, 11, -5, 2, 9, -7, 0, 7, -9, -2, 5, -11, -4, 3, 10, -6, 1, 8, -8, -1, 6, -10, -3, 4, 11, -5, 2, 9]`}
var c10Betweens = []string{"1 and 5", "1.5 and 5", "1 and 5.5", "datetime(2020-01-01T00:00:00Z) and datetime(2021-01-01T00:00:00Z)", "5 and 1", "-1 and -1", "1 and 1e400", "datetime(2020-01-01T00:00:00Z) and datetime(2021-02-30T00:00:00Z)"}
var c10Suffix = []string{"", " sort by sa", " sort by na desc, sa asc", " sort by ta", " sort by zz", " sort by m.k", " skip 1", " skip -1", " limit 1", " limit none", " limit -3", " skip 2 limit 2", " sort by da skip 0 limit 0", " skip 1.5", " limit 2.5", " skip 9223372036854775807 limit 9223372036854775807"}

// c10Sentences enumerates grammar-derived sentences with arbitrary operand type mixes, at the top level and as the
// predicate of a sub-query (one and two levels deep).
func c10Sentences() []string {
	out := c10SentencesFor(c10Lhs)
	out = append(out, c10Nested("ls", c10SentencesFor(c10LinkedLhs), 1)...)
	out = append(out, c10Nested2("ls", "back", c10SentencesFor(c10Lhs[:12]), 7)...)
	return out
}

// left-hand sides inside `from ls where ...` (the linked table): scalars, a set and a linked set used as scalars
// and inside set functions, unknown symbols, a sub-query back to the outer table
var c10LinkedLhs = []string{"name", "rank", "lt", "back", "zz", "anyOf(lt)", "allOf(lt)", "count(lt)", "count(back)", "anyOf(name)", "count(from back where true)", "count(from back where ta = \"a\")", "anyOf(back)"}

// c10Nested wraps every step-th sentence as the predicate of a sub-query over set.
func c10Nested(set string, inner []string, step int) []string {
	var out []string
	for i := 0; i < len(inner); i += step {
		switch i % 3 {
		case 0:
			out = append(out, "count(from "+set+" where "+inner[i]+") > 0")
		case 1:
			out = append(out, "isEmpty(from "+set+" where "+inner[i]+")")
		default:
			out = append(out, "not isEmpty(from "+set+" where "+inner[i]+") or count(from "+set+" where "+inner[i]+" limit 1) = 1")
		}
	}
	return out
}

func c10Nested2(set, innerSet string, inner []string, step int) []string {
	var out []string
	for i := 0; i < len(inner); i += step {
		out = append(out, "count(from "+set+" where count(from "+innerSet+" where "+inner[i]+") > 0) > 0")
	}
	return out
}

// left-hand sides over schema Q (bolt path)
var c10BoltLhs = []string{"s", "ism", "ibig", "flt", "b", "t", "grp", "tags", "nums", "friends", "owner", "id", "meta.k", "meta.a.b", "meta", "owner.name", "owner.tags", "friends.name", "friends.tags", "friends.rank", "zz", "owner.zz",
	"count(friends.tags)", "count(owner.tags)", "count(friends.things.ibig)", "count(owner.things)", "anyOf(friends.things.owner.name)",
	"s.len", "tags.x", "nums.value", "ism.x", "b.c", "t.year", "grp.x", "id.x", "anyOf(tags.x)", "anyOf(nums.value)", "count(s.len)",
	"anyOf(tags)", "allOf(tags)", "anyOf(friends.name)", "allOf(friends.rank)", "anyOf(owner.tags)", "count(tags)", "count(friends)", "anyOf(s)", "count(ism)", "anyOf(meta.k)", "anyOf(zz)",
	"count(from friends where rank > 1)", "count(from friends where name = \"a\" skip 1 limit 1)", "count(from tags where true)", "count(from owner where true)", "count(from friends where zz = 1)"}

// left-hand sides inside `from friends where ...` (store others): scalars, sets, link sets and dotted (composite) set
// symbols used as scalars and inside set functions
var c10BoltOthersLhs = []string{"name", "rank", "tags", "things", "id", "things.flt", "things.s", "things.nums", "things.owner.name", "things.friends.rank", "zz", "things.zz",
	"anyOf(tags)", "anyOf(things.flt)", "allOf(things.owner.name)", "count(things)", "anyOf(name)", "count(from things where true)", "count(from things where tags = \"a\")", "count(from things where anyOf(tags) = \"a\")"}

func c10SentencesFor(lhs []string) []string {
	var out []string
	for _, l := range lhs {
		for _, op := range []string{"=", "!=", "<", "<=", ">", ">="} {
			for _, r := range c10Scalars {
				out = append(out, l+" "+op+" "+r)
			}
		}
		for _, op := range []string{"in", "not in", "IN", "Not In"} {
			for _, a := range c10Arrays {
				out = append(out, l+" "+op+" "+a)
			}
		}
		for _, op := range []string{"between", "not between"} {
			for _, b := range c10Betweens {
				out = append(out, l+" "+op+" "+b)
			}
		}
		for _, op := range []string{"contains", "not contains", "icontains", "not icontains"} {
			for _, r := range []string{`"a"`, `""`, "3", "2.5"} {
				out = append(out, l+" "+op+" "+r)
			}
		}
		out = append(out, "isEmpty("+l+")", "not isEmpty("+l+")", l, "not "+l, "not ("+l+")")
	}
	out = append(out, "true", "false", "not true", "isEmpty(from ls where rank = 1)", "isEmpty(from ls where zz = 1)", "isEmpty(from ls where isEmpty(from ls where true))", "")
	return out
}

var c10Junk = []string{"§", "#", "@", "~", "$", ";", "{", "}", "%", "^", "&", "*", "|", "?", "/", "\\", "`", "\x00", "\x7f", " "}

// token alphabet for bounded-exhaustive sequences (one representative per lexer rule + symbols of each type)
var c10Tokens = []string{"(", ")", "[", "]", ",", "and", "or", "not", "=", "!=", "<", ">=", "in", "not in", "between", "not between", "contains", "icontains", "true", "null",
	"datetime(2020-01-02T03:04:05Z)", "allOf", "anyOf", "count", "isEmpty", `"s"`, "1", "2.5", "asc", "desc", "sort", "by", "skip", "limit", "none", "where", "from",
	"sa", "na", "da", "ta", "ls", "m.k"}

const c10SeqChunk = 3000

func c10SeqCount(maxLen int) int {
	n, p := 0, 1
	for l := 1; l <= maxLen; l++ {
		p *= len(c10Tokens)
		n += p
	}
	return n
}

func c10Seq(i int) string { // i-th sequence in length-then-lexicographic order
	l, p := 1, len(c10Tokens)
	for i >= p {
		i -= p
		p *= len(c10Tokens)
		l++
	}
	parts := make([]string, l)
	for k := l - 1; k >= 0; k-- {
		parts[k] = c10Tokens[i%len(c10Tokens)]
		i /= len(c10Tokens)
	}
	return strings.Join(parts, " ")
}

func c10MaxLen(t core.Tier) int {
	if t == core.Thorough {
		return 4
	}
	return 3
}

const c10BoltCases = 16
const c10ObjCases = 8

func c10Plan(t core.Tier) (sent, mut, seq, rnd int) {
	sent = 16 // sentences x suffixes split into 16 cases
	mut = 24
	rnd = 8
	if t == core.Thorough {
		mut, rnd = 6000, 2000
	}
	seq = (c10SeqCount(c10MaxLen(t)) + c10SeqChunk - 1) / c10SeqChunk
	return
}

func init() {
	core.Register(&core.Property{
		ID:    "C10",
		Level: "exploration",
		Rule: "inputs: (a) grammar-derived sentences for every operation alternative x 25 left-hand sides (symbols of every type, sets, map elements, unknown symbols, set functions over sets and non-sets, sub-queries) x literals / arrays / ranges of every type x 16 sort/skip/limit suffixes; " +
			"(b) token-level mutations of them (delete, duplicate, swap, replace, truncate); (c) all token sequences of length <= 3 (quick) / 4 (thorough) over a 43-token alphabet; (d) random bytes and runes. " +
			"Every input is parsed against an in-memory symbol table; a panic is a violation; every accepted query is evaluated on rows with all-null fields, empty sets, null set elements and mistyped map values (panic = violation). " +
			"Rejection oracle: a sentence with one character that no lexer rule matches inserted at a token boundary, and a sentence truncated inside an open parenthesis/bracket/function call, is not a sentence and must be rejected; so must a sentence with a byte that is not valid UTF-8 inserted anywhere, string literals included. " +
			"The sentence families are also run through Store.QueryIds on a populated bolt store, an emptied one and a database nothing was ever written to (no entities bucket, no index buckets); in-lists of 16-40 integers, strings and floats are among the arrays; (schema Q, with sort / skip / limit suffixes that page past the end) and through ObjectStore.QueryEntities on a populated and an empty in-memory object store (unknown and set-like names in predicates and sort clauses). " +
			"A canary query with a known truth table is re-parsed between inputs (pooled lexer/parser state). non-trivial = distinct inputs that were accepted and evaluated, plus distinct rejected-by-construction inputs",
		Assumptions: []string{"membership in the grammar is judged only for non-sentences by construction; termination is a per-worker watchdog (inconclusive when it fires)"},
		Exhaustive:  func(core.Tier) bool { return true },
		Plan: func(tier core.Tier, seed int64) int {
			a, b, c, d := c10Plan(tier)
			return a + b + c + d + c10BoltCases + c10ObjCases
		},
		Run: runC10,
		MinCounters: func(core.Tier) map[string]int64 {
			return map[string]int64{"accepted_and_evaluated": 2000, "rejected": 2000, "junk_inserted": 1000, "bolt_queries_accepted": 1000, "bolt_queries_on_empty_store": 1000, "object_store_queries_accepted": 500, "object_store_queries_on_empty_store": 500, "object_store_rejected": 500}
		},
	})
}

type c10Env struct {
	c    *core.Ctx
	tbl  *memsym.Table
	rows []*memsym.Row
	n    int
}

// try parses (and evaluates) one input, converting a panic into a violation. Returns whether it was accepted.
func (e *c10Env) try(input string, origin string) (accepted bool) {
	defer func() {
		if r := recover(); r != nil {
			st := string(debug.Stack())
			site := c10PanicSite(st)
			e.c.Violationf("C10 panic in "+site, map[string]any{"input": input, "origin": origin}, "input %q (%s) panicked: %v\n%s", input, origin, r, firstLines(st, 14))
		}
	}()
	e.n++
	e.c.Eval()
	q, err := ast.Parse(e.tbl, input)
	if err != nil || q == nil {
		e.c.Count("rejected", 1)
		if e.n%7 == 0 {
			e.bareCanary(input)
		}
		return false
	}
	for _, row := range e.rows {
		_ = q.EvalBool(row)
	}
	_ = q.String()
	e.c.Count("accepted_and_evaluated", 1)
	if e.n%50 == 0 {
		e.canary()
	}
	return true
}

// bareCanary: a query without a predicate, parsed right after a rejected input, matches every row (nothing of the
// rejected text may survive into it).
func (e *c10Env) bareCanary(after string) {
	for _, text := range []string{"limit 3", "skip 1", "sort by sa", "sort by na desc limit 2"} {
		q, err := ast.Parse(e.tbl, text)
		if err != nil {
			e.c.Violationf("C10 predicate-less query rejected after a rejected input", map[string]any{"query": text, "after": after}, "%v", err)
			continue
		}
		for i, row := range e.rows {
			if !q.EvalBool(row) {
				e.c.Violationf("C10 predicate-less query does not match every row after a rejected input", map[string]any{"query": text, "after": after}, "%q evaluates to false on row %d (parsed as %s)", text, i, q.String())
				break
			}
		}
	}
	e.c.Count("bare_canaries", 1)
}

func (e *c10Env) canary() {
	q, err := ast.Parse(e.tbl, `na = 3 and sa = "ab" or fa > 100`)
	if err != nil {
		e.c.Violationf("C10 canary query rejected after hostile inputs", nil, "%v", err)
		return
	}
	want := []bool{false, true, false}
	for i, row := range e.rows {
		if q.EvalBool(row) != want[i] {
			e.c.Violationf("C10 canary query evaluates differently after hostile inputs", nil, "row %d", i)
		}
	}
}

func c10PanicSite(st string) string {
	lines := strings.Split(st, "\n")
	seenPanic := false
	for _, l := range lines {
		if strings.HasPrefix(l, "panic(") {
			seenPanic = true
			continue
		}
		if !seenPanic || strings.HasPrefix(l, "\t") {
			continue
		}
		fn := l
		if j := strings.LastIndex(fn, "("); j > 0 {
			fn = fn[:j]
		}
		if strings.HasPrefix(fn, "runtime.") {
			continue
		}
		return fn
	}
	return "unknown"
}

func firstLines(s string, n int) string {
	l := strings.Split(s, "\n")
	if len(l) > n {
		l = l[:n]
	}
	return strings.Join(l, "\n")
}

// boundaries returns byte offsets of token boundaries outside string literals (where a junk character can be inserted).
func boundaries(s string) []int {
	var out []int
	inStr := false
	for i := 0; i <= len(s); i++ {
		if i < len(s) && s[i] == '"' && (i == 0 || s[i-1] != '\\') {
			inStr = !inStr
		}
		if inStr {
			continue
		}
		if i == 0 || i == len(s) || s[i] == ' ' || s[i-1] == ' ' || s[i] == '(' || s[i-1] == '(' || s[i] == ')' || s[i] == '[' || s[i] == ']' || s[i] == ',' {
			out = append(out, i)
		}
	}
	return out
}

// c10TwoTables: the same filter text parsed for one symbol table and then for another which does not know its symbol (or
// knows it with another type): the second parse is a verdict about the second table. The texts are parsed for the first
// table at the very start of a case (and so among the first texts a worker process ever parses).
// c10PagingBeyondInt64: skip and limit take integers; a plain-digit literal beyond the int64 range is no integer the
// query could mean - it is refused, not replaced by another number. In a comparison the same text is a number (a
// float): every int64 lies below 99999999999999999999.
func c10PagingBeyondInt64(c *core.Ctx) {
	tbl := memsym.NewTable()
	tbl.Types["pbn"] = ast.NodeTypeInt64
	for _, text := range []string{"true skip 9223372036854775808", "true limit 99999999999999999999", "pbn = 1 skip 18446744073709551616 limit 1", "true skip 1 limit 9223372036854775808", "true sort by pbn limit 340282366920938463463374607431768211456"} {
		_, err := ast.Parse(tbl, text)
		c.Eval()
		c.Count("paging_values_beyond_int64", 1)
		if err == nil {
			c.Violationf("C10 a skip / limit value beyond the int64 range is accepted (read as another number)", text, "%q parsed without an error", text)
		}
	}
	row := memsym.NewRow(tbl)
	for _, v := range []int64{0, math.MaxInt64, math.MinInt64, 1 << 62} {
		row.Vals["pbn"] = v
		for text, want := range map[string]bool{"pbn < 99999999999999999999": true, "pbn >= 99999999999999999999": false, "pbn > -99999999999999999999": true, "pbn in [99999999999999999999, 5]": false} {
			q, err := ast.Parse(tbl, text)
			c.Eval()
			if err != nil {
				continue // refusing the literal is fine, reading it as another number is not
			}
			if got := q.EvalBool(row); got != want {
				c.Violationf("C10 an integer literal beyond the int64 range is read as another number", map[string]any{"query": text, "pbn": v}, "%q over pbn=%d evaluates to %v", text, v, got)
			}
		}
	}
}

// c10SimpleLiterals: the simplest sentences there are (one symbol compared with one string literal), with a raw control
// character or a byte that is no UTF-8 put into the literal at every position: none of them is a sentence.
func c10SimpleLiterals(c *core.Ctx) {
	tbl := memsym.NewTable()
	tbl.Types["sla"], tbl.Types["slb"] = ast.NodeTypeString, ast.NodeTypeString
	for _, form := range []struct{ pre, lit, post string }{{`sla = "`, "ab", `"`}, {`slb != "`, "x y", `"`}, {` sla  =  "`, "", `" `}, {`sla = "`, "é", `"`}} {
		if _, err := ast.Parse(tbl, form.pre+form.lit+form.post); err != nil {
			c.Violationf("C10 a simple comparison with a string literal is refused", form.pre+form.lit+form.post, "%v", err)
			continue
		}
		for pos := 0; pos <= len(form.lit); pos++ {
			if pos > 0 && pos < len(form.lit) && !utf8.RuneStart(form.lit[pos]) {
				continue
			}
			for _, bad := range []string{"\t", "\n", "\r", "\x01", "\x1f", "\x00", "\xff", "\x80", "\xc0"} {
				text := form.pre + form.lit[:pos] + bad + form.lit[pos:] + form.post
				_, err := ast.Parse(tbl, text)
				c.Eval()
				c.Count("simple_literals_with_a_raw_control_or_non_utf8_byte", 1)
				if err == nil {
					what := "a raw control character"
					if bad[0] >= 0x80 {
						what = "a byte that is not UTF-8"
					}
					c.Violationf("C10 a simple comparison whose string literal holds "+what+" is accepted", map[string]any{"input": text}, "%q parsed without an error", text)
				}
			}
		}
	}
}

func c10TwoTables(c *core.Ctx) {
	c10SimpleLiterals(c)
	c10PagingBeyondInt64(c)
	a, b := memsym.NewTable(), memsym.NewTable()
	a.Types["twa"], a.Types["twn"], a.Types["tws"] = ast.NodeTypeString, ast.NodeTypeInt64, ast.NodeTypeString
	a.Sets["tws"] = true
	b.Types["twn"], b.Types["tws"] = ast.NodeTypeString, ast.NodeTypeString // twa unknown, twn a string, tws a plain string
	rowB := memsym.NewRow(b)
	rowB.Vals["twn"], rowB.Vals["tws"] = "5", "x"
	for _, tc := range []struct {
		text       string
		rejectForB bool
	}{
		{`twa = "x"`, true}, {`twa contains "x" or twn = 5`, true}, {`not (twa != "y") sort by twa`, true}, {`twn = 5 sort by twa desc limit 3`, true},
		{`twn = 5`, false}, {`twn >= 3 and twn in [5, 7]`, false}, {`anyOf(tws) = "x"`, false}, {`isEmpty(tws) or count(tws) > 1`, false},
	} {
		func() {
			defer func() {
				if rec := recover(); rec != nil {
					st := string(debug.Stack())
					c.Violationf("C10 panic in "+c10PanicSite(st)+" (same text parsed for two symbol tables)", tc.text, "%v\n%s", rec, firstLines(st, 12))
				}
			}()
			if _, err := ast.Parse(a, tc.text); err != nil {
				c.Violationf("C10 two tables: sentence rejected for the table it is written for", tc.text, "%v", err)
				return
			}
			q, err := ast.Parse(b, tc.text)
			c.Eval()
			c.Count("texts_parsed_for_two_symbol_tables", 1)
			if tc.rejectForB && err == nil {
				c.Violationf("C10 two tables: a filter over a symbol the second table does not know was accepted for it", tc.text, "parsed for a table that knows the symbol first, then for one that does not")
			}
			if err == nil {
				_ = q.EvalBool(rowB) // must not panic, whatever the second table makes of the text
			}
		}()
	}
}

func runC10(c *core.Ctx, idx int) {
	c10TwoTables(c)
	r := c.Rand()
	tbl, rows := c10Table()
	e := &c10Env{c: c, tbl: tbl, rows: rows}
	nSent, nMut, nSeq, nRnd := c10Plan(c.Tier)
	if idx >= nSent+nMut+nSeq+nRnd+c10BoltCases {
		c10Obj(c, idx-(nSent+nMut+nSeq+nRnd+c10BoltCases))
		return
	}
	if idx >= nSent+nMut+nSeq+nRnd {
		c10Bolt(c, idx-(nSent+nMut+nSeq+nRnd))
		return
	}
	sentences := c10Sentences()
	// a quarter of the cases run with the process-wide query-debug switch on: verdicts must not depend on it
	if idx%4 == 1 {
		ast.EnableQueryDebug.Store(true)
		defer ast.EnableQueryDebug.Store(false)
		c.Count("cases_with_query_debug_on", 1)
	}
	// the parser entry point with its debug option: text that is not a sentence must still come back with errors
	debugRejects := func(text, origin string) {
		defer func() {
			if rec := recover(); rec != nil {
				c.Violationf("C10 panic in zitiql.ParseWithDebug", map[string]any{"input": text, "origin": origin}, "%v", rec)
			}
		}()
		if errs := zitiql.ParseWithDebug(text, ast.NewListener(), true); len(errs) == 0 {
			c.Violationf("C10 zitiql.ParseWithDebug(debug=true) reports no error for text that is not a sentence ("+origin+")", map[string]any{"input": text}, "%q", text)
		}
		c.Count("debug_parses", 1)
	}
	junkCheck := func(s string) {
		// (accepted S, S with one unrecognised character inserted at a token boundary) must not both parse
		bs := boundaries(s)
		if len(bs) == 0 {
			return
		}
		pos := bs[r.Intn(len(bs))]
		j := core.Pick(r, c10Junk)
		mutated := s[:pos] + j + s[pos:]
		c.Count("junk_inserted", 1)
		if r.P(0.25) {
			debugRejects(mutated, "junk character inserted")
		}
		if e.try(mutated, "junk character inserted") {
			c.Violationf("C10 text with a character no lexer rule matches is accepted", map[string]any{"input": mutated, "sentence": s, "junk": j},
				"%q is accepted although %q (U+%04X) belongs to no token; the sentence without it is %q", mutated, j, []rune(j)[0], s)
		} else {
			c.Nontrivial("junk", mutated)
		}
		// a raw control character inside a string literal (the grammar wants it escaped: \n, \t ...): no sentence either
		if open := strings.Index(s, `"`); open >= 0 && r.P(0.3) {
			if closeRel := strings.Index(s[open+1:], `"`); closeRel >= 0 && !strings.Contains(s[open+1:open+1+closeRel], `\`) {
				ctl := core.Pick(r, []string{"\t", "\n", "\x01", "\x1f", "\r"})
				at := open + 1 + r.Intn(closeRel+1)
				broken := s[:at] + ctl + s[at:]
				c.Count("raw_control_character_inserted_into_a_literal", 1)
				if e.try(broken, "raw control character inside a string literal") {
					c.Violationf("C10 a string literal holding a raw control character is accepted", map[string]any{"input": broken, "sentence": s}, "%q is accepted (control character %q inside the literal)", broken, ctl)
				}
			}
		}
		// a byte that is no character at all (invalid UTF-8), anywhere - also inside a string literal, where every
		// character is welcome: the text is no sentence, and must not be read as one about U+FFFD
		if r.P(0.3) {
			pos := r.Intn(len(s) + 1)
			for pos > 0 && pos < len(s) && !utf8.RuneStart(s[pos]) {
				pos--
			}
			bad := core.Pick(r, []string{"\xff", "\xfe", "\x80", "\xc0"})
			broken := s[:pos] + bad + s[pos:]
			c.Count("invalid_utf8_inserted", 1)
			if e.try(broken, "invalid UTF-8 byte inserted") {
				c.Violationf("C10 text that is not valid UTF-8 is accepted", map[string]any{"input": broken, "sentence": s}, "%q is accepted (the byte %q was inserted at offset %d of %q)", broken, bad, pos, s)
			}
		}
	}
	truncCheck := func(s string) {
		// cut inside an open ( or [ : the remainder cannot be a sentence
		depth, inStr := 0, false
		var cuts []int
		for i := 0; i < len(s); i++ {
			if s[i] == '"' && (i == 0 || s[i-1] != '\\') {
				inStr = !inStr
			}
			if inStr {
				continue
			}
			if s[i] == '(' || s[i] == '[' {
				depth++
			}
			if s[i] == ')' || s[i] == ']' {
				depth--
			}
			if depth > 0 && (s[i] == ' ' || s[i] == '(' || s[i] == '[') {
				cuts = append(cuts, i+1)
			}
		}
		if len(cuts) == 0 {
			return
		}
		cut := cuts[r.Intn(len(cuts))]
		t := strings.TrimRight(s[:cut], " ")
		c.Count("truncated", 1)
		if r.P(0.25) {
			debugRejects(t, "truncated inside an open group")
		}
		if e.try(t, "truncated inside an open group") {
			c.Violationf("C10 text truncated inside an open parenthesis or bracket is accepted", map[string]any{"input": t, "sentence": s}, "%q is accepted (truncation of %q)", t, s)
		} else {
			c.Nontrivial("trunc", t)
		}
	}
	switch {
	case idx < nSent:
		for i := idx; i < len(sentences); i += nSent {
			for si, suf := range c10Suffix {
				if si > 0 && (i+si)%4 != 0 {
					continue
				}
				s := sentences[i] + suf
				if e.try(s, "sentence") {
					c.Nontrivial("sentence", s)
					c.Cover("accepted_lhs", strings.SplitN(sentences[i], " ", 2)[0])
					if c.WantSample() && strings.Contains(s, "between") {
						c.Sample(map[string]any{"accepted_and_evaluated": s})
					}
					junkCheck(s)
					truncCheck(s)
				}
			}
		}
	case idx < nSent+nMut:
		for k := 0; k < 400; k++ {
			s := core.Pick(r, sentences) + core.Pick(r, c10Suffix)
			toks := strings.Split(s, " ")
			switch r.Intn(6) {
			case 0:
				if len(toks) > 1 {
					i := r.Intn(len(toks))
					toks = append(toks[:i], toks[i+1:]...)
				}
			case 1:
				i := r.Intn(len(toks))
				toks = append(toks[:i+1], toks[i:]...)
			case 2:
				if len(toks) > 1 {
					i, j := r.Intn(len(toks)), r.Intn(len(toks))
					toks[i], toks[j] = toks[j], toks[i]
				}
			case 3:
				toks[r.Intn(len(toks))] = core.Pick(r, c10Tokens)
			case 4:
				toks = toks[:r.Intn(len(toks)+1)]
			case 5:
				i := r.Intn(len(toks))
				toks[i] = strings.ToUpper(toks[i])
			}
			m := strings.Join(toks, core.Pick(r, []string{" ", " ", "  ", "\t", "\n", ""}))
			if e.try(m, "mutation") {
				c.Nontrivial("mutation", m)
				junkCheck(m)
			}
		}
	case idx < nSent+nMut+nSeq:
		start := (idx - nSent - nMut) * c10SeqChunk
		total := c10SeqCount(c10MaxLen(c.Tier))
		for i := start; i < start+c10SeqChunk && i < total; i++ {
			s := c10Seq(i)
			if e.try(s, "token sequence") {
				c.Nontrivial("seq", s)
			}
		}
		c.Count("token_sequences", int64(min(c10SeqChunk, total-start)))
	default:
		for k := 0; k < 600; k++ {
			n := r.Intn(24)
			var sb strings.Builder
			for i := 0; i < n; i++ {
				switch r.Intn(5) {
				case 0:
					sb.WriteByte(byte(r.Intn(256)))
				case 1:
					sb.WriteRune(rune(r.Intn(0x3000)))
				case 2:
					sb.WriteString(core.Pick(r, c10Tokens))
				case 3:
					sb.WriteString(core.Pick(r, []string{" ", "\"", "\\", "(", ")", "[", "]", "'", ".", "-", "datetime(", "\\\""}))
				default:
					sb.WriteByte(byte(32 + r.Intn(95)))
				}
			}
			if e.try(sb.String(), "random bytes") {
				c.Nontrivial("random", sb.String())
			}
		}
	}
	e.canary()
	_ = fmt.Sprint
}

// c10Obj: the sentence family over an in-memory object store (its own symbol table answers differently from a bolt
// store: every name is "not a set", unknown names have no type), on a populated and an empty store.
var c10ObjLhs = []string{"id", "s", "ism", "ibig", "flt", "b", "t", "grp", "owner", "zz", "tags", "meta.k", "anyOf(s)", "count(ism)", "anyOf(zz)", "count(from s where true)", "isEmpty(zz)"}

func c10Obj(c *core.Ctx, part int) {
	r := c.Rand()
	full := newC19Store(qx.GenWorld(r, 12, false), r)
	empty := newC19Store(qx.GenWorld(core.NewRand(1), 0, false), r)
	sentences := c10SentencesFor(c10ObjLhs)
	try := func(os interface {
		QueryEntities(string) ([]*c19Obj, int64, error)
	}, q, counter string) {
		defer func() {
			if rec := recover(); rec != nil {
				st := string(debug.Stack())
				c.Violationf("C10 panic in "+c10PanicSite(st)+" (ObjectStore.QueryEntities)", map[string]any{"query": q}, "query %q panicked: %v\n%s", q, rec, firstLines(st, 14))
			}
		}()
		_, _, err := os.QueryEntities(q)
		c.Eval()
		if err == nil {
			c.Count(counter, 1)
		} else {
			c.Count("object_store_rejected", 1)
		}
	}
	for i := part; i < len(sentences); i += c10ObjCases {
		for si, suf := range []string{"", " sort by s desc, ism", " sort by zz", " sort by s, zz desc", " sort by tags", " skip 1 limit 2", " sort by flt skip -1 limit none", " sort by s skip 100",
			" sort by b, t desc, grp, owner, id, flt, ism", " limit 0", " sort by meta.k"} {
			if si > 0 && (i+si)%3 != 0 {
				continue
			}
			q := sentences[i] + suf
			try(full, q, "object_store_queries_accepted")
			try(empty, q, "object_store_queries_on_empty_store")
		}
	}
}

// c10Bolt: sentences with arbitrary operand type mixes over schema Q, run through Store.QueryIds on a populated
// database (nulls, empty and absent sets, typed map values) and on an empty one.
func c10Bolt(c *core.Ctx, part int) {
	r := c.Rand()
	env, err := newQEnv(c, r, 12, false)
	if err != nil {
		c.Violation("C10 setup", err.Error(), nil)
		return
	}
	defer env.close()
	emptyEnv, err := newQEnv(c, core.NewRand(1), 0, false)
	if err != nil {
		c.Violation("C10 setup", err.Error(), nil)
		return
	}
	defer emptyEnv.close()
	// a database nothing was ever written to: neither the entities bucket nor the index buckets of the store exist
	virginEnv := &qEnv{c: c, sc: schema.Build(qx.Defs()), path: c.TempFile("q"), w: emptyEnv.w}
	if virginEnv.db, err = boltz.Open(virginEnv.path, "stores"); err != nil {
		c.Violation("C10 setup", err.Error(), nil)
		return
	}
	defer virginEnv.close()
	// a populated store in which some stored values are shorter than their type tag promises (written through the raw
	// bucket API or by another program): every typed reader takes such a value for null
	oddEnv, err := newQEnv(c, core.NewRand(uint64(part)+7), 8, false)
	if err != nil {
		c.Violation("C10 setup", err.Error(), nil)
		return
	}
	defer oddEnv.close()
	_ = oddEnv.db.Update(nil, func(ctx boltz.MutateContext) error {
		for i, id := range oddEnv.w.Ids(qx.Things) {
			b := oddEnv.sc.St(qx.Things).Store.GetEntityBucket(ctx.Tx(), []byte(id))
			if b == nil || i%2 == 1 {
				continue
			}
			for _, kv := range []struct {
				k string
				v []byte
			}{{"s", []byte{byte(boltz.TypeInt64), 1, 2}}, {"ism", []byte{byte(boltz.TypeBool)}}, {"flt", []byte{byte(boltz.TypeFloat64), 1}}, {"b", []byte{byte(boltz.TypeBool)}}, {"t", []byte{byte(boltz.TypeTime), 1, 2}}, {"ibig", []byte{byte(boltz.TypeInt32), 9}}} {
				if (i/2+len(kv.k))%3 != 0 {
					if err := b.Put([]byte(kv.k), kv.v); err == nil {
						c.Count("stored_values_shorter_than_their_type", 1)
					}
				}
			}
		}
		return nil
	})
	// one more top-level symbol whose type is only known per row (any-type) on both stores
	for _, e := range []*qEnv{env, emptyEnv, virginEnv, oddEnv} {
		e.sc.St(qx.Things).Store.AddSymbolWithKey("anything", ast.NodeTypeAnyType, "ism")
	}
	sentences := c10SentencesFor(append(append([]string{}, c10BoltLhs...), "anything", "anyOf(anything)"))
	sentences = append(sentences, c10Nested("friends", c10SentencesFor(c10BoltOthersLhs), 1)...)
	sentences = append(sentences, c10Nested2("friends", "things", c10SentencesFor(c10BoltLhs[:22]), 5)...)
	try := func(e *qEnv, q string, counter string) {
		defer func() {
			if rec := recover(); rec != nil {
				st := string(debug.Stack())
				c.Violationf("C10 panic in "+c10PanicSite(st)+" (Store.QueryIds)", map[string]any{"query": q, "world": describeWorld(e.w)}, "query %q panicked: %v\n%s", q, rec, firstLines(st, 14))
			}
		}()
		_ = e.db.View(func(tx *bbolt.Tx) error {
			for _, store := range []string{qx.Things} {
				ids, n, err := e.sc.St(store).Store.QueryIds(tx, q)
				c.Eval()
				if err == nil {
					c.Count(counter, 1)
					if int64(len(ids)) > n && !strings.Contains(q, "skip") && !strings.Contains(q, "limit") {
						c.Violationf("C10 more ids than the reported count", q, "query %q: %d ids, count %d", q, len(ids), n)
					}
				}
			}
			return nil
		})
	}
	for i := part; i < len(sentences); i += c10BoltCases {
		for si, suf := range []string{"", " sort by s desc, ism", " sort by tags", " sort by owner.name", " skip 1 limit 2", " sort by flt skip -1 limit none",
			" sort by anything", " sort by s, anything desc", " sort by meta.k", " sort by s, meta.a.b desc", " sort by meta", " sort by s.len", " sort by tags.x desc", " sort by s skip 100", " sort by ism desc skip 13 limit 1", " sort by flt skip 1", " skip 100", " sort by id desc skip 50 limit 2", " sort by t limit 0",
			" sort by s, ism, ibig, flt, b, t", " sort by grp desc, s, ism desc, ibig, flt desc, b, t desc, id", " sort by s, s, s, s, s, s desc limit 2"} {
			if si > 0 && (i+si)%3 != 0 {
				continue
			}
			q := sentences[i] + suf
			try(env, q, "bolt_queries_accepted")
			try(emptyEnv, q, "bolt_queries_on_empty_store")
			try(virginEnv, q, "bolt_queries_on_a_database_never_written_to")
			try(oddEnv, q, "bolt_queries_over_values_shorter_than_their_type")
		}
	}
}
