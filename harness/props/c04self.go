package props

import (
	"context"
	"fmt"
	"os"
	"sort"

	"github.com/openziti/storage/boltz"
	"go.etcd.io/bbolt"
	"verif/harness/internal/core"
	"verif/harness/internal/dump"
	"verif/harness/internal/schema"
)

// C04 part (b): an fk index whose source and target are the SAME store (nodes.parent -> nodes.children), a second
// store referencing it through a non-nullable fk index (pins.node -> nodes.pins), self references, reference cycles
// and ids at the key-size limit (legal ids whose tagged back-reference key cannot be written). Judged without a model:
//   - an operation that returned an error changed nothing;
//   - after every commit: every stored reference names an existing entity, the target's back-reference set holds the
//     referrer, and every back-reference entry names an existing entity whose reference points back at that target.
const c04SelfCases = 48

type c04Raw struct {
	nodeParent map[string]string // node id -> parent ("" = null)
	nodeKids   map[string]map[string]bool
	nodePins   map[string]map[string]bool
	pinNode    map[string]string
}

func readC04(tx *bbolt.Tx, sc *schema.Schema) *c04Raw {
	out := &c04Raw{nodeParent: map[string]string{}, nodeKids: map[string]map[string]bool{}, nodePins: map[string]map[string]bool{}, pinNode: map[string]string{}}
	str := func(b *bbolt.Bucket, field string) string {
		if b == nil {
			return ""
		}
		if v := boltz.FieldToString(boltz.GetTypeAndValue(b.Get([]byte(field)))); v != nil {
			return *v
		}
		return ""
	}
	set := func(b *bbolt.Bucket, field string) map[string]bool {
		m := map[string]bool{}
		if b == nil || b.Bucket([]byte(field)) == nil {
			return m
		}
		_ = b.Bucket([]byte(field)).ForEach(func(k, _ []byte) error {
			if len(k) > 0 {
				m[string(k[1:])] = true
			}
			return nil
		})
		return m
	}
	for _, id := range sc.St("nodes").RawIds(tx) {
		b := bpath(tx, "stores", "nodes", id)
		out.nodeParent[id] = str(b, "parent")
		out.nodeKids[id] = set(b, "children")
		out.nodePins[id] = set(b, "pins")
	}
	for _, id := range sc.St("pins").RawIds(tx) {
		out.pinNode[id] = str(bpath(tx, "stores", "pins", id), "node")
	}
	return out
}

func (w *c04Raw) problems() [][2]string {
	var out [][2]string
	add := func(kind, format string, a ...any) { out = append(out, [2]string{kind, fmt.Sprintf(format, a...)}) }
	for n, p := range w.nodeParent {
		if p == "" {
			continue
		}
		kids, exists := w.nodeKids[p]
		switch {
		case !exists:
			add("dangling reference", "nodes[%s].parent = %s which does not exist", shortId(n), shortId(p))
		case !kids[n]:
			self := ""
			if n == p {
				self = " (self reference)"
			}
			add("missing back-reference"+self, "nodes[%s].parent = %s but %s.children does not list it", shortId(n), shortId(p), shortId(p))
		}
	}
	for p, kids := range w.nodeKids {
		for k := range kids {
			if par, exists := w.nodeParent[k]; !exists {
				add("back-reference to a missing entity", "nodes[%s].children lists %s which does not exist", shortId(p), shortId(k))
			} else if par != p {
				add("stale back-reference", "nodes[%s].children lists %s whose parent is %q", shortId(p), shortId(k), shortId(par))
			}
		}
	}
	for pin, n := range w.pinNode {
		pins, exists := w.nodePins[n]
		switch {
		case n == "":
			add("null in a non-nullable reference", "pins[%s].node is null", shortId(pin))
		case !exists:
			add("dangling reference", "pins[%s].node = %s which does not exist", shortId(pin), shortId(n))
		case !pins[pin]:
			add("missing back-reference", "pins[%s].node = %s but %s.pins does not list it", shortId(pin), shortId(n), shortId(n))
		}
	}
	for n, pins := range w.nodePins {
		for pin := range pins {
			if tgt, exists := w.pinNode[pin]; !exists {
				add("back-reference to a missing entity", "nodes[%s].pins lists %s which does not exist", shortId(n), shortId(pin))
			} else if tgt != n {
				add("stale back-reference", "nodes[%s].pins lists %s whose node is %q", shortId(n), shortId(pin), shortId(tgt))
			}
		}
	}
	sort.Slice(out, func(i, j int) bool { return out[i][1] < out[j][1] })
	return out
}

func c04Self(c *core.Ctx, idx int) { selfFkScenario(c, idx, "C04") }

var c04SelfScript = []struct{ op, id, target, pin string }{
	{"create-node", "n1", "n1", "p1"}, {"create-node", "n2", "n1", "p1"}, {"create-node", "n3", "n2", "p1"}, {"create-pin", "n3", "n3", "p1"},
	{"delete-node", "n2", "", "p1"}, {"delete-pin", "n3", "", "p1"}, {"delete-node", "n1", "", "p1"},
}

// selfFkScenario runs the self-referencing-store history for property prop: C04 judges references and back-references,
// C06 additionally scans the whole file for the id after every committed delete.
func selfFkScenario(c *core.Ctx, idx int, prop string) {
	r := c.Rand()
	nullable := idx%2 == 0
	kind := schema.FkIndex
	if nullable {
		kind = schema.FkIndexNullable
	}
	// every third case: deletes cascade along both fks (along reference cycles and self references too)
	cascade := idx%3 == 2
	pinKind := schema.FkIndex
	if cascade {
		kind, pinKind, nullable = schema.FkIndexCascade, schema.FkIndexCascade, false
		if idx%6 == 2 {
			// cascades along the self reference only: a pin restricts the delete of its node, so a cascade can be refused
			// half-way (the delete of a descendant which a pin holds on to)
			pinKind = schema.FkIndex
		}
	}
	// in the cascade cases all operations of a case share one MutateContext (a caller which keeps its context for
	// follow-up work): whatever an earlier, possibly refused, transaction left on it must not change a later one
	var sharedCtx boltz.MutateContext
	if cascade {
		sharedCtx = boltz.NewMutateContext(context.Background())
		c.Cover("self_fk_shape", "one MutateContext for all transactions of the case")
	}
	nodes := &schema.StoreDef{Type: "nodes", BasePath: []string{"stores"},
		Fields: []schema.Field{{Name: "label", Kind: schema.KStr}, {Name: "parent", Kind: schema.KStr, FK: "nodes"},
			{Name: "children", Kind: schema.KList, FK: "nodes", Derived: true}, {Name: "pins", Kind: schema.KList, FK: "pins", Derived: true}},
		FKs: []schema.FKDef{{Field: "parent", Target: "nodes", Kind: kind, BackRef: "children"}}}
	pinField := schema.Field{Name: "node", Kind: schema.KStr, FK: "nodes"}
	if cascade && idx%6 == 5 {
		// the fk field registered as a plain symbol (AddSymbol), which knows nothing about the store it points into;
		// the fk index is told both sides anyway
		pinField.FK = ""
		c.Cover("self_fk_shape", "cascade over an fk field registered as a plain symbol")
	}
	pins := &schema.StoreDef{Type: "pins", BasePath: []string{"stores"},
		Fields: []schema.Field{pinField},
		FKs:    []schema.FKDef{{Field: "node", Target: "nodes", Kind: pinKind, BackRef: "pins"}}}
	sc := schema.Build([]*schema.StoreDef{nodes, pins})
	path := c.TempFile("c04s")
	db, err := sc.OpenDb(path)
	if err != nil {
		c.Violation("C04 setup", err.Error(), nil)
		return
	}
	defer func() { _ = db.Close(); _ = os.Remove(path) }()
	big := c05EdgeLens[(idx/2)%len(c05EdgeLens)]
	nodeIds := []string{"n1", "n2", "n3", `n"q`, edgeId("N", big)}
	pinIds := []string{"p1", "p2", edgeId("P", c05EdgeLens[(idx/6)%3])}
	nst, pst := sc.St("nodes"), sc.St("pins")
	for step := 0; step < 50; step++ {
		var before *dump.Dump
		var raw0 *c04Raw
		_ = db.View(func(tx *bbolt.Tx) error { before = dump.Tx(tx); raw0 = readC04(tx, sc); return nil })
		op := core.Pick(r, []string{"create-node", "create-node", "update-node", "update-node", "delete-node", "delete-node", "create-pin", "update-pin", "delete-pin"})
		id := core.Pick(r, nodeIds)
		var target any = core.Pick(r, append(append([]string{}, nodeIds...), "missing-node"))
		if r.P(0.3) {
			target = id // self reference
		}
		if r.P(0.2) {
			target = nil
		}
		if !nullable && target == nil && op == "create-node" && len(raw0.nodeParent) == 0 {
			target = id // the first node of a non-nullable store can only reference itself
		}
		pin := core.Pick(r, pinIds)
		if cascade && pinKind == schema.FkIndex && step < len(c04SelfScript) {
			// a chain n1 <- n2 <- n3 with a pin holding on to n3: the delete of n2 is refused in the middle of its
			// cascade, then the root of the chain is deleted
			sc := c04SelfScript[step]
			op, id, pin = sc.op, sc.id, sc.pin
			target = nil
			if sc.target != "" {
				target = sc.target
			}
		}
		opErr := db.Update(sharedCtx, func(ctx boltz.MutateContext) error {
			switch op {
			case "create-node":
				return nst.Store.Create(ctx, &schema.Ent{Id: id, Typ: "nodes", V: map[string]any{"label": "l", "parent": target}})
			case "update-node":
				return nst.Store.Update(ctx, &schema.Ent{Id: id, Typ: "nodes", V: map[string]any{"label": "m", "parent": target}}, nil)
			case "delete-node":
				return nst.Store.DeleteById(ctx, id)
			case "create-pin":
				return pst.Store.Create(ctx, &schema.Ent{Id: pin, Typ: "pins", V: map[string]any{"node": target}})
			case "update-pin":
				return pst.Store.Update(ctx, &schema.Ent{Id: pin, Typ: "pins", V: map[string]any{"node": target}}, nil)
			case "delete-pin":
				return pst.Store.DeleteById(ctx, pin)
			}
			return nil
		})
		c.Eval()
		tdesc := "null"
		if ts, ok := target.(string); ok {
			tdesc = shortId(ts)
		}
		info := map[string]any{"step": step, "op": op, "node": shortId(id), "pin": shortId(pin), "target": tdesc, "nullable_parent": nullable, "error": fmt.Sprint(opErr)}
		var after *dump.Dump
		var raw *c04Raw
		_ = db.View(func(tx *bbolt.Tx) error { after = dump.Tx(tx); raw = readC04(tx, sc); return nil })
		outcome := "ok"
		if opErr != nil {
			outcome = "error"
			if after.Hash() != before.Hash() {
				c.Violationf(prop+" self-referencing store: an operation that returned an error changed the database ("+op+")", info, "diff: %v", dump.Diff(before, after, nil, 4))
			}
		}
		shape := "other"
		if ts, ok := target.(string); ok && (op == "create-node" || op == "update-node") && ts == id {
			shape = "self"
		}
		if len(id) > 1000 || len(pin) > 1000 {
			shape += "+edge-size id"
		}
		c.Cover("self_fk", op+":"+outcome)
		if outcome == "ok" && shape != "other" {
			c.Cover("self_fk_shape", shape)
		}
		c.Nontrivial("c04self", op, outcome, shape, nullable)
		for _, p := range raw.problems() {
			c.Violationf(prop+" self-referencing store: "+p[0]+" after "+op+" ("+outcome+", "+shape+")", info, "%s", p[1])
			break
		}
		if _, existed := raw0.nodeParent[id]; op == "delete-node" && outcome == "ok" && existed {
			// exactly the entities that reference the deleted one (transitively) went with it under cascade; nothing
			// else went under restrict, and then nothing referenced it
			goneNodes, gonePins := map[string]bool{id: true}, map[string]bool{}
			if cascade {
				for grew := true; grew; {
					grew = false
					for n, parent := range raw0.nodeParent {
						if !goneNodes[n] && parent != "" && goneNodes[parent] {
							goneNodes[n], grew = true, true
						}
					}
				}
				for p, n := range raw0.pinNode {
					if goneNodes[n] {
						gonePins[p] = true
					}
				}
			}
			// the deleted node references a member of its own closure: a reference cycle or a self reference
			cycle := raw0.nodeParent[id] != "" && goneNodes[raw0.nodeParent[id]]
			if cascade {
				c.Count("self_fk_cascade_deletes", 1)
				if cycle {
					c.Count("self_fk_cascade_deletes_over_a_cycle", 1)
				}
			}
			var wrong []string
			for n := range raw0.nodeParent {
				if _, still := raw.nodeParent[n]; still == goneNodes[n] {
					wrong = append(wrong, fmt.Sprintf("node %s: present=%v, in the cascade closure=%v", shortId(n), still, goneNodes[n]))
				}
			}
			for p := range raw0.pinNode {
				if _, still := raw.pinNode[p]; still == gonePins[p] {
					wrong = append(wrong, fmt.Sprintf("pin %s: present=%v, in the cascade closure=%v", shortId(p), still, gonePins[p]))
				}
			}
			sort.Strings(wrong)
			if len(wrong) > 0 {
				c.Violationf(prop+" self-referencing store: a delete removed other entities than "+map[bool]string{true: "its cascade closure", false: "the one named"}[cascade]+" ("+shape+")", info, "%v", wrong)
			}
			if !cascade {
				for n, parent := range raw0.nodeParent {
					if parent == id && n != id {
						c.Violationf(prop+" self-referencing store: a referenced entity was deleted under restrict", info, "node %s referenced it", shortId(n))
						break
					}
				}
			}
		}
		if prop == "C06" && outcome == "ok" && (op == "delete-node" || op == "delete-pin") {
			gone := id
			if op == "delete-pin" {
				gone = pin
			}
			existed := raw0.nodeParent[gone] != "" || raw0.nodeKids[gone] != nil
			if op == "delete-pin" {
				_, existed = raw0.pinNode[gone]
			}
			// ids are shared between nothing here: any occurrence of the id after its delete is a trace
			if _, stillNode := raw.nodeParent[gone]; existed && !stillNode {
				c.Count("self_fk_deletes_scanned", 1)
				if hits := after.FindId(gone); len(hits) > 0 && len(gone) < 1000 {
					c.Violationf("C06 self-referencing store: trace of deleted id after "+op+" ("+shape+"): "+traceClass(hits[0]), info, "id %q still occurs: %v", shortId(gone), hits)
				}
			}
		}
		c.Count("self_fk_states_checked", 1)
	}
}
