package props

import (
	"context"
	"errors"
	"fmt"
	"sort"
	"strings"
	"sync"

	"github.com/openziti/storage/boltz"
	"go.etcd.io/bbolt"
	"verif/harness/internal/core"
	"verif/harness/internal/kmodel"
	"verif/harness/internal/schema"
)

// delivery is one recorded listener invocation.
type delivery struct {
	Style   string // listener registration style
	Store   string
	Type    string // created / updated / deleted
	Id      string
	Digest  string // entity state digest ("" for id-only listeners)
	Serial  int    // transaction serial current when it was delivered
	InBody  bool   // delivered while the transaction body was still running (before commit)
	Visible string // state of the entity as seen by a fresh read transaction inside a sync listener ("" = not probed)
}

type c08Rec struct {
	mu        sync.Mutex
	dels      []delivery
	serial    int
	inBody    bool
	commitAct map[int]int
	txDone    map[int]int
	e         *kmodel.Engine
}

func (r *c08Rec) add(d delivery) {
	r.mu.Lock()
	d.Serial = r.serial
	d.InBody = r.inBody
	r.dels = append(r.dels, d)
	r.mu.Unlock()
}

var c08Types = map[boltz.EntityEventType]string{boltz.EntityCreated: "created", boltz.EntityUpdated: "updated", boltz.EntityDeleted: "deleted",
	boltz.EntityCreatedAsync: "created", boltz.EntityUpdatedAsync: "updated", boltz.EntityDeletedAsync: "deleted"}

func entDigest(st *schema.St, en *schema.Ent) string {
	if en == nil {
		return "<nil>"
	}
	var parts []string
	for _, f := range st.AllFields() {
		if f.Derived {
			continue
		}
		if f.OnChild && !en.HasChild {
			continue
		}
		parts = append(parts, f.Name+"="+valDigest(en.V[f.Name]))
	}
	return strings.Join(parts, ",")
}

func valDigest(v any) string {
	switch t := v.(type) {
	case []string:
		return fmt.Sprintf("%q", kmodel.NormSet(t))
	case nil:
		return "null"
	}
	return fmt.Sprintf("%#v", v)
}

func modelDigest(e *kmodel.Engine, store string, me *kmodel.MEnt) string {
	st := e.Sc.St(store)
	var parts []string
	for _, f := range st.AllFields() {
		if f.Derived {
			continue
		}
		if f.OnChild {
			cv, has := me.Child[store]
			if !has {
				continue
			}
			parts = append(parts, f.Name+"="+valDigest(cv[f.Name]))
			continue
		}
		parts = append(parts, f.Name+"="+valDigest(me.V[f.Name]))
	}
	return strings.Join(parts, ",")
}

type typedListener struct {
	rec   *c08Rec
	store string
	typ   string
	st    *schema.St
	style string
}

func (l *typedListener) HandleEntityEvent(en *schema.Ent) {
	if l.style != "" {
		l.rec.add(delivery{Style: l.style, Store: l.store, Type: l.typ, Id: idOf(en)})
		return
	}
	l.rec.add(delivery{Style: "AddEntityEventListener", Store: l.store, Type: l.typ, Id: idOf(en), Digest: entDigest(l.st, en)})
}

func idOf(en *schema.Ent) string {
	if en == nil {
		return "<nil entity>"
	}
	return en.Id
}

type typedConstraint struct {
	rec   *c08Rec
	store string
	st    *schema.St
}

func (c *typedConstraint) ProcessPreCommit(*boltz.EntityChangeState[*schema.Ent]) error { return nil }
func (c *typedConstraint) ProcessPostCommit(s *boltz.EntityChangeState[*schema.Ent]) {
	en := s.FinalState
	if s.ChangeType == boltz.EntityDeleted {
		en = s.InitialState
	}
	c.rec.add(delivery{Style: "AddEntityConstraint", Store: c.store, Type: c08Types[s.ChangeType], Id: s.EntityId, Digest: entDigest(c.st, en)})
}

type untypedConstraint struct {
	rec    *c08Rec
	store  string
	st     *schema.St
	vetoOn func(s boltz.UntypedEntityChangeState) bool
}

func (c *untypedConstraint) ProcessPreCommit(s boltz.UntypedEntityChangeState) error {
	if c.vetoOn != nil && c.vetoOn(s) {
		return errVeto
	}
	return nil
}
func (c *untypedConstraint) ProcessPostCommit(s boltz.UntypedEntityChangeState) {
	en := s.GetFinalState()
	if s.GetChangeType() == boltz.EntityDeleted {
		en = s.GetInitialState()
	}
	e, _ := en.(*schema.Ent)
	c.rec.add(delivery{Style: "AddUntypedEntityConstraint", Store: c.store, Type: c08Types[s.GetChangeType()], Id: s.GetEntityId(), Digest: entDigest(c.st, e)})
}

// expected event: one per (store, type, id) per listener style
type expEvent struct {
	Store, Type, Id, Digest string
	Optional                bool // extended child store event for an entity without child data: not judged
	AnyType                 bool // exactly one event on this store for the id; created or updated both describe it
}

var c08Styles = []string{"AddListener", "AddListener(async)", "AddEntityEventListener", "AddEntityEventListenerF(async)", "AddEntityIdListener", "AddEntityConstraint", "AddUntypedEntityConstraint"}

func init() {
	core.Register(&core.Property{
		ID:    "C08",
		Race:  true,
		Level: "exploration",
		Rule: "random histories over schema K with plain and extended child stores; every store carries one listener of every registration style (AddListener sync and async, AddEntityEventListener, AddEntityEventListenerF async, AddEntityIdListener, " +
			"AddEntityConstraint, AddUntypedEntityConstraint) for create/update/delete; every delivery is appended to an event log with the transaction serial, whether the transaction body was still running, and (sync listeners) the entity as seen by a fresh read transaction. " +
			"Every fourth transaction goes on with the MutateContext of the previous one (committed or rolled back); the commit-action counts of earlier transactions are final once checked: a later commit must not move them. After each transaction (Db.Update, and Db.Batch incl. concurrent batches where one member fails and bbolt re-runs the others) an offline checker compares the multiset of (style, store, type, id, state digest) with the model's expectation " +
			"(final state for create/update, last state for delete, one extra event on the parent store for child entities, none for rolled-back / vetoed / rejected work) and commit-action / tx-complete counts with 1 per committed transaction. " +
			"Built with the race detector. non-trivial = distinct (op kind, store route, child kind, outcome, ops in transaction, Update/Batch) tuples",
		Assumptions: []string{"on the extended child store only entities with child data are judged (every parent entity is visible through it by declaration)", "quiescence of asynchronous deliveries is awaited by goroutine-count baseline"},
		MaxWorkers:  8,
		Plan: func(tier core.Tier, seed int64) int {
			if tier == core.Thorough {
				return 10000 + c08OverlapCases*8 + c08SibCases*8
			}
			return 96 + c08OverlapCases + c08SibCases
		},
		Run: func(c *core.Ctx, idx int) {
			if n := map[bool]int{false: 96 + c08OverlapCases, true: 10000 + c08OverlapCases*8}[c.Tier == core.Thorough]; idx >= n {
				// delete events of an entity with data in two sibling child stores
				siblingScenario(c, idx-n, "C08")
				return
			}
			if n := map[bool]int{false: 96, true: 10000}[c.Tier == core.Thorough]; idx >= n {
				// commit actions once per committed transaction, also when the context's next transaction starts while they run
				overlapCase(c, idx-n, "C08")
				return
			}
			runC08(c, idx)
		},
		Promises: func(core.Tier) map[string][]string {
			return map[string][]string{"nesting": {"nested-update", "nested-batch", "commit-action-registered-before-the-transaction", "listener-registered-inside-the-transaction", "context-of-the-previous-transaction-used-again (committed)", "context-of-the-previous-transaction-used-again (rolled back)"}, "tx_kind": {"update-committed", "update-rolled-back", "update-vetoed", "batch-committed", "batch-concurrent-with-failure"},
				"event": {"parent-event-for-child:created-over-existing", "emps:created", "emps:updated", "emps:deleted", "depts:created", "depts:deleted", "emps/ext:created", "emps/ext:updated", "emps/ext:deleted", "emps/xt:created", "emps/xt:updated", "emps/xt:deleted",
					"parent-event-for-child:created", "parent-event-for-child:updated", "parent-event-for-child:deleted"}}
		},
		MinCounters: func(core.Tier) map[string]int64 { return map[string]int64{"deliveries_checked": 5000} },
	})
}

const c08OverlapCases = 12
const c08SibCases = 12

func runC08(c *core.Ctx, idx int) {
	r := c.Rand()
	cfg := c15Configs[idx%len(c15Configs)]
	e, err := kmodel.NewEngine(c, cfg)
	if e != nil {
		e.M.Upgrade, e.M.UpgradePlainOnly = true, true // creates through a child store over plain parent entities are generated
	}
	if err != nil {
		c.Violation("C08 setup", err.Error(), nil)
		return
	}
	defer e.Close()
	rec := &c08Rec{commitAct: map[int]int{}, txDone: map[int]int{}, e: e}
	vetoArmed := false
	vetoCount := 0
	probe := func(st *schema.St, id string) string {
		// what a fresh read transaction sees right now (sync listeners run after the commit, so it must be the new state)
		out := "<probe failed>"
		_ = e.Db.View(func(tx *bbolt.Tx) error {
			en, found, err := st.Store.FindById(tx, id)
			if err != nil {
				out = "<err " + err.Error() + ">"
			} else if !found {
				out = "<absent>"
			} else {
				out = entDigest(st, en)
			}
			return nil
		})
		return out
	}
	for _, k := range e.Sc.Order {
		k := k
		st := e.Sc.St(k)
		for et, name := range map[boltz.EntityEventType]string{boltz.EntityCreated: "created", boltz.EntityUpdated: "updated", boltz.EntityDeleted: "deleted"} {
			name := name
			st.Store.AddListener(func(en boltz.Entity) {
				x, _ := en.(*schema.Ent)
				d := delivery{Style: "AddListener", Store: k, Type: name, Id: idOf(x), Digest: entDigest(st, x)}
				if x != nil {
					d.Visible = probe(st, x.Id)
				}
				rec.add(d)
			}, et)
			st.Store.AddEntityEventListener(&typedListener{rec: rec, store: k, typ: name, st: st}, et)
		}
		for et, name := range map[boltz.EntityEventType]string{boltz.EntityCreatedAsync: "created", boltz.EntityUpdatedAsync: "updated", boltz.EntityDeletedAsync: "deleted"} {
			name := name
			st.Store.AddListener(func(en boltz.Entity) {
				x, _ := en.(*schema.Ent)
				rec.add(delivery{Style: "AddListener(async)", Store: k, Type: name, Id: idOf(x), Digest: entDigest(st, x)})
			}, et)
			st.Store.AddEntityEventListenerF(func(en *schema.Ent) {
				rec.add(delivery{Style: "AddEntityEventListenerF(async)", Store: k, Type: name, Id: idOf(en), Digest: entDigest(st, en)})
			}, et)
			st.Store.AddEntityIdListener(func(id string) {
				rec.add(delivery{Style: "AddEntityIdListener", Store: k, Type: name, Id: id})
			}, et)
		}
		// one registration per style carrying all three change types at once (sync and async mixed)
		st.Store.AddListener(func(en boltz.Entity) {
			x, _ := en.(*schema.Ent)
			rec.add(delivery{Style: "multi:AddListener", Store: k, Type: "*", Id: idOf(x)})
		}, boltz.EntityCreated, boltz.EntityUpdatedAsync, boltz.EntityDeleted)
		st.Store.AddEntityEventListener(&typedListener{rec: rec, store: k, typ: "*", st: st, style: "multi:AddEntityEventListener"}, boltz.EntityCreatedAsync, boltz.EntityUpdated, boltz.EntityDeleted)
		st.Store.AddEntityEventListenerF(func(en *schema.Ent) {
			rec.add(delivery{Style: "multi:AddEntityEventListenerF", Store: k, Type: "*", Id: idOf(en)})
		}, boltz.EntityCreated, boltz.EntityUpdated, boltz.EntityDeletedAsync)
		st.Store.AddEntityIdListener(func(id string) {
			rec.add(delivery{Style: "multi:AddEntityIdListener", Store: k, Type: "*", Id: id})
		}, boltz.EntityCreated, boltz.EntityUpdated, boltz.EntityDeleted)
		// two registrations which hand over the same slice of further change types (a slice with room to spare): each
		// listener keeps the types it was registered for
		shared := make([]boltz.EntityEventType, 0, 4)
		shared = append(shared, boltz.EntityDeleted)
		st.Store.AddListener(func(en boltz.Entity) {
			x, _ := en.(*schema.Ent)
			rec.add(delivery{Style: "shared:AddListener(created+deleted)", Store: k, Type: "*", Id: idOf(x)})
		}, boltz.EntityCreated, shared...)
		st.Store.AddEntityIdListener(func(id string) {
			rec.add(delivery{Style: "shared:AddEntityIdListener(updated+deleted)", Store: k, Type: "*", Id: id})
		}, boltz.EntityUpdated, shared...)
		st.Store.AddEntityConstraint(&typedConstraint{rec: rec, store: k, st: st})
		st.Store.AddUntypedEntityConstraint(&untypedConstraint{rec: rec, store: k, st: st, vetoOn: func(boltz.UntypedEntityChangeState) bool {
			if vetoArmed {
				vetoCount++
				return vetoCount == 1 // veto the first pre-commit call of the transaction
			}
			return false
		}})
	}
	e.Db.AddTxCompleteListener(func(boltz.MutateContext) {
		rec.mu.Lock()
		rec.txDone[rec.serial]++
		rec.mu.Unlock()
	})
	baseline := settledGoroutines()
	e.W = map[string]int{"create": 10, "update": 7, "patch": 6, "delete": 6, "addlinks": 1}

	// expectations for a list of ops executed in order on model m (mutates m)
	expect := func(m *kmodel.Model, ops []kmodel.Op) []expEvent {
		var out []expEvent
		for i := range ops {
			op := ops[i]
			root := kmodel.RootOf(op.Store)
			var pre *kmodel.MEnt
			if en, ok := m.Ents[root][op.Id]; ok {
				pre = cloneMEnt(en)
			}
			preModel := m.Clone()
			cp := op
			p, _ := kmodel.Predict(m, &cp)
			if p.Exp != kmodel.ExpOK || p.Skip {
				continue
			}
			childKind := ""
			if pre != nil {
				for k := range pre.Child {
					childKind = k
				}
			}
			switch op.Kind {
			case "create":
				post := m.Ents[root][op.Id]
				out = append(out, expEvent{Store: op.Store, Type: "created", Id: op.Id, Digest: modelDigest(e, op.Store, post)})
				if op.Store != root && pre != nil {
					// over an entity that already existed in the parent store: the child part is created, the parent store
					// gets exactly one event for the change (whether it calls it a create or an update is not judged)
					out = append(out, expEvent{Store: root, Type: "created", Id: op.Id, AnyType: true})
					c.Cover("event", "parent-event-for-child:created-over-existing")
				} else if op.Store != root {
					out = append(out, expEvent{Store: root, Type: "created", Id: op.Id, Digest: modelDigest(e, root, post)})
					c.Cover("event", "parent-event-for-child:created")
				}
			case "update", "patch":
				post := m.Ents[root][op.Id]
				via := op.Store
				if op.Store == root && childKind != "" {
					via = childKind // routed to the child store
				}
				out = append(out, expEvent{Store: via, Type: "updated", Id: op.Id, Digest: modelDigest(e, via, post)})
				if via != root {
					out = append(out, expEvent{Store: root, Type: "updated", Id: op.Id, Digest: modelDigest(e, root, post)})
					c.Cover("event", "parent-event-for-child:updated")
				}
			case "delete":
				for _, k := range m.LastDeleted {
					var t, id string
					for j := 0; j < len(k); j++ {
						if k[j] == 0 {
							t, id = k[:j], k[j+1:]
						}
					}
					old := preModel.Ents[t][id]
					out = append(out, expEvent{Store: t, Type: "deleted", Id: id, Digest: modelDigest(e, t, old)})
					if t == kmodel.Emps && cfg.Children {
						_, hasM := old.Child[kmodel.Mgrs]
						_, hasC := old.Child[kmodel.Ctrs]
						if hasM {
							out = append(out, expEvent{Store: kmodel.Mgrs, Type: "deleted", Id: id, Digest: modelDigest(e, kmodel.Mgrs, old)})
							c.Cover("event", "parent-event-for-child:deleted")
						}
						out = append(out, expEvent{Store: kmodel.Ctrs, Type: "deleted", Id: id, Digest: modelDigest(e, kmodel.Ctrs, old), Optional: !hasC})
						if hasC {
							c.Cover("event", "parent-event-for-child:deleted")
						}
					}
				}
			}
		}
		return out
	}

	serial := 0
	var hist []string
	// listeners registered while a transaction was in flight (after its operations, before its commit): they are
	// registered listeners when the change commits, so they get that transaction's events and all later ones
	type lateReg struct {
		style, store string
		serial       int
	}
	var late []lateReg
	settledCommitAct := map[int]int{}
	checkTx := func(label string, serials []int, exp []expEvent, commits map[int]int, txDoneExp map[int]int, info any) {
		quiesce(baseline)
		rec.mu.Lock()
		var got []delivery
		for _, d := range rec.dels {
			for _, s := range serials {
				if d.Serial == s {
					got = append(got, d)
				}
			}
		}
		ca := map[int]int{}
		td := map[int]int{}
		for _, s := range serials {
			ca[s] = rec.commitAct[s]
			td[s] = rec.txDone[s]
		}
		// commit actions of earlier transactions: their counts were final when those transactions were checked
		var stale []string
		inThis := map[int]bool{}
		for _, s := range serials {
			inThis[s] = true
		}
		for s, n := range rec.commitAct {
			if !inThis[s] && n != settledCommitAct[s] {
				stale = append(stale, fmt.Sprintf("transaction #%d: %d runs when it was checked, %d now", s, settledCommitAct[s], n))
			}
		}
		for s, n := range rec.commitAct {
			settledCommitAct[s] = n
		}
		rec.mu.Unlock()
		sort.Strings(stale)
		if len(stale) > 0 {
			c.Violationf("C08 a commit action of an earlier transaction ran with a later one ("+label+")", info, "%v", stale)
		}
		// expected multiset
		want := map[string]int{}
		optional := map[string]bool{}
		optionalIds := map[string]int{} // number of not-judged events per (store, id): multi-type listeners may or may not see them
		anyType := map[string]bool{}
		for _, ev := range exp {
			if ev.AnyType {
				anyType[ev.Store+"|"+ev.Id] = true
			}
		}
		optionalEv := map[string]bool{} // (store, type, id) with a not-judged event in this transaction
		for _, ev := range exp {
			if ev.Optional {
				optionalEv[ev.Store+"|"+ev.Type+"|"+ev.Id] = true
			}
		}
		for _, ev := range exp {
			if ev.Optional {
				optionalIds[ev.Store+"|"+ev.Id]++
			} else if optionalEv[ev.Store+"|"+ev.Type+"|"+ev.Id] {
				// the same (store, type, id) also has a not-judged event in this transaction (delete, re-create and delete
				// again through an extended store): deliveries cannot be told apart, none of them is judged
				ev.Optional = true
				optionalIds[ev.Store+"|"+ev.Id]++
			}
			for _, style := range c08Styles {
				dg := ev.Digest
				if ev.AnyType || (anyType[ev.Store+"|"+ev.Id] && (ev.Type == "created" || ev.Type == "updated") && !ev.Optional) {
					// every create / update event of such an id on this store is counted without looking at its type or payload
					want[strings.Join([]string{style, ev.Store, "created-or-updated", ev.Id, ""}, "|")]++
					continue
				}
				if style == "AddEntityIdListener" {
					dg = ""
				}
				key := strings.Join([]string{style, ev.Store, ev.Type, ev.Id, dg}, "|")
				if ev.Optional {
					optional[strings.Join([]string{style, ev.Store, ev.Type, ev.Id}, "|")] = true
					continue
				}
				want[key]++
			}
			if !ev.Optional {
				for _, style := range []string{"multi:AddListener", "multi:AddEntityEventListener", "multi:AddEntityEventListenerF", "multi:AddEntityIdListener"} {
					want[strings.Join([]string{style, ev.Store, "*", ev.Id, ""}, "|")]++
				}
				if !anyType[ev.Store+"|"+ev.Id] {
					if ev.Type == "created" || ev.Type == "deleted" {
						want[strings.Join([]string{"shared:AddListener(created+deleted)", ev.Store, "*", ev.Id, ""}, "|")]++
					}
					if ev.Type == "updated" || ev.Type == "deleted" {
						want[strings.Join([]string{"shared:AddEntityIdListener(updated+deleted)", ev.Store, "*", ev.Id, ""}, "|")]++
					}
				}
				for _, l := range late {
					if l.store == ev.Store && serials[0] >= l.serial {
						want[strings.Join([]string{l.style, ev.Store, "*", ev.Id, ""}, "|")]++
					}
				}
			}
			c.Cover("event", ev.Store+":"+ev.Type)
		}
		have := map[string]int{}
		for _, d := range got {
			c.Count("deliveries_checked", 1)
			if optional[strings.Join([]string{d.Style, d.Store, d.Type, d.Id}, "|")] {
				continue
			}

			if strings.HasPrefix(d.Style, "shared:") && anyType[d.Store+"|"+d.Id] {
				continue // whether such an id was created or updated is not judged: neither is which of the two listeners saw it
			}
			if anyType[d.Store+"|"+d.Id] && (d.Type == "created" || d.Type == "updated") && !strings.HasPrefix(d.Style, "multi:") && !strings.HasPrefix(d.Style, "late:") {
				have[strings.Join([]string{d.Style, d.Store, "created-or-updated", d.Id, ""}, "|")]++
				continue
			}
			have[strings.Join([]string{d.Style, d.Store, d.Type, d.Id, d.Digest}, "|")]++
			if d.InBody {
				c.Violationf("C08 event delivered before the commit: "+d.Style+" "+d.Store+" "+d.Type, info, "%+v delivered while the transaction body was running (%s)", d, label)
			}
			if d.Visible != "" {
				wantVisible := d.Digest
				if d.Type == "deleted" {
					wantVisible = "<absent>"
				}
				// a later op of the same transaction may have changed the entity again; only judge when this is the last event for the id
				last := true
				for _, o := range got {
					// same entity changed more than once in this transaction (through any store): the probe sees the last state
					if o.Id == d.Id && (o.Type != d.Type || (o.Store == d.Store && o.Digest != d.Digest && o.Digest != "")) {
						last = false
					}
				}
				if last && d.Visible != wantVisible && !strings.HasPrefix(d.Visible, "<probe") {
					c.Violationf("C08 listener ran before its change was committed: "+d.Store+" "+d.Type, info, "sync listener got %s but a fresh read transaction saw %s (%s)", d.Digest, d.Visible, label)
				}
			}
		}
		c.Eval()
		var keys []string
		for k := range want {
			keys = append(keys, k)
		}
		for k := range have {
			if _, ok := want[k]; !ok {
				keys = append(keys, k)
			}
		}
		sort.Strings(keys)
		for _, k := range keys {
			if want[k] != have[k] {
				p := strings.SplitN(k, "|", 5)
				if (strings.HasPrefix(p[0], "multi:") || strings.HasPrefix(p[0], "late:") || strings.HasPrefix(p[0], "shared:")) && have[k] > want[k] && have[k] <= want[k]+optionalIds[p[1]+"|"+p[3]] {
					continue
				}
				kind := "missing"
				if have[k] > want[k] {
					kind = "extra"
					if want[k] > 0 {
						kind = "duplicate"
					}
				}
				c.Violationf(fmt.Sprintf("C08 %s delivery: %s on %s %s (%s)", kind, p[0], p[1], p[2], label), info,
					"expected %d got %d deliveries of [%s] (%s); history tail: %v", want[k], have[k], k, label, tail(hist, 4))
			}
		}
		for _, s := range serials {
			if ca[s] != commits[s] {
				c.Violationf(fmt.Sprintf("C08 commit action count (%s): got %d expected %d", label, ca[s], commits[s]), info, "serial %d", s)
			}
			if td[s] != txDoneExp[s] {
				c.Violationf(fmt.Sprintf("C08 tx-complete listener count (%s): got %d expected %d", label, td[s], txDoneExp[s]), info, "serial %d", s)
			}
		}
	}

	var lastCtx boltz.MutateContext
	lastOutcome := ""
	runOne := func(ops []kmodel.Op, mode string, failAfter bool, veto bool) {
		serial++
		s := serial
		rec.mu.Lock()
		rec.serial = s
		rec.mu.Unlock()
		tentative := e.M.Clone()
		exp := expect(tentative, ops)
		predictedFail := false
		{
			scratch := e.M.Clone()
			for i := range ops {
				cp := ops[i]
				if p, _ := kmodel.Predict(scratch, &cp); p.Exp != kmodel.ExpOK {
					predictedFail = true
				}
			}
		}
		vetoArmed, vetoCount = veto, 0
		ctx := boltz.NewMutateContext(context.Background())
		// every third transaction: the caller hands over a context that already carries a commit action
		preRegistered := s%3 == 1
		// every fourth: the caller goes on with the context of its previous transaction (a retry after a failure, or
		// follow-up work): whatever that one registered or queued - committed or rolled back - is not this one's
		if s%4 == 3 && lastCtx != nil && !preRegistered {
			ctx = lastCtx
			c.Cover("nesting", "context-of-the-previous-transaction-used-again ("+lastOutcome+")")
		}
		if preRegistered {
			ctx.AddCommitAction(func() {
				rec.mu.Lock()
				rec.commitAct[s]++
				rec.mu.Unlock()
			})
			c.Cover("nesting", "commit-action-registered-before-the-transaction")
		}
		body := func(ctx boltz.MutateContext) error {
			rec.mu.Lock()
			rec.inBody = true
			rec.mu.Unlock()
			defer func() {
				rec.mu.Lock()
				rec.inBody = false
				rec.mu.Unlock()
			}()
			ctx.AddCommitAction(func() {
				rec.mu.Lock()
				rec.commitAct[s]++
				rec.mu.Unlock()
			})
			for i := range ops {
				op := ops[i]
				apply := func(ctx boltz.MutateContext) error { return e.Apply(ctx, &op) }
				var err error
				switch (s + i) % 4 { // some operations run inside a nested Db.Update / Db.Batch on the same context
				case 1:
					err = e.Db.Update(ctx, apply)
					c.Cover("nesting", "nested-update")
				case 2:
					err = e.Db.Batch(ctx, apply)
					c.Cover("nesting", "nested-batch")
				default:
					err = apply(ctx)
				}
				if err != nil {
					return err
				}
			}
			// every fifth transaction registers a new listener after its operations, before it commits
			if s%5 == 2 && len(ops) > 0 {
				k := ops[0].Store
				lst := e.Sc.St(k)
				style := fmt.Sprintf("late:%d:%s", s, []string{"AddEntityIdListener", "AddListener", "AddEntityEventListenerF"}[(s/5)%3])
				switch (s / 5) % 3 {
				case 0:
					lst.Store.AddEntityIdListener(func(id string) { rec.add(delivery{Style: style, Store: k, Type: "*", Id: id}) }, boltz.EntityCreated, boltz.EntityUpdated, boltz.EntityDeleted)
				case 1:
					lst.Store.AddListener(func(en boltz.Entity) {
						x, _ := en.(*schema.Ent)
						rec.add(delivery{Style: style, Store: k, Type: "*", Id: idOf(x)})
					}, boltz.EntityCreated, boltz.EntityUpdated, boltz.EntityDeleted)
				default:
					lst.Store.AddEntityEventListenerF(func(en *schema.Ent) { rec.add(delivery{Style: style, Store: k, Type: "*", Id: idOf(en)}) }, boltz.EntityCreated, boltz.EntityUpdated, boltz.EntityDeleted)
				}
				late = append(late, lateReg{style: style, store: k, serial: s})
				c.Cover("nesting", "listener-registered-inside-the-transaction")
			}
			if failAfter {
				return errCaller
			}
			return nil
		}
		var err error
		// every fifth transaction is started without a context of the caller's (nil): the database makes one up, and
		// the transaction is a transaction like any other - its completion is announced, its events are delivered
		var callCtx boltz.MutateContext = ctx
		if s%5 == 2 && !preRegistered && ctx != lastCtx {
			callCtx = nil
			c.Cover("nesting", "transaction-started-without-a-context")
		}
		if mode == "batch" {
			err = e.Db.Batch(callCtx, body)
		} else {
			err = e.Db.Update(callCtx, body)
		}
		vetoArmed = false
		lastCtx, lastOutcome = ctx, map[bool]string{true: "committed", false: "rolled back"}[err == nil]
		if preRegistered && err != nil {
			// what the caller put on the context before the transaction is still the caller's after it failed, and would
			// run with the context's next commit: such a context is not used again here
			lastCtx = nil
		}
		hist = append(hist, fmt.Sprintf("#%d %s fail=%v veto=%v err=%v %v", s, mode, failAfter, veto, err, ops))
		info := map[string]any{"cfg": cfg.String(), "ops": ops, "mode": mode, "fail_after": failAfter, "veto": veto}
		committed := err == nil
		label := mode
		switch {
		case committed:
			label += "-committed"
		case veto && errors.Is(err, errVeto):
			label += "-vetoed"
		default:
			label += "-rolled-back"
		}
		c.Cover("tx_kind", label)
		if committed && (predictedFail || failAfter) {
			c.Violationf("C08 transaction committed although it was predicted to fail", info, "%v", ops)
			e.Resync()
			return
		}
		if !committed {
			exp = nil
		} else {
			e.M = tentative
		}
		commits := map[int]int{s: 0}
		td := map[int]int{s: 0}
		if committed {
			commits[s] = 1
			if preRegistered {
				commits[s] = 2
			}
			td[s] = 1
		}
		info["commit_action_registered_before_the_transaction"] = preRegistered
		checkTx(label, []int{s}, exp, commits, td, info)
		for _, op := range ops {
			c.Nontrivial(op.Kind, op.Store, label, len(ops))
		}
	}

	for t := 0; t < 8; t++ {
		e.RunTx(e.GenTx(r, 4, false), "C08 warm-up")
	}
	quiesce(baseline)
	rec.mu.Lock()
	rec.dels = nil
	rec.mu.Unlock()
	for t := 0; t < 26; t++ {
		x := r.Float()
		switch {
		case x < 0.5:
			runOne(e.GenTx(r, 4, true), "update", false, false)
		case x < 0.6:
			runOne(e.GenTx(r, 3, false), "update", true, false)
		case x < 0.72:
			ops := e.GenTx(r, 3, false)
			if len(ops) > 0 {
				hasEntityOp := false
				for _, op := range ops {
					if op.Kind == "create" || op.Kind == "update" || op.Kind == "patch" || op.Kind == "delete" {
						hasEntityOp = true
					}
				}
				if hasEntityOp {
					runOne(ops, "update", false, true)
				}
			}
		case x < 0.82:
			runOne(e.GenTx(r, 3, true), "batch", false, false)
		default:
			c08ConcurrentBatch(c, r, e, rec, &serial, baseline, checkTx, expect, &hist, cfg)
		}
	}
	if c.WantSample() {
		c.Sample(map[string]any{"cfg": cfg.String(), "history_tail": tail(hist, 3)})
	}
}

func cloneMEnt(e *kmodel.MEnt) *kmodel.MEnt {
	c := &kmodel.MEnt{Id: e.Id, V: map[string]any{}, Child: map[string]map[string]any{}}
	for k, v := range e.V {
		c.V[k] = schema.CloneVal(v)
	}
	for k, m := range e.Child {
		cm := map[string]any{}
		for f, v := range m {
			cm[f] = schema.CloneVal(v)
		}
		c.Child[k] = cm
	}
	return c
}

func tail(h []string, n int) []string {
	if len(h) > n {
		return h[len(h)-n:]
	}
	return h
}

// c08ConcurrentBatch runs three Db.Batch callers concurrently (so that bbolt coalesces them); one of them fails,
// which makes bbolt roll the shared transaction back and re-run the others. Each caller creates its own dept.
func c08ConcurrentBatch(c *core.Ctx, r *core.Rand, e *kmodel.Engine, rec *c08Rec, serial *int, baseline int,
	checkTx func(string, []int, []expEvent, map[int]int, map[int]int, any), expect func(*kmodel.Model, []kmodel.Op) []expEvent, hist *[]string, cfg kmodel.Config) {
	// pick three free dept ids
	var free []string
	for _, id := range kmodel.DeptIds {
		if _, ok := e.M.Ents[kmodel.Depts][id]; !ok {
			free = append(free, id)
		}
	}
	if len(free) < 3 {
		return
	}
	*serial++
	s := *serial
	rec.mu.Lock()
	rec.serial = s
	rec.mu.Unlock()
	failing := r.Intn(3)
	var wg sync.WaitGroup
	errs := make([]error, 3)
	acts := make([]int, 3)
	var amu sync.Mutex
	ops := make([]kmodel.Op, 3)
	for i := 0; i < 3; i++ {
		ops[i] = kmodel.Op{Kind: "create", Store: kmodel.Depts, Id: free[i], V: map[string]any{"name": nil}}
	}
	start := make(chan struct{})
	for i := 0; i < 3; i++ {
		i := i
		wg.Add(1)
		go func() {
			defer wg.Done()
			<-start
			ctx := boltz.NewMutateContext(context.Background())
			errs[i] = e.Db.Batch(ctx, func(ctx boltz.MutateContext) error {
				ctx.AddCommitAction(func() {
					amu.Lock()
					acts[i]++
					amu.Unlock()
				})
				op := ops[i]
				if err := e.Apply(ctx, &op); err != nil {
					return err
				}
				if i == failing {
					return errCaller
				}
				return nil
			})
		}()
	}
	close(start)
	wg.Wait()
	quiesce(baseline)
	*hist = append(*hist, fmt.Sprintf("#%d concurrent batch of 3 creates, member %d fails, errs=%v", s, failing, errs))
	info := map[string]any{"cfg": cfg.String(), "ops": ops, "failing_member": failing}
	var okOps []kmodel.Op
	amu.Lock()
	defer amu.Unlock()
	for i := 0; i < 3; i++ {
		c.Eval()
		if i == failing {
			if errs[i] == nil {
				c.Violationf("C08 failing batch member reported success", info, "member %d", i)
			}
			if acts[i] != 0 {
				c.Violationf("C08 commit action of a rolled-back batch member ran", info, "member %d: %d executions", i, acts[i])
			}
			continue
		}
		if errs[i] != nil {
			c.Violationf("C08 healthy batch member failed", info, "member %d: %v", i, errs[i])
			continue
		}
		okOps = append(okOps, ops[i])
		if acts[i] != 1 {
			c.Violationf(fmt.Sprintf("C08 commit action of a committed batch member ran %d times (concurrent batch with a failing member)", acts[i]), info, "member %d", i)
		}
	}
	tentative := e.M.Clone()
	exp := expect(tentative, okOps)
	e.M = tentative
	c.Cover("tx_kind", "batch-concurrent-with-failure")
	// commit actions are counted per member above; every committed member's context completes once
	checkTx("batch-concurrent-with-failure", []int{s}, exp, map[int]int{s: 0}, map[int]int{s: len(okOps)}, info)
}
