// Package memsym is an in-memory implementation of ast.Symbols, so that package
// ast (parser, typing, evaluation) can be driven without boltz.
package memsym

import (
	"sort"
	"strconv"
	"time"

	"github.com/openziti/storage/ast"
)

// Table describes symbol types. Values: ast.NodeType for scalars.
type Table struct {
	Types  map[string]ast.NodeType
	Sets   map[string]bool   // symbol is a set
	Linked map[string]*Table // set symbol -> symbol table of the linked entity (sub-queries)
}

func NewTable() *Table {
	return &Table{Types: map[string]ast.NodeType{}, Sets: map[string]bool{}, Linked: map[string]*Table{}}
}

func (t *Table) GetSymbolType(name string) (ast.NodeType, bool) {
	nt, ok := t.Types[name]
	return nt, ok
}

func (t *Table) GetSetSymbolTypes(name string) ast.SymbolTypes {
	if l, ok := t.Linked[name]; ok && l != nil {
		return l
	}
	return nil
}

func (t *Table) IsSet(name string) (bool, bool) {
	if _, ok := t.Types[name]; !ok {
		return false, false
	}
	return t.Sets[name], true
}

// Row holds one entity's values: nil (null), string, int64, float64, bool, time.Time;
// set symbols hold []any of the same.
type Row struct {
	*Table
	Vals       map[string]any
	SetVals    map[string][]any
	LinkedRows map[string][]*Row
	cursors    map[string]*setCursor
}

func NewRow(t *Table) *Row {
	return &Row{Table: t, Vals: map[string]any{}, SetVals: map[string][]any{}, LinkedRows: map[string][]*Row{}, cursors: map[string]*setCursor{}}
}

// ResetCursors forgets every set cursor opened on the row and its linked rows, so that a row can be reused for the
// next query in the state a fresh row has.
func (r *Row) ResetCursors() {
	if len(r.cursors) > 0 {
		r.cursors = map[string]*setCursor{}
	}
	for _, lrs := range r.LinkedRows {
		for _, lr := range lrs {
			lr.ResetCursors()
		}
	}
}

func (r *Row) value(name string) any {
	if r.Sets[name] {
		if c := r.cursors[name]; c != nil && c.IsValid() {
			return c.vals[c.pos]
		}
		return nil
	}
	return r.Vals[name]
}

func (r *Row) EvalBool(name string) *bool {
	if v, ok := r.value(name).(bool); ok {
		return &v
	}
	return nil
}

func (r *Row) EvalString(name string) *string {
	// like the bolt row cursor, a Symbols implementation renders non-string values when asked for a string
	// (only map elements of type any reach this with a non-string value)
	var out string
	switch v := r.value(name).(type) {
	case string:
		out = v
	case int64:
		out = strconv.FormatInt(v, 10)
	case float64:
		out = strconv.FormatFloat(v, 'f', -1, 64)
	case bool:
		out = strconv.FormatBool(v)
	case time.Time:
		b, err := v.MarshalText()
		if err != nil {
			return nil
		}
		out = string(b)
	default:
		return nil
	}
	return &out
}

func (r *Row) EvalInt64(name string) *int64 {
	if v, ok := r.value(name).(int64); ok {
		return &v
	}
	return nil
}

func (r *Row) EvalFloat64(name string) *float64 {
	switch v := r.value(name).(type) {
	case float64:
		return &v
	case int64:
		f := float64(v)
		return &f
	}
	return nil
}

func (r *Row) EvalDatetime(name string) *time.Time {
	if v, ok := r.value(name).(time.Time); ok {
		return &v
	}
	return nil
}

func (r *Row) IsNil(name string) bool { return r.value(name) == nil }

type setCursor struct {
	vals []any
	pos  int
}

func (c *setCursor) Next()         { c.pos++ }
func (c *setCursor) IsValid() bool { return c.pos < len(c.vals) }
func (c *setCursor) Current() []byte {
	if s, ok := c.vals[c.pos].(string); ok {
		return []byte(s)
	}
	return []byte{}
}
func (c *setCursor) Seek(v []byte) { c.SeekToString(string(v)) }
func (c *setCursor) SeekToString(v string) {
	c.pos = sort.Search(len(c.vals), func(i int) bool {
		s, _ := c.vals[i].(string)
		return s >= v
	})
}

// plainCursor hides the seek methods (forces the scan path).
type plainCursor struct{ c *setCursor }

func (p plainCursor) Next()           { p.c.Next() }
func (p plainCursor) IsValid() bool   { return p.c.IsValid() }
func (p plainCursor) Current() []byte { return p.c.Current() }

// NoSeek, when set, makes OpenSetCursor return cursors without SeekToString.
var NoSeek bool

func (r *Row) OpenSetCursor(name string) ast.SetCursor {
	vals := append([]any{}, r.SetVals[name]...)
	allStr := true
	for _, v := range vals {
		if _, ok := v.(string); !ok {
			allStr = false
		}
	}
	if allStr {
		sort.Slice(vals, func(i, j int) bool { return vals[i].(string) < vals[j].(string) })
	}
	c := &setCursor{vals: vals}
	r.cursors[name] = c
	if NoSeek || !allStr {
		return plainCursor{c}
	}
	return c
}

type rowCursor struct {
	rows []*Row
	pos  int
}

func (c *rowCursor) Next()           { c.pos++ }
func (c *rowCursor) IsValid() bool   { return c.pos < len(c.rows) }
func (c *rowCursor) Current() []byte { return []byte{} }

func (r *Row) OpenSetCursorForQuery(name string, query ast.Query) ast.SetCursor {
	var match []*Row
	for _, lr := range r.LinkedRows[name] {
		if query.EvalBool(lr) {
			match = append(match, lr)
		}
	}
	skip := int64(0)
	if s := query.GetSkip(); s != nil && *s > 0 {
		skip = *s
	}
	if skip > int64(len(match)) {
		skip = int64(len(match))
	}
	match = match[skip:]
	if l := query.GetLimit(); l != nil && *l >= 0 && *l < int64(len(match)) {
		match = match[:*l]
	}
	return &rowCursor{rows: match}
}
