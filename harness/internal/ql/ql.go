// Package ql renders ZitiQL text from token streams. A stream records, between tokens, which kind of
// whitespace the grammar allows there, so that a query can be re-spelled (keyword case, whitespace,
// redundant parentheses) without changing its meaning.
package ql

import (
	"strings"

	"verif/harness/internal/core"
)

type Gap int

const (
	None Gap = iota // tokens are adjacent, no whitespace allowed by the grammar
	Opt             // WS*
	Req             // WS+
	One             // exactly one whitespace character (inside the `not in` token)
)

type Piece struct {
	S   string
	Id  bool // identifier: may also be written between single quotes ('name', the grammar's second IDENTIFIER form)
	Kw  bool // case-insensitive keyword / word operator
	Gap Gap  // when S == "": a gap
	IsG bool
}

type Stream []Piece

func T(s string) Piece { return Piece{S: s} }
func K(s string) Piece { return Piece{S: s, Kw: true} }
func I(s string) Piece { return Piece{S: s, Id: true} }

// QuoteIds switches the quoted identifier spelling on for Respell (off by default: it is judged where the property
// at hand is about spellings).
var QuoteIds = false

func G(g Gap) Piece                    { return Piece{IsG: true, Gap: g} }
func (s Stream) Add(p ...Piece) Stream { return append(s, p...) }
func Cat(ss ...Stream) Stream {
	var out Stream
	for _, s := range ss {
		out = append(out, s...)
	}
	return out
}

// Canon renders with single spaces at required gaps and nothing at optional ones, except that optional gaps
// around operators get one space for readability.
func (s Stream) Canon() string {
	var sb strings.Builder
	for _, p := range s {
		if p.IsG {
			switch p.Gap {
			case Req, One:
				sb.WriteByte(' ')
			case Opt:
				sb.WriteByte(' ')
			}
			continue
		}
		sb.WriteString(p.S)
	}
	return sb.String()
}

// Tight renders with the minimum whitespace.
func (s Stream) Tight() string {
	var sb strings.Builder
	for _, p := range s {
		if p.IsG {
			if p.Gap == Req || p.Gap == One {
				sb.WriteByte(' ')
			}
			continue
		}
		sb.WriteString(p.S)
	}
	return sb.String()
}

var wsChars = []string{" ", "\t", "\n", "\r"}

func ws(r *core.Rand, min, max int) string {
	n := r.Range(min, max)
	var sb strings.Builder
	for i := 0; i < n; i++ {
		sb.WriteString(core.Pick(r, wsChars))
	}
	return sb.String()
}

func randCase(r *core.Rand, s string) string {
	b := []byte(s)
	mode := r.Intn(3)
	for i := range b {
		c := b[i]
		if c >= 'a' && c <= 'z' || c >= 'A' && c <= 'Z' {
			up := false
			switch mode {
			case 0:
				up = true
			case 1:
				up = false
			default:
				up = r.Bool()
			}
			if up {
				b[i] = c &^ 0x20
			} else {
				b[i] = c | 0x20
			}
		}
	}
	return string(b)
}

// Respell renders with random keyword case and random whitespace where the grammar allows it.
func (s Stream) Respell(r *core.Rand) string {
	var sb strings.Builder
	sb.WriteString(ws(r, 0, 2)) // start: WS* query WS* EOF
	for _, p := range s {
		if p.IsG {
			switch p.Gap {
			case Req:
				sb.WriteString(ws(r, 1, 3))
			case Opt:
				sb.WriteString(ws(r, 0, 2))
			case One:
				sb.WriteString(ws(r, 1, 1))
			}
			continue
		}
		if p.Kw {
			sb.WriteString(randCase(r, p.S))
		} else if p.Id && QuoteIds && r.P(0.3) {
			sb.WriteString("'" + p.S + "'")
		} else {
			sb.WriteString(p.S)
		}
	}
	sb.WriteString(ws(r, 0, 2))
	return sb.String()
}

// Paren wraps a boolean expression stream in parentheses: LPAREN WS* boolExpr WS* RPAREN.
func Paren(s Stream) Stream {
	return Cat(Stream{T("("), G(Opt)}, s, Stream{G(Opt), T(")")})
}

// Not renders `not (P)`.
func Not(s Stream) Stream {
	return Cat(Stream{K("not"), G(Req)}, Paren(s))
}

func And(a, b Stream) Stream { return Cat(a, Stream{G(Req), K("and"), G(Req)}, b) }
func Or(a, b Stream) Stream  { return Cat(a, Stream{G(Req), K("or"), G(Req)}, b) }

// Lit escapes s as a ZitiQL string literal: backslash and double quote are backslash-escaped and the four
// control characters the grammar admits are written as \n \t \r \f.
func Lit(s string) string {
	var sb strings.Builder
	sb.WriteByte('"')
	for i := 0; i < len(s); i++ {
		switch c := s[i]; c {
		case '\\':
			sb.WriteString(`\\`)
		case '"':
			sb.WriteString(`\"`)
		case '\n':
			sb.WriteString(`\n`)
		case '\t':
			sb.WriteString(`\t`)
		case '\r':
			sb.WriteString(`\r`)
		case '\f':
			sb.WriteString(`\f`)
		default:
			sb.WriteByte(c)
		}
	}
	sb.WriteByte('"')
	return sb.String()
}

// Cmp renders `lhs op rhs` for the symbol comparison operators (=, !=, <, <=, >, >=): WS* around the operator.
func Cmp(lhs Stream, op string, rhs Stream) Stream {
	return Cat(lhs, Stream{G(Opt), T(op), G(Opt)}, rhs)
}

// WordOp renders word operators. in / not in / between / not between need WS+ on both sides; contains / icontains
// take WS* before and WS+ after.
func WordOp(lhs Stream, op string, rhs Stream) Stream {
	words := strings.Split(op, " ")
	var opS Stream
	if len(words) == 2 { // "not in", "not between", "not contains", "not icontains"
		g := Req
		if words[1] == "in" {
			g = One
		}
		// the whole operator is one lexer token: keyword case applies to both words
		opS = Stream{K(words[0]), G(g), K(words[1])}
	} else {
		opS = Stream{K(op)}
	}
	before := Req
	if strings.HasSuffix(op, "contains") {
		before = Opt
	}
	// an optional gap before a word operator still needs a separator after an identifier; keep it required for safety
	if before == Opt {
		before = Req
	}
	return Cat(lhs, Stream{G(before)}, opS, Stream{G(Req)}, rhs)
}

// List renders `[a, b, c]`.
func List(items []Stream) Stream {
	out := Stream{T("["), G(Opt)}
	for i, it := range items {
		if i > 0 {
			out = append(out, G(Opt), T(","), G(Opt))
		}
		out = append(out, it...)
	}
	return append(out, G(Opt), T("]"))
}

// Func renders fn(arg): `ANY_OF LPAREN WS* IDENTIFIER WS* RPAREN` (no whitespace between name and parenthesis).
func Func(name string, arg Stream) Stream {
	return Cat(Stream{K(name), T("("), G(Opt)}, arg, Stream{G(Opt), T(")")})
}
