package kmodel

import (
	"context"
	"errors"
	"fmt"
	"os"
	"sort"
	"strings"
	"time"

	"github.com/openziti/storage/boltz"
	"go.etcd.io/bbolt"
	"verif/harness/internal/core"
	"verif/harness/internal/schema"
)

// Op is one API call of a history (JSON-serialisable for samples / replays).
type Op struct {
	Kind   string         `json:"kind"` // create update patch delete deletewhere addlinks addlink removelinks removelink setlinks rcinc rcdec rcset fail
	Store  string         `json:"store"`
	Id     string         `json:"id"`
	V      map[string]any `json:"v,omitempty"`
	CV     map[string]any `json:"cv,omitempty"`
	Fields []string       `json:"fields,omitempty"`
	Others []string       `json:"others,omitempty"`
	N      int            `json:"n,omitempty"`
	Nil    bool           `json:"nilabsent,omitempty"`
	Exp    string         `json:"exp"`
	Amb    bool           `json:"amb,omitempty"`
	Why    string         `json:"why,omitempty"`
	Query  string         `json:"query,omitempty"` // deletewhere
	RetN   int            `json:"retn,omitempty"`
}

func (o Op) String() string {
	s := fmt.Sprintf("%s(%s,%q,v=%v,cv=%v,f=%v,o=%q,n=%d)->%s", o.Kind, o.Store, o.Id, o.V, o.CV, o.Fields, o.Others, o.N, o.Exp)
	if len(s) > 600 {
		s = strings.ReplaceAll(s, hugeValue, "<40000 x h>")
	}
	return s
}

// Engine owns one database, the stores, and the reference model.
type Engine struct {
	idBuf, otherBuf []byte // reused id buffers of the single-link calls
	txCount         int
	sharedCtx       boltz.MutateContext

	C    *core.Ctx
	Cfg  Config
	Sc   *schema.Schema
	Db   *boltz.DbImpl
	Path string
	M    *Model
	// Weights of op kinds for Gen (0 = never).
	W map[string]int
	// Ghosts are ids that were recently deleted, or created by a transaction that rolled back: references
	// to them are generated on purpose (stale caches, dangling references).
	Ghosts map[string][]string
	// id universes (default: the disjoint hostile pools of schema.go)
	EmpPool, DeptPool []string
}

func NewEngine(c *core.Ctx, cfg Config) (*Engine, error) {
	// every other case: the indexed fields of the employee store are known to callers under other names than they are
	// stored under (override tables registered by the entity strategy)
	ApiNames = c.CaseIdx%2 == 1
	if ApiNames {
		c.Count("cases_with_api_names_for_indexed_fields", 1)
	}
	sc := schema.Build(Defs(cfg))
	path := c.TempFile("k")
	db, err := sc.OpenDb(path)
	if err != nil {
		return nil, err
	}
	e := &Engine{C: c, Cfg: cfg, Sc: sc, Db: db, Path: path, M: NewModel(cfg), W: DefaultWeights(), Ghosts: map[string][]string{}, EmpPool: EmpIds, DeptPool: DeptIds}
	if c.CaseIdx%4 >= 2 {
		e.sharedCtx = boltz.NewMutateContext(context.Background())
		c.Count("histories_on_one_mutate_context", 1)
	}
	return e, nil
}

func (e *Engine) Close() {
	if e.Db != nil {
		_ = e.Db.Close()
	}
	_ = os.Remove(e.Path)
	_ = os.Remove(e.Path + ".previous")
}

// Reopen closes the database file and opens it again in place (the DbImpl stays the same object), then declares the
// stores' indexes again the way an application does at start-up.
func (e *Engine) Reopen() error {
	if err := e.Db.Close(); err != nil {
		return err
	}
	if err := e.Db.Open(e.Path); err != nil {
		return err
	}
	return e.Sc.InitDb(e.Db)
}

func DefaultWeights() map[string]int {
	return map[string]int{"create": 10, "update": 6, "patch": 6, "delete": 5, "deletewhere": 1,
		"addlinks": 3, "addlink": 1, "removelinks": 2, "removelink": 1, "setlinks": 3, "rcinc": 3, "rcdec": 2, "rcset": 2}
}

func classify(err error) string {
	if err == nil {
		return ExpOK
	}
	var dup *boltz.UniqueIndexDuplicateError
	if errors.As(err, &dup) {
		return ExpDup
	}
	var nf *boltz.RecordNotFoundError
	if errors.As(err, &nf) {
		return ExpNotFound
	}
	var re *boltz.ReferenceExistsError
	if errors.As(err, &re) {
		return ExpRefExists
	}
	return ExpReject
}

func (e *Engine) ent(store string, op Op) *schema.Ent {
	st := e.Sc.St(store)
	en := &schema.Ent{Id: op.Id, Typ: st.Def.Type, V: map[string]any{}, NilAbsent: op.Nil}
	for k, v := range op.V {
		en.V[k] = schema.CloneVal(v)
	}
	for k, v := range op.CV {
		en.V[k] = schema.CloneVal(v)
	}
	return en
}

// checker builds the field checker of a patch: the library consults it with the storage key of each field, which for
// some fields of schema K differs from the symbol / model name.
func checker(st *schema.St, fields []string) boltz.FieldChecker {
	if fields == nil {
		return nil
	}
	keys := map[string]string{}
	for _, f := range st.AllFields() {
		keys[f.Name] = f.StoreKey()
		if f.ApiName != "" {
			keys[f.Name] = f.ApiName // the strategy maps the storage key to this name (WithFieldOverrides)
		}
	}
	m := boltz.MapFieldChecker{}
	for _, f := range fields {
		if k, ok := keys[f]; ok {
			m[k] = struct{}{}
		} else {
			m[f] = struct{}{}
		}
	}
	return m
}

// Apply executes one op against the real stores inside ctx's transaction.
func (e *Engine) Apply(ctx boltz.MutateContext, op *Op) error {
	st := e.Sc.St(op.Store)
	tx := ctx.Tx()
	switch op.Kind {
	case "create", "update", "patch":
		// the entity object is the caller's: once the call is back the caller uses it for something else (here: it
		// scribbles over it, before the transaction commits) - what was stored and what listeners are told is what
		// the object held when it was handed over
		ent := e.ent(op.Store, *op)
		var err error
		switch op.Kind {
		case "create":
			err = st.Store.Create(ctx, ent)
		case "update":
			err = st.Store.Update(ctx, ent, nil)
		default:
			err = st.Store.Update(ctx, ent, checker(st, op.Fields))
		}
		for k := range ent.V {
			ent.V[k] = nil
		}
		ent.V["name"], ent.Id = "scribbled-over-by-the-caller", "scribbled-id"
		return err
	case "delete":
		return st.Store.DeleteById(ctx, op.Id)
	case "deletewhere":
		return st.Store.DeleteWhere(ctx, op.Query)
	case "addlinks":
		return st.Links[linkField(op.Store)].AddLinks(tx, op.Id, op.Others...)
	case "addlink":
		// single-link calls get their ids in buffers the caller uses again for the next call (ids of equal length
		// overwrite each other in place), like a caller decoding ids from a stream would
		e.idBuf, e.otherBuf = append(e.idBuf[:0], op.Id...), append(e.otherBuf[:0], op.Others[0]...)
		_, err := st.Links[linkField(op.Store)].AddLink(tx, e.idBuf, e.otherBuf)
		return err
	case "removelinks":
		return st.Links[linkField(op.Store)].RemoveLinks(tx, op.Id, op.Others...)
	case "removelink":
		e.idBuf, e.otherBuf = append(e.idBuf[:0], op.Id...), append(e.otherBuf[:0], op.Others[0]...)
		_, err := st.Links[linkField(op.Store)].RemoveLink(tx, e.idBuf, e.otherBuf)
		return err
	case "setlinks":
		return st.Links[linkField(op.Store)].SetLinks(tx, op.Id, append([]string{}, op.Others...))
	case "rcinc":
		n, err := st.RcLinks[rcField(op.Store)].IncrementLinkCount(tx, []byte(op.Id), []byte(op.Others[0]))
		op.RetN = n
		return err
	case "rcdec":
		n, err := st.RcLinks[rcField(op.Store)].DecrementLinkCount(tx, []byte(op.Id), []byte(op.Others[0]))
		op.RetN = n
		return err
	case "rcset":
		_, _, err := st.RcLinks[rcField(op.Store)].SetLinkCount(tx, []byte(op.Id), []byte(op.Others[0]), op.N)
		return err
	case "fail":
		return errors.New("caller error")
	}
	return fmt.Errorf("unknown op kind %s", op.Kind)
}

func linkField(store string) string {
	if store == Emps {
		return "watching"
	}
	return "watchers"
}

func rcField(store string) string {
	if store == Emps {
		return "credits"
	}
	return "creditors"
}

// Predict applies op to model m and fills op.Exp. Returns the expected return count for rc ops.
func Predict(m *Model, op *Op) (Pred, int) {
	var p Pred
	n := 0
	switch op.Kind {
	case "create":
		p = m.Create(op.Store, op.Id, op.V, op.CV)
	case "update":
		p = m.Update(op.Store, op.Id, op.V, op.CV, nil)
	case "patch":
		f := op.Fields
		if f == nil {
			f = []string{}
		}
		p = m.Update(op.Store, op.Id, op.V, op.CV, f)
	case "delete":
		p = m.Delete(op.Store, op.Id)
	case "deletewhere":
		p = m.DeleteWhere(op.Store, op.V)
	case "addlinks", "addlink":
		p = m.AddLinks(op.Store, op.Id, op.Others)
	case "removelinks", "removelink":
		p = m.RemoveLinks(op.Store, op.Id, op.Others)
	case "setlinks":
		p = m.SetLinks(op.Store, op.Id, op.Others)
	case "rcinc":
		p, n = m.RcIncrement(op.Store, op.Id, op.Others[0])
	case "rcdec":
		p, n = m.RcDecrement(op.Store, op.Id, op.Others[0])
	case "rcset":
		p = m.RcSet(op.Store, op.Id, op.Others[0], op.N)
	case "fail":
		p = rej(ExpReject, "caller error")
	}
	op.Exp, op.Amb, op.Why = p.Exp, p.Ambiguous, p.Why
	return p, n
}

// TxResult describes one executed transaction.
type TxResult struct {
	Ops       []Op
	Err       error
	Committed bool
	FailedAt  int // index of the op that failed (-1 none)
}

// RunTx generates nothing: it predicts ops against a copy of the model, executes them in one
// Db.Update, compares every op outcome with its prediction and adopts the model copy on commit.
// Outcome mismatches are reported as violations with the given key prefix.
func (e *Engine) RunTx(ops []Op, keyPrefix string) *TxResult {
	tentative := e.M.Clone()
	res := &TxResult{FailedAt: -1}
	expectFail := false
	var retNs []int
	var planned []Op
	for i := range ops {
		op := ops[i]
		p, n := Predict(tentative, &op)
		if p.Skip {
			continue
		}
		planned = append(planned, op)
		retNs = append(retNs, n)
		if p.Cycle {
			e.C.Count("cascade_deletes_over_a_reference_cycle", 1)
		}
		if p.Exp != ExpOK {
			expectFail = true
			break // a rejected op ends the transaction
		}
	}
	res.Ops = planned
	if len(planned) == 0 {
		res.Committed = true
		return res
	}
	mismatch := false
	// every fifth transaction carries a context.Context that is already cancelled or past its deadline (the request
	// behind it timed out, the caller goes on and commits): what the operations do does not depend on it - unless they
	// report the context's error, which makes the caller roll back
	var callerCtx boltz.MutateContext
	e.txCount++
	if e.txCount%5 == 0 {
		cc, cancel := context.WithCancel(context.Background())
		if e.txCount%10 == 0 {
			cc, cancel = context.WithDeadline(context.Background(), time.Unix(1, 0))
		}
		cancel()
		callerCtx = boltz.NewMutateContext(cc)
		e.C.Count("transactions_under_a_cancelled_context", 1)
	}
	if callerCtx == nil && e.sharedCtx != nil {
		// one MutateContext for all transactions of this history, the rolled back ones included (a caller that keeps
		// its request context): nothing a transaction learned or registered on it counts for the next one
		callerCtx = e.sharedCtx
	}
	err := e.Db.Update(callerCtx, func(ctx boltz.MutateContext) error {
		for i := range planned {
			op := &planned[i]
			err := e.Apply(ctx, op)
			if callerCtx != nil && err != nil && (errors.Is(err, context.Canceled) || errors.Is(err, context.DeadlineExceeded)) {
				res.FailedAt = i
				expectFail = true
				return err
			}
			got := classify(err)
			e.C.Eval()
			e.C.Cover("op_outcome", op.Kind+":"+op.Exp)
			if (got == ExpOK) != (op.Exp == ExpOK) {
				mismatch = true
				e.C.Violationf(keyPrefix+" outcome: "+op.Kind+" expected "+op.Exp+" got "+got+" ("+op.Why+")", e.describe(planned, i),
					"op %d %s returned %v, model predicted %s (%s) [cfg %s]", i, op.String(), err, op.Exp, op.Why, e.Cfg)
			} else if got != op.Exp && !op.Amb && op.Exp != ExpReject && got != ExpOK {
				mismatch = true
				e.C.Violationf(keyPrefix+" error class: "+op.Kind+" expected "+op.Exp+" got "+got, e.describe(planned, i),
					"op %d %s returned %v (class %s), model predicted class %s [cfg %s]", i, op.String(), err, got, op.Exp, e.Cfg)
			} else if err == nil && (op.Kind == "rcinc" || op.Kind == "rcdec") && op.RetN != retNs[i] {
				mismatch = true
				e.C.Violationf(keyPrefix+" return value: "+op.Kind, e.describe(planned, i),
					"op %d %s returned count %d, model predicted %d", i, op.String(), op.RetN, retNs[i])
			}
			if err != nil {
				res.FailedAt = i
				return err
			}
		}
		if e.txCount%7 == 3 {
			// the stores declare their indexes again at the end of this transaction, with its writes not yet committed
			// (a migration step that sets the stores up after loading data): that changes nothing
			e.C.Count("transactions_ending_with_index_initialisation", 1)
			if err := e.Sc.InitTx(ctx); err != nil {
				e.C.Violationf(keyPrefix+" declaring the indexes again at the end of a transaction failed", e.describe(planned, len(planned)-1), "%v", err)
				return err
			}
		}
		return nil
	})
	res.Err = err
	res.Committed = err == nil
	for _, op := range planned {
		if op.Kind == "delete" && op.Exp == ExpOK {
			e.addGhost(rootOf(op.Store), op.Id)
		}
		if op.Kind == "create" && !res.Committed {
			e.addGhost(rootOf(op.Store), op.Id)
		}
	}
	if res.Committed && !expectFail {
		e.M = tentative
	} else if res.Committed && expectFail {
		// the real system accepted something the model rejects: already reported; resynchronise by reading back
		e.Resync()
	} else if !res.Committed && !expectFail {
		// real system rejected; model unchanged (transaction rolled back)
	}
	_ = mismatch
	return res
}

func (e *Engine) describe(ops []Op, failing int) map[string]any {
	return map[string]any{"cfg": e.Cfg.String(), "tx_ops": ops, "op_index": failing}
}

// Resync rebuilds the model from the database (only used after a reported divergence, so
// that one defect does not cascade into unrelated reports).
func (e *Engine) Resync() {
	m := NewModel(e.Cfg)
	_ = e.Db.View(func(tx *bbolt.Tx) error {
		for _, root := range []string{Depts, Emps} {
			st := e.Sc.St(root)
			for _, id := range st.RawIds(tx) {
				en, found, err := st.Store.FindById(tx, id)
				if err != nil || !found {
					continue
				}
				me := &MEnt{Id: id, V: map[string]any{}, Child: map[string]map[string]any{}}
				for _, f := range rootFields(st.Def) {
					me.V[f.Name] = schema.CloneVal(en.V[f.Name])
				}
				for _, ck := range []string{Mgrs, Ctrs} {
					cst := e.Sc.St(ck)
					if cst == nil || root != Emps {
						continue
					}
					if cst.Store.GetEntityBucket(tx, []byte(id)) != nil {
						ce, _, _ := cst.Store.FindById(tx, id)
						cm := map[string]any{}
						if ce != nil {
							for _, f := range cst.Def.Fields {
								cm[f.Name] = schema.CloneVal(ce.V[f.Name])
							}
						}
						me.Child[ck] = cm
					}
				}
				m.Ents[root][id] = me
			}
		}
		est := e.Sc.St(Emps)
		for id := range m.Ents[Emps] {
			for _, d := range est.Links["watching"].GetLinks(tx, id) {
				m.Watch[pair{id, d}] = true
			}
			c := est.RcLinks["credits"].IterateLinks(tx, []byte(id), true)
			for ; c.IsValid(); c.Next() {
				d := string(c.Current())
				if n := est.RcLinks["credits"].GetLinkCount(tx, []byte(id), []byte(d)); n != nil {
					m.Cred[pair{id, d}] = int(*n)
				}
			}
		}
		return nil
	})
	e.M = m
}

// ---------- generation ----------

var hugeValue = strings.Repeat("h", 40000)

func pickVal(r *core.Rand, pool []string, pNull, pEmpty float64) any {
	x := r.Float()
	if x < pNull {
		return nil
	}
	if x < pNull+pEmpty {
		return ""
	}
	return core.Pick(r, pool)
}

func (e *Engine) existing(m *Model, t string) []string {
	var out []string
	for id := range m.Ents[t] {
		out = append(out, id)
	}
	sort.Strings(out)
	return out
}

func (e *Engine) pickId(r *core.Rand, m *Model, t string, pExisting float64) string {
	pool := e.EmpPool
	if t == Depts {
		pool = e.DeptPool
	}
	ex := e.existing(m, t)
	if len(ex) > 0 && r.P(pExisting) {
		return core.Pick(r, ex)
	}
	return core.Pick(r, pool)
}

func (e *Engine) genEmpV(r *core.Rand, m *Model, hostile bool) map[string]any {
	v := map[string]any{}
	pBad := 0.04
	if !hostile {
		pBad = 0
	}
	// name: unique non-nullable; prefer an unused value
	used := map[string]bool{}
	usedNick := map[string]bool{}
	for _, o := range m.Ents[Emps] {
		if s, ok := o.V["name"].(string); ok {
			used[s] = true
		}
		if s, ok := o.V["nick"].(string); ok {
			usedNick[s] = true
		}
	}
	names := append(append([]string{}, NamePool...), "n5", "n6", "n7", "n8", "n9")
	var free []string
	for _, n := range names {
		if !used[n] {
			free = append(free, n)
		}
	}
	if len(free) > 0 && !r.P(0.15) {
		v["name"] = core.Pick(r, free)
	} else {
		v["name"] = pickVal(r, names, pBad, pBad)
	}
	if r.P(0.5) {
		v["nick"] = nil
	} else if r.P(0.2) {
		v["nick"] = ""
	} else {
		var freeN []string
		for _, n := range NickPool {
			if !usedNick[n] {
				freeN = append(freeN, n)
			}
		}
		if len(freeN) > 0 && !r.P(0.2) {
			v["nick"] = core.Pick(r, freeN)
		} else {
			v["nick"] = core.Pick(r, NickPool)
		}
	}
	if r.P(pBad) {
		v["title"] = ""
	} else {
		v["title"] = core.Pick(r, TitlePool)
	}
	roles := core.Subset(r, RolePool, 0.35)
	if r.P(pBad) {
		roles = append(roles, "")
	}
	if r.P(0.2) && len(roles) > 0 {
		roles = append(roles, roles[0]) // duplicate
	}
	if r.P(pBad / 2) {
		roles = append(roles, hugeValue) // unusable key: too large for a bucket name / list entry key
	}
	if r.P(pBad / 2) {
		v["name"] = hugeValue // too large for an index key
	}
	v["roles"] = core.Shuffle(r, roles)
	// dept
	if r.P(0.05) {
		v["dept"] = "" // the empty string is "no reference" too
	} else if r.P(0.08) {
		v["dept"] = nil
	} else {
		v["dept"] = e.pickRef(r, m, Depts, e.DeptPool) // may be missing
	}
	if r.P(0.05) {
		v["boss"] = ""
	} else if r.P(0.45) {
		v["boss"] = nil
	} else {
		v["boss"] = e.pickRef(r, m, Emps, e.EmpPool)
	}
	if r.P(0.3) {
		v["grade"] = nil
	} else {
		v["grade"] = int64(r.Intn(5))
	}
	return v
}

func (e *Engine) genChildV(r *core.Rand, store string) map[string]any {
	if store == Mgrs {
		cv := map[string]any{"lead": r.Bool(), "level": int64(r.Intn(4))}
		if r.P(0.2) {
			cv["level"] = nil
		}
		return cv
	}
	return map[string]any{"agency": pickVal(r, AgencyPool, 0.2, 0.1)}
}

var empPatchFields = []string{"name", "nick", "title", "roles", "dept", "boss", "grade"}

// GenOp generates one op against the (tentative) model m.
func (e *Engine) GenOp(r *core.Rand, m *Model, hostile bool) Op {
	total := 0
	var kinds []string
	for k := range e.W {
		kinds = append(kinds, k)
	}
	sort.Strings(kinds)
	for _, k := range kinds {
		total += e.W[k]
	}
	x := r.Intn(total)
	kind := kinds[0]
	for _, k := range kinds {
		if x < e.W[k] {
			kind = k
			break
		}
		x -= e.W[k]
	}
	// bootstrap: need some depts and emps
	if len(m.Ents[Depts]) == 0 && r.P(0.6) {
		kind = "create"
	}
	empStores := []string{Emps}
	if e.Cfg.Children {
		empStores = []string{Emps, Emps, Mgrs, Ctrs}
	}
	switch kind {
	case "create":
		if len(m.Ents[Depts]) < 2 || r.P(0.3) {
			used := map[string]bool{}
			for _, o := range m.Ents[Depts] {
				if s, ok := o.V["name"].(string); ok {
					used[s] = true
				}
			}
			var name any = pickVal(r, NamePool, 0.3, 0.1)
			if s, ok := name.(string); ok && used[s] && r.P(0.7) {
				name = nil
			}
			pExist := 0.05
			if !hostile {
				pExist = 0
			}
			return Op{Kind: "create", Store: Depts, Id: e.pickFreeId(r, m, Depts, pExist), V: map[string]any{"name": name}, Nil: r.Bool()}
		}
		store := core.Pick(r, empStores)
		pExist := 0.05
		if !hostile {
			pExist = 0
		}
		op := Op{Kind: "create", Store: store, Id: e.pickFreeId(r, m, Emps, pExist), V: e.genEmpV(r, m, hostile), Nil: r.Bool()}
		if m.Upgrade && isChild(store) && r.P(0.25) {
			// over an existing entity that has no data in this child store (explicit nulls: the payload replaces the parent part)
			for _, id := range e.existing(m, Emps) {
				if _, has := m.Ents[Emps][id].Child[store]; !has && r.P(0.5) && !(m.UpgradePlainOnly && len(m.Ents[Emps][id].Child) > 0) {
					op.Id, op.Nil = id, false
					break
				}
			}
		}
		if ex, ok := m.Ents[Emps][op.Id]; ok && m.Upgrade && isChild(store) {
			if _, has := ex.Child[store]; !has {
				op.Nil = false
			}
		}
		if hostile && r.P(0.02) {
			op.Id = ""
		}
		if isChild(store) {
			op.CV = e.genChildV(r, store)
		}
		return op
	case "update", "patch":
		if r.P(0.2) && len(m.Ents[Depts]) > 0 {
			op := Op{Kind: kind, Store: Depts, Id: e.pickId(r, m, Depts, 0.95), V: map[string]any{"name": pickVal(r, NamePool, 0.3, 0.1)}}
			if kind == "patch" {
				op.Fields = core.Subset(r, []string{"name"}, 0.7)
				if op.Fields == nil {
					op.Fields = []string{}
				}
			}
			return op
		}
		id := e.pickId(r, m, Emps, 0.95)
		store := core.Pick(r, empStores)
		// prefer the store matching the entity's child data
		if ent, ok := m.Ents[Emps][id]; ok && e.Cfg.Children {
			if _, has := ent.Child[Mgrs]; has && r.P(0.6) {
				store = Mgrs
			} else if _, has := ent.Child[Ctrs]; has && r.P(0.6) {
				store = Ctrs
			} else if r.P(0.6) {
				store = Emps
			}
		}
		v := e.genEmpV(r, m, hostile)
		// often keep most of the current values (so that updates exercise single-field changes and swaps)
		if ent, ok := m.Ents[Emps][id]; ok && r.P(0.6) {
			for _, f := range empPatchFields {
				if r.P(0.7) {
					v[f] = schema.CloneVal(ent.V[f])
				}
			}
			// value hand-over: take another entity's unique value
			if r.P(0.15) {
				for _, oid := range e.existing(m, Emps) {
					if oid != id {
						v["name"] = m.Ents[Emps][oid].V["name"]
						if r.P(0.5) {
							break
						}
					}
				}
			}
		}
		op := Op{Kind: kind, Store: store, Id: id, V: v}
		if isChild(store) {
			op.CV = e.genChildV(r, store)
		}
		if kind == "patch" {
			all := append([]string{}, empPatchFields...)
			if store == Mgrs {
				all = append(all, "lead", "level")
			} else if store == Ctrs {
				all = append(all, "agency")
			}
			op.Fields = core.Subset(r, all, 0.4)
			if op.Fields == nil {
				op.Fields = []string{}
			}
		}
		return op
	case "delete":
		if r.P(0.3) {
			return Op{Kind: "delete", Store: Depts, Id: e.pickId(r, m, Depts, 0.9)}
		}
		return Op{Kind: "delete", Store: core.Pick(r, empStores), Id: e.pickId(r, m, Emps, 0.9)}
	case "deletewhere":
		// DeleteWhere with a simple filter; the model evaluates the same condition
		if r.Bool() {
			t := core.Pick(r, TitlePool)
			return Op{Kind: "deletewhere", Store: core.Pick(r, empStores), Query: `title = "` + t + `"`, V: map[string]any{"title": t}}
		}
		g := int64(r.Intn(5))
		return Op{Kind: "deletewhere", Store: core.Pick(r, empStores), Query: "grade = " + fmt.Sprint(g), V: map[string]any{"grade": g}}
	case "addlinks", "removelinks", "setlinks":
		store := core.Pick(r, []string{Emps, Depts})
		ot := Depts
		opool := e.DeptPool
		if store == Depts {
			ot, opool = Emps, e.EmpPool
		}
		ex := e.existing(m, ot)
		var others []string
		n := r.Intn(4)
		for i := 0; i < n; i++ {
			if len(ex) > 0 && !r.P(0.08) {
				others = append(others, core.Pick(r, ex))
			} else if hostile {
				others = append(others, core.Pick(r, opool))
			}
		}
		if others == nil {
			others = []string{}
		}
		return Op{Kind: kind, Store: store, Id: e.pickId(r, m, store, 0.95), Others: others}
	case "addlink", "removelink", "rcinc", "rcdec", "rcset":
		store := core.Pick(r, []string{Emps, Depts})
		ot := Depts
		opool := e.DeptPool
		if store == Depts {
			ot, opool = Emps, e.EmpPool
		}
		ex := e.existing(m, ot)
		other := core.Pick(r, opool)
		if len(ex) > 0 && (!hostile || !r.P(0.08)) {
			other = core.Pick(r, ex)
		}
		op := Op{Kind: kind, Store: store, Id: e.pickId(r, m, store, 0.95), Others: []string{other}}
		if kind == "rcset" {
			op.N = core.Pick(r, []int{0, 0, 1, 2, 5})
		}
		// bias decrements / removals towards existing links
		if kind == "rcdec" || kind == "rcset" {
			for _, p := range sortedPairs(m.Cred) {
				if r.P(0.5) {
					if store == Emps {
						op.Id, op.Others = p.A, []string{p.B}
					} else {
						op.Id, op.Others = p.B, []string{p.A}
					}
					break
				}
			}
		}
		return op
	}
	return Op{Kind: "fail"}
}

func (e *Engine) pickFreeId(r *core.Rand, m *Model, t string, pExisting float64) string {
	pool := e.EmpPool
	if t == Depts {
		pool = e.DeptPool
	}
	if r.P(pExisting) {
		return core.Pick(r, pool)
	}
	var free []string
	for _, id := range pool {
		if _, ok := m.Ents[t][id]; !ok {
			free = append(free, id)
		}
	}
	if len(free) == 0 {
		return core.Pick(r, pool)
	}
	return core.Pick(r, free)
}

// GenTx generates a transaction of 1..maxOps ops, predicting against a scratch copy so that
// later ops see the effects of earlier ones. hostile=false avoids deliberately invalid ops.
func (e *Engine) GenTx(r *core.Rand, maxOps int, hostile bool) []Op {
	n := 1 + r.Intn(maxOps)
	scratch := e.M.Clone()
	var ops []Op
	for i := 0; i < n; i++ {
		op := e.GenOp(r, scratch, hostile)
		cp := op
		p, _ := Predict(scratch, &cp)
		if p.Skip {
			continue
		}
		if !hostile && p.Exp != ExpOK {
			continue
		}
		if p.Exp != ExpOK && r.P(0.8) {
			continue // keep rejected operations to roughly a fifth of the transactions so that populations grow
		}
		ops = append(ops, op)
		if p.Exp != ExpOK {
			break
		}
		if op.Kind == "delete" {
			e.addGhost(rootOf(op.Store), op.Id)
		}
	}
	return ops
}

func sortedPairs(m map[pair]int) []pair {
	var out []pair
	for p := range m {
		out = append(out, p)
	}
	sort.Slice(out, func(i, j int) bool {
		if out[i].A != out[j].A {
			return out[i].A < out[j].A
		}
		return out[i].B < out[j].B
	})
	return out
}

// ExistingIds lists the model's ids of a root store, sorted.
func (e *Engine) ExistingIds(t string) []string { return e.existing(e.M, t) }

func (e *Engine) addGhost(t, id string) {
	g := e.Ghosts[t]
	for _, x := range g {
		if x == id {
			return
		}
	}
	g = append(g, id)
	if len(g) > 4 {
		g = g[len(g)-4:]
	}
	e.Ghosts[t] = g
}

// pickRef picks a reference target: mostly existing, sometimes a ghost (recently removed), sometimes any pool id.
func (e *Engine) pickRef(r *core.Rand, m *Model, t string, pool []string) string {
	ex := e.existing(m, t)
	x := r.Float()
	// one popular target (the smallest existing id) collects many referrers: restrict checks and cascades with three
	// and more direct referrers
	if len(ex) > 0 && x < 0.3 {
		return ex[0]
	}
	if len(ex) > 0 && x < 0.8 {
		return core.Pick(r, ex)
	}
	if g := e.Ghosts[t]; len(g) > 0 && x < 0.93 {
		return core.Pick(r, g)
	}
	return core.Pick(r, pool)
}
