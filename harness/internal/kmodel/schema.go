// Package kmodel holds the constraint universe (schema K), its reference entity
// model, the structural monitor and the history engine shared by C03-C09, C15.
package kmodel

import (
	"github.com/openziti/storage/boltz"
	"verif/harness/internal/schema"
)

// Config selects one wiring of the foreign keys / child stores.
type Config struct {
	DeptFK       schema.FKKind // FkIndex | FkIndexNullable | FkIndexCascade
	BossCascade  int           // boltz.CascadeNone | CascadeDelete | CascadeCreateUpdate
	BossNullable bool
	Children     bool // register the mgrs (plain) and ctrs (extended) child stores
}

func (c Config) String() string {
	fk := map[schema.FKKind]string{schema.FkIndex: "fkidx", schema.FkIndexNullable: "fkidx-null", schema.FkIndexCascade: "fkidx-cascade"}[c.DeptFK]
	bc := map[int]string{boltz.CascadeNone: "none", boltz.CascadeDelete: "delete", boltz.CascadeCreateUpdate: "createupdate"}[c.BossCascade]
	s := "dept=" + fk + ",boss=" + bc
	if c.BossNullable {
		s += "-null"
	}
	if c.Children {
		s += ",children"
	}
	return s
}

var AllConfigs = []Config{
	{DeptFK: schema.FkIndexNullable, BossCascade: boltz.CascadeNone, BossNullable: true, Children: true},
	{DeptFK: schema.FkIndex, BossCascade: boltz.CascadeDelete, BossNullable: true, Children: true},
	{DeptFK: schema.FkIndexCascade, BossCascade: boltz.CascadeNone, BossNullable: true, Children: false},
	{DeptFK: schema.FkIndexNullable, BossCascade: boltz.CascadeDelete, BossNullable: true, Children: false},
	{DeptFK: schema.FkIndexCascade, BossCascade: boltz.CascadeCreateUpdate, BossNullable: true, Children: true},
	{DeptFK: schema.FkIndex, BossCascade: boltz.CascadeNone, BossNullable: false, Children: false},
	// two cascading foreign keys at once: a department's delete takes its employees along, an employee's delete its
	// subordinates - who may be employees of the same department, reached twice
	{DeptFK: schema.FkIndexCascade, BossCascade: boltz.CascadeDelete, BossNullable: true, Children: false},
}

const (
	Depts = "depts"
	Emps  = "emps"
	Mgrs  = "emps/ext"
	Ctrs  = "emps/xt"
)

// Hostile id universes (disjoint between stores, disjoint from every value pool).
var EmpIds = []string{"e1", "E1", "e 2", "or", `e"q`, `e\n`, "é3", `e" or id != "`, "e\nl", "e10"} // e1 is a prefix of e10
var DeptIds = []string{"d1", "D1", "null", `d"q`, `d\t`, "true", `d" or id != "`, "d10"}           // d1 is a prefix of d10

var NamePool = []string{"n1", "n2", "N1", "n 3", `n"4`}
var NickPool = []string{"k1", "k2", "K1"}
var RolePool = []string{"r1", "r2", "R1", "r 3", `r"4`}
var TitlePool = []string{"t1", "t2"}
var AgencyPool = []string{"a1", "a2"}

// ApiNames: see NewEngine.
var ApiNames bool

func Defs(cfg Config) []*schema.StoreDef {
	depts := &schema.StoreDef{
		Type: Depts, BasePath: []string{"stores"},
		Fields: []schema.Field{
			{Name: "name", Kind: schema.KStr},
			{Name: "members", Kind: schema.KList, FK: Emps, Derived: true},
			{Name: "watchers", Kind: schema.KList, FK: Emps, Derived: true},
			{Name: "creditors", Kind: schema.KList, FK: Emps, Derived: true},
		},
		Unique: []schema.UniqueDef{{Field: "name", Nullable: true}},
	}
	emps := &schema.StoreDef{
		Type: Emps, BasePath: []string{"stores"},
		Fields: []schema.Field{
			{Name: "name", Kind: schema.KStr},
			{Name: "nick", Kind: schema.KStr, Key: "nk"}, // stored under another key than the symbol is named
			{Name: "title", Kind: schema.KStrReq},
			{Name: "roles", Kind: schema.KList},
			{Name: "dept", Kind: schema.KStr, FK: Depts},
			{Name: "boss", Kind: schema.KStr, FK: Emps, Key: "bs"},
			{Name: "grade", Kind: schema.KI64},
			{Name: "watching", Kind: schema.KList, FK: Depts, Derived: true},
			{Name: "credits", Kind: schema.KList, FK: Depts, Derived: true},
		},
		Unique: []schema.UniqueDef{{Field: "name", Nullable: false}, {Field: "nick", Nullable: true}},
		SetIdx: []string{"roles"},
		FKs: []schema.FKDef{
			{Field: "dept", Target: Depts, Kind: cfg.DeptFK, BackRef: "members"},
			{Field: "boss", Target: Emps, Kind: schema.FkConstraint, Nullable: cfg.BossNullable, Cascade: cfg.BossCascade},
		},
		Links: []schema.LinkDef{
			{Field: "watching", Target: Depts, TargetField: "watchers"},
			{Field: "credits", Target: Depts, TargetField: "creditors", RefCounted: true},
		},
	}
	depts.Links = []schema.LinkDef{
		{Field: "watchers", Target: Emps, TargetField: "watching"},
		{Field: "creditors", Target: Emps, TargetField: "credits", RefCounted: true},
	}
	if ApiNames {
		for i := range emps.Fields {
			if api, ok := map[string]string{"name": "displayName", "roles": "roleAttributes", "dept": "department", "nick": "alias"}[emps.Fields[i].Name]; ok {
				emps.Fields[i].ApiName = api
			}
		}
	}
	defs := []*schema.StoreDef{depts, emps}
	if cfg.Children {
		defs = append(defs,
			&schema.StoreDef{Type: Emps, Parent: Emps, ChildPath: []string{"ext"},
				Fields: []schema.Field{{Name: "lead", Kind: schema.KBool}, {Name: "level", Kind: schema.KI64}}},
			&schema.StoreDef{Type: Emps, Parent: Emps, ChildPath: []string{"xt"}, Extended: true,
				Fields: []schema.Field{{Name: "agency", Kind: schema.KStr}}},
		)
	}
	return defs
}
