package kmodel

import (
	"sort"

	"github.com/openziti/storage/boltz"
	"verif/harness/internal/schema"
)

// Expectation classes.
const (
	ExpOK        = "ok"
	ExpDup       = "dup"       // UniqueIndexDuplicateError
	ExpNotFound  = "notfound"  // RecordNotFoundError
	ExpRefExists = "refexists" // ReferenceExistsError
	ExpReject    = "reject"    // any error
)

// MEnt is the model's view of an entity (parent fields + per-child-store data).
type MEnt struct {
	Id    string
	V     map[string]any            // own persisted fields of the root store
	Child map[string]map[string]any // child store key -> child fields (presence = has child data)
}

func (e *MEnt) clone() *MEnt {
	c := &MEnt{Id: e.Id, V: map[string]any{}, Child: map[string]map[string]any{}}
	for k, v := range e.V {
		c.V[k] = schema.CloneVal(v)
	}
	for k, m := range e.Child {
		cm := map[string]any{}
		for f, v := range m {
			cm[f] = schema.CloneVal(v)
		}
		c.Child[k] = cm
	}
	return c
}

type pair struct{ A, B string } // A: emp id, B: dept id

type Model struct {
	Cfg   Config
	Defs  map[string]*schema.StoreDef
	Ents  map[string]map[string]*MEnt // root store type -> id -> entity
	Watch map[pair]bool               // emps.watching <-> depts.watchers
	Cred  map[pair]int                // emps.credits <-> depts.creditors (ref counted)
	// LastDeleted lists "type\x00id" of every entity removed by the most recent accepted Delete (cascade closure).
	LastDeleted []string
	// Upgrade: a create through a child store over an entity that exists without data in that child store is judged:
	// the parent's fields are overwritten by the payload (validated like an update) and the child data is added.
	Upgrade bool
	// UpgradePlainOnly restricts Upgrade to entities without any child data (the entity then has exactly one child part).
	UpgradePlainOnly bool
}

func NewModel(cfg Config) *Model {
	m := &Model{Cfg: cfg, Defs: map[string]*schema.StoreDef{}, Ents: map[string]map[string]*MEnt{Depts: {}, Emps: {}},
		Watch: map[pair]bool{}, Cred: map[pair]int{}}
	for _, d := range Defs(cfg) {
		if d.Parent == "" {
			m.Defs[d.Type] = d
		} else {
			m.Defs[d.Type+"/"+d.ChildPath[0]] = d
		}
	}
	return m
}

func (m *Model) Clone() *Model {
	c := &Model{Cfg: m.Cfg, Defs: m.Defs, Upgrade: m.Upgrade, UpgradePlainOnly: m.UpgradePlainOnly, Ents: map[string]map[string]*MEnt{}, Watch: map[pair]bool{}, Cred: map[pair]int{}}
	for t, es := range m.Ents {
		c.Ents[t] = map[string]*MEnt{}
		for id, e := range es {
			c.Ents[t][id] = e.clone()
		}
	}
	for k, v := range m.Watch {
		c.Watch[k] = v
	}
	for k, v := range m.Cred {
		c.Cred[k] = v
	}
	return c
}

func rootOf(store string) string {
	if store == Mgrs || store == Ctrs {
		return Emps
	}
	return store
}

func isChild(store string) bool { return store == Mgrs || store == Ctrs }

func strVal(v any) (string, bool) {
	s, ok := v.(string)
	return s, ok && s != ""
}

// Result of predicting an operation.
type Pred struct {
	Exp       string
	Ambiguous bool // several independent reasons / order dependent: only accept-vs-reject is judged
	Skip      bool // do not execute (outside what the statements define)
	Why       string
	Cycle     bool // an accepted delete whose cascade closure holds a reference cycle or a self reference
}

func ok() Pred                 { return Pred{Exp: ExpOK} }
func rej(exp, why string) Pred { return Pred{Exp: exp, Why: why} }

// validateFields checks the root-store field values of e (full state after the write).
// other = entities of the same root store excluding e itself.
func (m *Model) validateEmp(id string, v map[string]any, old *MEnt, self *MEnt) []Pred {
	var errs []Pred
	es := m.Ents[Emps]
	// required string (only when written; the caller passes final state, title unchanged on patch is still non-empty or was rejected earlier)
	if t, _ := v["title"].(string); t == "" {
		errs = append(errs, rej(ExpReject, "title required"))
	}
	for _, u := range m.Defs[Emps].Unique {
		val, has := strVal(v[u.Field])
		var oldVal string
		if old != nil {
			oldVal, _ = strVal(old.V[u.Field])
		}
		_ = oldVal
		if old != nil && rawBytesEqual(old.V[u.Field], v[u.Field]) {
			continue
		}
		if !has {
			if !u.Nullable {
				errs = append(errs, rej(ExpReject, u.Field+" empty in non-nullable unique index"))
			}
			continue
		}
		if len(val) > 32768 {
			errs = append(errs, rej(ExpReject, u.Field+" too large to be an index key"))
			continue
		}
		for oid, o := range es {
			if oid == id {
				continue
			}
			if ov, ok := strVal(o.V[u.Field]); ok && ov == val {
				errs = append(errs, rej(ExpDup, u.Field+" duplicate "+val))
			}
		}
	}
	// set index: empty element is an unusable bucket name
	if roles, _ := v["roles"].([]string); true {
		changed := old == nil || !sameSet(old.V["roles"], v["roles"])
		if changed {
			for _, r := range roles {
				if r == "" {
					errs = append(errs, rej(ExpReject, "empty role element"))
					break
				}
				if len(r) > 32767 {
					errs = append(errs, rej(ExpReject, "role element too large to be a key"))
					break
				}
			}
		}
	}
	// dept fk
	{
		val, has := strVal(v["dept"])
		unchanged := old != nil && rawBytesEqual(old.V["dept"], v["dept"])
		if !unchanged {
			if has {
				if _, ok := m.Ents[Depts][val]; !ok {
					errs = append(errs, rej(ExpNotFound, "dept target missing"))
				}
			} else if m.Cfg.DeptFK != schema.FkIndexNullable {
				errs = append(errs, rej(ExpReject, "dept null in non-nullable fk index"))
			}
		}
	}
	// boss fk constraint
	{
		val, has := strVal(v["boss"])
		unchanged := old != nil && rawBytesEqual(old.V["boss"], v["boss"])
		if !unchanged {
			if has {
				_, exists := es[val]
				if val == id {
					exists = true // own bucket exists while the constraint runs
				}
				if !exists {
					errs = append(errs, rej(ExpNotFound, "boss target missing"))
				}
			} else if !m.Cfg.BossNullable {
				errs = append(errs, rej(ExpReject, "boss null in non-nullable fk constraint"))
			}
		}
	}
	return errs
}

func sameNil(a, b any) bool { return (a == nil) == (b == nil) }

// rawBytesEqual mirrors bytes.Equal on the stored value bytes: null and "" both have empty value bytes.
func rawBytesEqual(a, b any) bool {
	as, _ := a.(string)
	bs, _ := b.(string)
	return as == bs
}

func sameSet(a, b any) bool {
	as, _ := a.([]string)
	bs, _ := b.([]string)
	x, y := NormSet(as), NormSet(bs)
	if len(x) != len(y) {
		return false
	}
	for i := range x {
		if x[i] != y[i] {
			return false
		}
	}
	return true
}

func NormSet(xs []string) []string {
	m := map[string]bool{}
	for _, x := range xs {
		m[x] = true
	}
	out := make([]string, 0, len(m))
	for x := range m {
		out = append(out, x)
	}
	sort.Strings(out)
	return out
}

func (m *Model) validateDept(id string, v map[string]any, old *MEnt) []Pred {
	var errs []Pred
	val, has := strVal(v["name"])
	if old != nil && rawBytesEqual(old.V["name"], v["name"]) {
		return nil
	}
	if has {
		for oid, o := range m.Ents[Depts] {
			if oid == id {
				continue
			}
			if ov, ok := strVal(o.V["name"]); ok && ov == val {
				errs = append(errs, rej(ExpDup, "dept name duplicate"))
			}
		}
	}
	return errs
}

func combine(errs []Pred) Pred {
	if len(errs) == 0 {
		return ok()
	}
	if len(errs) == 1 {
		return errs[0]
	}
	p := errs[0]
	p.Ambiguous = true
	p.Exp = ExpReject
	for _, e := range errs[1:] {
		p.Why += "; " + e.Why
	}
	return p
}

func rootFields(def *schema.StoreDef) []schema.Field {
	var out []schema.Field
	for _, f := range def.Fields {
		if !f.Derived {
			out = append(out, f)
		}
	}
	return out
}

// Create predicts and (if accepted) applies a create through the given store.
// v holds root fields, cv the child fields (child stores only).
func (m *Model) Create(store, id string, v map[string]any, cv map[string]any) Pred {
	root := rootOf(store)
	if id == "" {
		return rej(ExpReject, "blank id")
	}
	if existing, exists := m.Ents[root][id]; exists {
		if isChild(store) {
			if _, hasChild := existing.Child[store]; hasChild {
				return rej(ExpReject, "already exists")
			}
			if !m.Upgrade || (m.UpgradePlainOnly && len(existing.Child) > 0) {
				return Pred{Skip: true, Why: "create through child over an existing plain parent is not defined"}
			}
			full := map[string]any{}
			for _, f := range rootFields(m.Defs[root]) {
				full[f.Name] = schema.CloneVal(v[f.Name])
			}
			if p := combine(m.validateEmp(id, full, existing, existing)); p.Exp != ExpOK {
				return p
			}
			existing.V = full
			c := map[string]any{}
			for _, f := range m.Defs[store].Fields {
				c[f.Name] = schema.CloneVal(cv[f.Name])
			}
			existing.Child[store] = c
			return ok()
		}
		return rej(ExpReject, "already exists")
	}
	full := map[string]any{}
	for _, f := range rootFields(m.Defs[root]) {
		full[f.Name] = schema.CloneVal(v[f.Name])
	}
	var errs []Pred
	if root == Emps {
		errs = m.validateEmp(id, full, nil, nil)
	} else {
		errs = m.validateDept(id, full, nil)
	}
	p := combine(errs)
	if p.Exp != ExpOK {
		return p
	}
	e := &MEnt{Id: id, V: full, Child: map[string]map[string]any{}}
	if isChild(store) {
		c := map[string]any{}
		for _, f := range m.Defs[store].Fields {
			c[f.Name] = schema.CloneVal(cv[f.Name])
		}
		e.Child[store] = c
	}
	m.Ents[root][id] = e
	return ok()
}

// Update predicts and applies an update through the given store; fields == nil means full update.
func (m *Model) Update(store, id string, v map[string]any, cv map[string]any, fields []string) Pred {
	root := rootOf(store)
	if id == "" {
		return rej(ExpReject, "blank id")
	}
	old, exists := m.Ents[root][id]
	if !exists {
		return rej(ExpNotFound, "no such entity")
	}
	if isChild(store) {
		if _, has := old.Child[store]; !has {
			if store == Ctrs {
				// extended store: the entity is visible, but has no child bucket to update
				return rej(ExpNotFound, "extended child store entity without child data")
			}
			return rej(ExpNotFound, "no child data")
		}
	}
	sel := func(name string) bool {
		if fields == nil {
			return true
		}
		for _, f := range fields {
			if f == name {
				return true
			}
		}
		return false
	}
	full := map[string]any{}
	for _, f := range rootFields(m.Defs[root]) {
		if sel(f.Name) {
			full[f.Name] = schema.CloneVal(v[f.Name])
		} else {
			full[f.Name] = schema.CloneVal(old.V[f.Name])
		}
	}
	var errs []Pred
	if root == Emps {
		// a required string is only checked when it is written
		errs = m.validateEmp(id, full, old, old)
		if !sel("title") {
			errs = dropWhy(errs, "title required")
		}
	} else {
		errs = m.validateDept(id, full, old)
	}
	p := combine(errs)
	if p.Exp != ExpOK {
		return p
	}
	old.V = full
	// child fields: an update through the parent store of an entity with (plain) child data is routed to the
	// child store with the loaded child values, so they stay; through the child store they are written.
	if isChild(store) {
		c := old.Child[store]
		for _, f := range m.Defs[store].Fields {
			if sel(f.Name) {
				c[f.Name] = schema.CloneVal(cv[f.Name])
			}
		}
	}
	return ok()
}

func dropWhy(errs []Pred, why string) []Pred {
	var out []Pred
	for _, e := range errs {
		if e.Why != why {
			out = append(out, e)
		}
	}
	return out
}

// referrers of a dept / emp
func (m *Model) empsWithDept(d string) []string {
	var out []string
	for id, e := range m.Ents[Emps] {
		if v, ok := strVal(e.V["dept"]); ok && v == d {
			out = append(out, id)
		}
	}
	sort.Strings(out)
	return out
}

func (m *Model) empsWithBoss(b string) []string {
	var out []string
	for id, e := range m.Ents[Emps] {
		if v, ok := strVal(e.V["boss"]); ok && v == b {
			out = append(out, id)
		}
	}
	sort.Strings(out)
	return out
}

// Delete predicts and applies a delete (through any store of the root).
func (m *Model) Delete(store, id string) Pred {
	root := rootOf(store)
	ent, exists := m.Ents[root][id]
	if !exists {
		return rej(ExpNotFound, "no such entity")
	}
	if store == Mgrs {
		if _, has := ent.Child[Mgrs]; !has {
			return Pred{Skip: true, Why: "delete of a plain parent through a non-extended child store is not defined"}
		}
	}
	// cascade closure
	closure := map[string]bool{root + "\x00" + id: true}
	queue := []string{root + "\x00" + id}
	selfCycle := false
	for len(queue) > 0 {
		cur := queue[0]
		queue = queue[1:]
		var t, cid string
		for i := 0; i < len(cur); i++ {
			if cur[i] == 0 {
				t, cid = cur[:i], cur[i+1:]
				break
			}
		}
		if t == Depts && m.Cfg.DeptFK == schema.FkIndexCascade {
			for _, r := range m.empsWithDept(cid) {
				k := Emps + "\x00" + r
				if !closure[k] {
					closure[k] = true
					queue = append(queue, k)
				}
			}
		}
		if t == Emps && m.Cfg.BossCascade == boltz.CascadeDelete {
			for _, r := range m.empsWithBoss(cid) {
				k := Emps + "\x00" + r
				if closure[k] {
					selfCycle = true // a cascade edge leads back into the closure (cycle / self reference)
					continue
				}
				closure[k] = true
				queue = append(queue, k)
			}
		}
	}
	// a cascade edge which leads back into the closure (reference cycle, self reference) adds nothing to it: the members
	// of the cycle are deleted like every other member
	// restrict edges
	restrictOutside, restrictInside := false, false
	for k := range closure {
		var t, cid string
		for i := 0; i < len(k); i++ {
			if k[i] == 0 {
				t, cid = k[:i], k[i+1:]
				break
			}
		}
		var refs []string
		if t == Depts && (m.Cfg.DeptFK == schema.FkIndex || m.Cfg.DeptFK == schema.FkIndexNullable) {
			refs = m.empsWithDept(cid)
		}
		if t == Emps && m.Cfg.BossCascade == boltz.CascadeNone {
			refs = append(refs, m.empsWithBoss(cid)...)
		}
		for _, r := range refs {
			if t == Emps && r == cid {
				restrictOutside = true // self reference under restrict: always refused
			} else if closure[Emps+"\x00"+r] {
				restrictInside = true
			} else {
				restrictOutside = true
			}
		}
	}
	if restrictOutside {
		p := rej(ExpRefExists, "referenced (restrict)")
		if restrictInside {
			p.Ambiguous = true
		}
		return p
	}
	if restrictInside {
		return Pred{Skip: true, Why: "restrict edge inside the cascade closure: outcome depends on constraint order"}
	}
	m.LastDeleted = nil
	for k := range closure {
		m.LastDeleted = append(m.LastDeleted, k)
		for i := 0; i < len(k); i++ {
			if k[i] == 0 {
				m.remove(k[:i], k[i+1:])
				break
			}
		}
	}
	sort.Strings(m.LastDeleted)
	return Pred{Exp: ExpOK, Cycle: selfCycle}
}

func (m *Model) remove(t, id string) {
	delete(m.Ents[t], id)
	for p := range m.Watch {
		if (t == Emps && p.A == id) || (t == Depts && p.B == id) {
			delete(m.Watch, p)
		}
	}
	for p := range m.Cred {
		if (t == Emps && p.A == id) || (t == Depts && p.B == id) {
			delete(m.Cred, p)
		}
	}
}

// ---- links ----

func (m *Model) pairOf(store, id, other string) (pair, string, string) {
	if store == Emps {
		return pair{id, other}, Emps, Depts
	}
	return pair{other, id}, Depts, Emps
}

func (m *Model) has(t, id string) bool { _, ok := m.Ents[t][id]; return ok }

func (m *Model) LinksOf(store, id string) []string {
	var out []string
	for p := range m.Watch {
		if store == Emps && p.A == id {
			out = append(out, p.B)
		}
		if store == Depts && p.B == id {
			out = append(out, p.A)
		}
	}
	sort.Strings(out)
	return out
}

func (m *Model) CredOf(store, id string) map[string]int {
	out := map[string]int{}
	for p, n := range m.Cred {
		if store == Emps && p.A == id {
			out[p.B] = n
		}
		if store == Depts && p.B == id {
			out[p.A] = n
		}
	}
	return out
}

// AddLinks (AddLinks / AddLink): all-or-error; on error the transaction is aborted by the caller.
func (m *Model) AddLinks(store, id string, others []string) Pred {
	_, t, ot := m.pairOf(store, id, "")
	if !m.has(t, id) {
		return rej(ExpReject, "source missing")
	}
	for _, o := range others {
		if !m.has(ot, o) {
			return rej(ExpNotFound, "link target missing")
		}
	}
	for _, o := range others {
		p, _, _ := m.pairOf(store, id, o)
		m.Watch[p] = true
	}
	return ok()
}

func (m *Model) RemoveLinks(store, id string, others []string) Pred {
	_, t, _ := m.pairOf(store, id, "")
	if !m.has(t, id) {
		return rej(ExpReject, "source missing")
	}
	for _, o := range others {
		p, _, _ := m.pairOf(store, id, o)
		delete(m.Watch, p)
	}
	return ok()
}

func (m *Model) SetLinks(store, id string, others []string) Pred {
	_, t, ot := m.pairOf(store, id, "")
	if !m.has(t, id) {
		return rej(ExpReject, "source missing")
	}
	cur := map[string]bool{}
	for _, o := range m.LinksOf(store, id) {
		cur[o] = true
	}
	for _, o := range others {
		if !cur[o] && !m.has(ot, o) {
			return rej(ExpNotFound, "link target missing")
		}
	}
	for o := range cur {
		p, _, _ := m.pairOf(store, id, o)
		delete(m.Watch, p)
	}
	for _, o := range others {
		p, _, _ := m.pairOf(store, id, o)
		m.Watch[p] = true
	}
	return ok()
}

// Ref-counted operations. delta: +1 increment, -1 decrement; set>=0 with useSet.
func (m *Model) RcIncrement(store, id, other string) (Pred, int) {
	p, t, ot := m.pairOf(store, id, other)
	if !m.has(t, id) {
		return rej(ExpReject, "source missing"), 0
	}
	if !m.has(ot, other) {
		return rej(ExpNotFound, "target missing"), 0
	}
	m.Cred[p]++
	return ok(), m.Cred[p]
}

func (m *Model) RcDecrement(store, id, other string) (Pred, int) {
	p, t, _ := m.pairOf(store, id, other)
	if !m.has(t, id) {
		return rej(ExpReject, "source missing"), 0
	}
	n, present := m.Cred[p]
	if !present {
		return ok(), -1
	}
	n--
	if n <= 0 {
		delete(m.Cred, p)
	} else {
		m.Cred[p] = n
	}
	return ok(), n
}

func (m *Model) RcSet(store, id, other string, count int) Pred {
	p, t, ot := m.pairOf(store, id, other)
	if !m.has(t, id) {
		return rej(ExpReject, "source missing")
	}
	if !m.has(ot, other) {
		return rej(ExpNotFound, "target missing")
	}
	if count <= 0 {
		delete(m.Cred, p)
	} else {
		m.Cred[p] = count
	}
	return ok()
}

// exported helpers for checks

func RootOf(store string) string { return rootOf(store) }

func (m *Model) EmpsWithDept(d string) []string { return m.empsWithDept(d) }
func (m *Model) EmpsWithBoss(b string) []string { return m.empsWithBoss(b) }

// DeleteWhere mirrors Store.DeleteWhere for a single-field equality filter: the matching ids are computed up
// front (ascending id order, only entities visible through the store) and deleted one by one; the first failure
// ends it. An id that an earlier cascade already removed fails with not-found, as in the implementation.
func (m *Model) DeleteWhere(store string, cond map[string]any) Pred {
	var ids []string
	for id, e := range m.Ents[Emps] {
		if store == Mgrs {
			if _, has := e.Child[Mgrs]; !has {
				continue
			}
		}
		match := true
		for k, v := range cond {
			if e.V[k] != v {
				match = false
			}
		}
		if match {
			ids = append(ids, id)
		}
	}
	sort.Strings(ids)
	// all or nothing: a failure part-way leaves the model untouched (the transaction is rolled back)
	work := m.Clone()
	var all []string
	for _, id := range ids {
		p := work.Delete(store, id)
		if p.Skip || p.Exp != ExpOK {
			return p
		}
		all = append(all, work.LastDeleted...)
	}
	*m = *work
	m.LastDeleted = all
	return ok()
}
