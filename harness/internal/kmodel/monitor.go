package kmodel

import (
	"bytes"
	"fmt"
	"reflect"
	"sort"
	"time"

	"github.com/openziti/storage/boltz"
	"go.etcd.io/bbolt"
	"verif/harness/internal/schema"
)

// Disc is one discrepancy between the database and what the entity state implies.
type Disc struct {
	Kind   string // entity-set, entity-field, child-presence, unique-index, set-index, fk-backref, fk-dangling, link, rc-link, api-*
	Store  string
	Symbol string
	Key    string
	Id     string
	Exp    string
	Act    string
}

func (d Disc) String() string {
	return fmt.Sprintf("%s %s.%s key=%q id=%q expected=%s actual=%s", d.Kind, d.Store, d.Symbol, d.Key, d.Id, d.Exp, d.Act)
}

// Class is the stable part used in violation keys.
func (d Disc) Class() string { return d.Kind + " " + d.Store + "." + d.Symbol }

func rawTypedKeys(b *bbolt.Bucket) ([]string, []string) {
	var out, bad []string
	if b == nil {
		return nil, nil
	}
	c := b.Cursor()
	for k, _ := c.First(); k != nil; k, _ = c.Next() {
		if len(k) == 0 || k[0] != byte(boltz.TypeString) {
			bad = append(bad, fmt.Sprintf("%q", k))
			continue
		}
		out = append(out, string(k[1:]))
	}
	return out, bad
}

func eqStrs(a, b []string) bool {
	if len(a) != len(b) {
		return false
	}
	for i := range a {
		if a[i] != b[i] {
			return false
		}
	}
	return true
}

func valEq(a, b any) bool {
	if ta, ok := a.(time.Time); ok {
		tb, ok2 := b.(time.Time)
		return ok2 && ta.Equal(tb)
	}
	if la, ok := a.([]string); ok {
		lb, _ := b.([]string)
		return eqStrs(NormSet(la), NormSet(lb))
	}
	if lb, ok := b.([]string); ok {
		la, _ := a.([]string)
		return eqStrs(NormSet(la), NormSet(lb))
	}
	return reflect.DeepEqual(a, b)
}

func entityBucket(tx *bbolt.Tx, t, id string) *bbolt.Bucket {
	b := tx.Bucket([]byte("stores"))
	if b == nil {
		return nil
	}
	if b = b.Bucket([]byte(t)); b == nil {
		return nil
	}
	return b.Bucket([]byte(id))
}

func indexBucket(tx *bbolt.Tx, t, sym string) *bbolt.Bucket {
	b := tx.Bucket([]byte("stores"))
	for _, p := range []string{"indexes", t, sym} {
		if b == nil {
			return nil
		}
		b = b.Bucket([]byte(p))
	}
	return b
}

// Monitor recomputes every piece of redundant state from the model (which step 1 verifies to be
// equal to the entity buckets) and compares raw buckets and API reads. Runs inside one read tx.
func (e *Engine) Monitor(tx *bbolt.Tx) []Disc {
	var ds []Disc
	add := func(d Disc) {
		if len(ds) < 40 {
			ds = append(ds, d)
		}
	}
	m := e.M
	// 1. entities <-> model
	for _, root := range []string{Depts, Emps} {
		st := e.Sc.St(root)
		raw := st.RawIds(tx)
		var exp []string
		for id := range m.Ents[root] {
			exp = append(exp, id)
		}
		sort.Strings(exp)
		if !eqStrs(raw, exp) {
			add(Disc{Kind: "entity-set", Store: root, Exp: fmt.Sprintf("%q", exp), Act: fmt.Sprintf("%q", raw)})
		}
		for _, id := range exp {
			me := m.Ents[root][id]
			en, found, err := st.Store.FindById(tx, id)
			if err != nil || !found {
				add(Disc{Kind: "entity-load", Store: root, Id: id, Exp: "found", Act: fmt.Sprintf("found=%v err=%v", found, err)})
				continue
			}
			for _, f := range rootFields(st.Def) {
				if !valEq(me.V[f.Name], en.V[f.Name]) {
					add(Disc{Kind: "entity-field", Store: root, Symbol: f.Name, Id: id, Exp: fmt.Sprintf("%#v", me.V[f.Name]), Act: fmt.Sprintf("%#v", en.V[f.Name])})
				}
			}
			if _, err := st.Store.LoadById(tx, id); err != nil {
				add(Disc{Kind: "entity-load", Store: root, Id: id, Exp: "LoadById ok", Act: err.Error()})
			}
			// the third lookup: LoadEntity fills an entity the caller supplies
			le := st.Store.GetEntityStrategy().NewEntity()
			if lfound, lerr := st.Store.LoadEntity(tx, id, le); lerr != nil || !lfound || le.GetId() != id {
				add(Disc{Kind: "entity-load", Store: root, Id: id, Symbol: "LoadEntity", Exp: "found", Act: fmt.Sprintf("found=%v err=%v id=%q", lfound, lerr, le.GetId())})
			} else {
				for _, f := range rootFields(st.Def) {
					if !valEq(me.V[f.Name], le.V[f.Name]) {
						add(Disc{Kind: "entity-field", Store: root, Symbol: f.Name + " (LoadEntity)", Id: id, Exp: fmt.Sprintf("%#v", me.V[f.Name]), Act: fmt.Sprintf("%#v", le.V[f.Name])})
					}
				}
			}
			if root == Emps && e.Cfg.Children {
				for _, ck := range []string{Mgrs, Ctrs} {
					cst := e.Sc.St(ck)
					_, has := me.Child[ck]
					rawHas := cst.Store.GetEntityBucket(tx, []byte(id)) != nil
					if has != rawHas {
						add(Disc{Kind: "child-presence", Store: ck, Id: id, Exp: fmt.Sprint(has), Act: fmt.Sprint(rawHas)})
					}
					visible := has || ck == Ctrs
					ce, cfound, cerr := cst.Store.FindById(tx, id)
					if cerr != nil || cfound != visible {
						add(Disc{Kind: "child-visibility", Store: ck, Id: id, Exp: fmt.Sprint(visible), Act: fmt.Sprintf("found=%v err=%v", cfound, cerr)})
					}
					_, lerr := cst.Store.LoadById(tx, id)
					if (lerr == nil) != visible {
						add(Disc{Kind: "child-visibility", Store: ck, Symbol: "LoadById", Id: id, Exp: fmt.Sprint(visible), Act: fmt.Sprint(lerr)})
					}
					cle := cst.Store.GetEntityStrategy().NewEntity()
					if lfound, lerr := cst.Store.LoadEntity(tx, id, cle); lerr != nil || lfound != visible {
						add(Disc{Kind: "child-visibility", Store: ck, Symbol: "LoadEntity", Id: id, Exp: fmt.Sprint(visible), Act: fmt.Sprintf("found=%v err=%v", lfound, lerr)})
					} else if lfound && has {
						for _, f := range cst.Def.Fields {
							if !valEq(me.Child[ck][f.Name], cle.V[f.Name]) {
								add(Disc{Kind: "child-field", Store: ck, Symbol: f.Name + " (LoadEntity)", Id: id, Exp: fmt.Sprintf("%#v", me.Child[ck][f.Name]), Act: fmt.Sprintf("%#v", cle.V[f.Name])})
							}
						}
					}
					if cfound && ce != nil {
						for _, f := range rootFields(st.Def) {
							if !valEq(me.V[f.Name], ce.V[f.Name]) {
								add(Disc{Kind: "child-shared-field", Store: ck, Symbol: f.Name, Id: id, Exp: fmt.Sprintf("%#v", me.V[f.Name]), Act: fmt.Sprintf("%#v", ce.V[f.Name])})
							}
						}
						if has {
							for _, f := range cst.Def.Fields {
								if !valEq(me.Child[ck][f.Name], ce.V[f.Name]) {
									add(Disc{Kind: "child-field", Store: ck, Symbol: f.Name, Id: id, Exp: fmt.Sprintf("%#v", me.Child[ck][f.Name]), Act: fmt.Sprintf("%#v", ce.V[f.Name])})
								}
							}
						}
					}
				}
			}
		}
		// absent ids are absent through every store
		pool := e.DeptPool
		if root == Emps {
			pool = e.EmpPool
		}
		for _, id := range pool {
			if _, ok := m.Ents[root][id]; ok {
				continue
			}
			if _, found, _ := st.Store.FindById(tx, id); found {
				add(Disc{Kind: "entity-set", Store: root, Id: id, Exp: "absent", Act: "FindById found"})
			}
			if found, _ := st.Store.LoadEntity(tx, id, st.Store.GetEntityStrategy().NewEntity()); found {
				add(Disc{Kind: "entity-set", Store: root, Id: id, Exp: "absent", Act: "LoadEntity found"})
			}
			if _, err := st.Store.LoadById(tx, id); err == nil || !boltz.IsErrNotFoundErr(err) {
				add(Disc{Kind: "entity-set", Store: root, Id: id, Exp: "LoadById: not found error", Act: fmt.Sprint(err)})
			}
			if root == Emps && e.Cfg.Children {
				for _, ck := range []string{Mgrs, Ctrs} {
					if _, found, _ := e.Sc.St(ck).Store.FindById(tx, id); found {
						add(Disc{Kind: "child-visibility", Store: ck, Id: id, Exp: "absent", Act: "FindById found"})
					}
				}
			}
		}
	}
	// 2. unique indexes
	for _, root := range []string{Depts, Emps} {
		st := e.Sc.St(root)
		for _, u := range st.Def.Unique {
			exp := map[string]string{}
			for id, me := range m.Ents[root] {
				if v, ok := strVal(me.V[u.Field]); ok {
					if prev, dup := exp[v]; dup {
						add(Disc{Kind: "unique-violated", Store: root, Symbol: u.Field, Key: v, Id: id, Exp: "one holder", Act: prev + " and " + id})
					}
					exp[v] = id
				}
			}
			act := map[string]string{}
			if b := indexBucket(tx, root, u.Field); b != nil {
				c := b.Cursor()
				for k, v := c.First(); k != nil; k, v = c.Next() {
					if v == nil && b.Bucket(k) != nil {
						add(Disc{Kind: "unique-index", Store: root, Symbol: u.Field, Key: string(k), Exp: "value entry", Act: "bucket"})
						continue
					}
					act[string(k)] = string(v)
				}
			} else {
				add(Disc{Kind: "unique-index", Store: root, Symbol: u.Field, Exp: "index bucket", Act: "missing"})
			}
			for v, id := range exp {
				if act[v] != id {
					a, present := act[v]
					if !present {
						a = "<missing>"
					}
					add(Disc{Kind: "unique-index", Store: root, Symbol: u.Field, Key: v, Id: id, Exp: id, Act: a})
				}
				if got := st.Unique[u.Field].Read(tx, []byte(v)); string(got) != id {
					add(Disc{Kind: "api-unique-read", Store: root, Symbol: u.Field, Key: v, Id: id, Exp: id, Act: string(got)})
				}
			}
			for v, id := range act {
				if _, ok := exp[v]; !ok {
					add(Disc{Kind: "unique-index", Store: root, Symbol: u.Field, Key: v, Id: id, Exp: "<no entry>", Act: id})
				}
			}
			for _, v := range append(append([]string{}, NamePool...), NickPool...) {
				if _, ok := exp[v]; !ok {
					if got := st.Unique[u.Field].Read(tx, []byte(v)); got != nil {
						add(Disc{Kind: "api-unique-read", Store: root, Symbol: u.Field, Key: v, Exp: "nil", Act: string(got)})
					}
				}
			}
		}
	}
	// 3. set index on emps.roles
	{
		st := e.Sc.St(Emps)
		exp := map[string][]string{}
		for id, me := range m.Ents[Emps] {
			roles, _ := me.V["roles"].([]string)
			for _, r := range NormSet(roles) {
				exp[r] = append(exp[r], id)
			}
		}
		for _, ids := range exp {
			sort.Strings(ids)
		}
		act := map[string][]string{}
		if b := indexBucket(tx, Emps, "roles"); b != nil {
			c := b.Cursor()
			for k, v := c.First(); k != nil; k, v = c.Next() {
				vb := b.Bucket(k)
				if vb == nil {
					add(Disc{Kind: "set-index", Store: Emps, Symbol: "roles", Key: string(k), Exp: "value bucket", Act: fmt.Sprintf("plain key with value %q", v)})
					continue
				}
				ids, bad := rawTypedKeys(vb)
				if len(bad) > 0 {
					add(Disc{Kind: "set-index", Store: Emps, Symbol: "roles", Key: string(k), Exp: "string-typed ids", Act: fmt.Sprint(bad)})
				}
				if len(ids) == 0 {
					add(Disc{Kind: "set-index-empty-key", Store: Emps, Symbol: "roles", Key: string(k), Exp: "no empty value bucket", Act: "empty bucket"})
				}
				act[string(k)] = ids
			}
		} else {
			add(Disc{Kind: "set-index", Store: Emps, Symbol: "roles", Exp: "index bucket", Act: "missing"})
		}
		for r, ids := range exp {
			if !eqStrs(act[r], ids) {
				add(Disc{Kind: "set-index", Store: Emps, Symbol: "roles", Key: r, Exp: fmt.Sprintf("%q", ids), Act: fmt.Sprintf("%q", act[r])})
			}
			var got []string
			st.SetIdx["roles"].Read(tx, []byte(r), func(val []byte) { got = append(got, string(val)) })
			if !eqStrs(got, ids) {
				add(Disc{Kind: "api-setindex-read", Store: Emps, Symbol: "roles", Key: r, Exp: fmt.Sprintf("%q", ids), Act: fmt.Sprintf("%q", got)})
			}
		}
		for r, ids := range act {
			if _, ok := exp[r]; !ok && len(ids) > 0 {
				add(Disc{Kind: "set-index", Store: Emps, Symbol: "roles", Key: r, Exp: "<no entry>", Act: fmt.Sprintf("%q", ids)})
			}
		}
		var keys, expKeys []string
		st.SetIdx["roles"].ReadKeys(tx, func(val []byte) { keys = append(keys, string(val)) })
		for r := range exp {
			expKeys = append(expKeys, r)
		}
		sort.Strings(expKeys)
		if !eqStrs(keys, expKeys) {
			add(Disc{Kind: "api-setindex-keys", Store: Emps, Symbol: "roles", Exp: fmt.Sprintf("%q", expKeys), Act: fmt.Sprintf("%q", keys)})
		}
	}
	// 4. fk back references (dept -> members) and dangling references
	{
		dst := e.Sc.St(Depts)
		for d := range m.Ents[Depts] {
			exp := m.empsWithDept(d)
			var act []string
			if eb := entityBucket(tx, Depts, d); eb != nil {
				var bad []string
				act, bad = rawTypedKeys(eb.Bucket([]byte("members")))
				if len(bad) > 0 {
					add(Disc{Kind: "fk-backref", Store: Depts, Symbol: "members", Id: d, Exp: "string-typed ids", Act: fmt.Sprint(bad)})
				}
			}
			if !eqStrs(act, exp) {
				add(Disc{Kind: "fk-backref", Store: Depts, Symbol: "members", Id: d, Exp: fmt.Sprintf("%q", exp), Act: fmt.Sprintf("%q", act)})
			}
			got := dst.Store.GetRelatedEntitiesIdList(tx, d, "members")
			if !eqStrs(got, exp) {
				add(Disc{Kind: "api-related-list", Store: Depts, Symbol: "members", Id: d, Exp: fmt.Sprintf("%q", exp), Act: fmt.Sprintf("%q", got)})
			}
			for _, eid := range e.EmpPool {
				want := false
				for _, x := range exp {
					if x == eid {
						want = true
					}
				}
				if dst.Store.IsEntityRelated(tx, d, "members", eid) != want {
					add(Disc{Kind: "api-is-related", Store: Depts, Symbol: "members", Id: d, Key: eid, Exp: fmt.Sprint(want), Act: fmt.Sprint(!want)})
				}
			}
		}
		for id, me := range m.Ents[Emps] {
			if v, ok := strVal(me.V["dept"]); ok {
				if _, exists := m.Ents[Depts][v]; !exists {
					add(Disc{Kind: "fk-dangling", Store: Emps, Symbol: "dept", Id: id, Key: v, Exp: "target exists", Act: "missing"})
				}
			}
			if v, ok := strVal(me.V["boss"]); ok && e.Cfg.BossCascade != boltz.CascadeCreateUpdate {
				if _, exists := m.Ents[Emps][v]; !exists {
					add(Disc{Kind: "fk-dangling", Store: Emps, Symbol: "boss", Id: id, Key: v, Exp: "target exists", Act: "missing"})
				}
			}
		}
	}
	// 5. links
	{
		est, dst := e.Sc.St(Emps), e.Sc.St(Depts)
		side := func(st *schema.St, t, field string, ids map[string]*MEnt, rc bool) {
			for id := range ids {
				var act, bad []string
				var rawCounts = map[string][]byte{}
				if eb := entityBucket(tx, t, id); eb != nil {
					if lb := eb.Bucket([]byte(field)); lb != nil {
						act, bad = rawTypedKeys(lb)
						c := lb.Cursor()
						for k, v := c.First(); k != nil; k, v = c.Next() {
							if len(k) > 0 {
								rawCounts[string(k[1:])] = append([]byte{}, v...)
							}
						}
					}
				}
				if len(bad) > 0 {
					add(Disc{Kind: "link", Store: t, Symbol: field, Id: id, Exp: "string-typed ids", Act: fmt.Sprint(bad)})
				}
				if !rc {
					exp := m.LinksOf(t, id)
					if !eqStrs(act, exp) {
						add(Disc{Kind: "link", Store: t, Symbol: field, Id: id, Exp: fmt.Sprintf("%q", exp), Act: fmt.Sprintf("%q", act)})
					}
					got := st.Links[field].GetLinks(tx, id)
					if !eqStrs(got, exp) {
						add(Disc{Kind: "api-getlinks", Store: t, Symbol: field, Id: id, Exp: fmt.Sprintf("%q", exp), Act: fmt.Sprintf("%q", got)})
					}
					var it []string
					for c := st.Links[field].IterateLinks(tx, []byte(id)); c.IsValid(); c.Next() {
						it = append(it, string(c.Current()))
					}
					if !eqStrs(it, exp) {
						add(Disc{Kind: "api-iteratelinks", Store: t, Symbol: field, Id: id, Exp: fmt.Sprintf("%q", exp), Act: fmt.Sprintf("%q", it)})
					}
					opool := e.DeptPool
					if t == Depts {
						opool = e.EmpPool
					}
					for _, o := range opool {
						want := false
						for _, x := range exp {
							if x == o {
								want = true
							}
						}
						if st.Links[field].IsLinked(tx, []byte(id), []byte(o)) != want {
							add(Disc{Kind: "api-islinked", Store: t, Symbol: field, Id: id, Key: o, Exp: fmt.Sprint(want), Act: fmt.Sprint(!want)})
						}
					}
				} else {
					exp := m.CredOf(t, id)
					var expIds []string
					for o := range exp {
						expIds = append(expIds, o)
					}
					sort.Strings(expIds)
					if !eqStrs(act, expIds) {
						add(Disc{Kind: "rc-link", Store: t, Symbol: field, Id: id, Exp: fmt.Sprintf("%q", expIds), Act: fmt.Sprintf("%q", act)})
					}
					for o, n := range exp {
						want := boltz.Int32ToBytes(int32(n))
						if !bytes.Equal(rawCounts[o], want) {
							add(Disc{Kind: "rc-link-count", Store: t, Symbol: field, Id: id, Key: o, Exp: fmt.Sprint(n), Act: fmt.Sprintf("%v", rawCounts[o])})
						}
						a, b := st.RcLinks[field].GetLinkCounts(tx, []byte(id), []byte(o))
						if a == nil || b == nil || int(*a) != n || int(*b) != n {
							add(Disc{Kind: "api-linkcounts", Store: t, Symbol: field, Id: id, Key: o, Exp: fmt.Sprint(n), Act: fmt.Sprintf("%v/%v", derefI(a), derefI(b))})
						}
					}
					for o, raw := range rawCounts {
						if len(raw) == 5 && raw[0] == byte(boltz.TypeInt32) {
							if n := boltz.BytesToInt32(raw[1:]); n != nil && *n <= 0 {
								add(Disc{Kind: "rc-link-count", Store: t, Symbol: field, Id: id, Key: o, Exp: "positive", Act: fmt.Sprint(*n)})
							}
						}
					}
					var it []string
					for c := st.RcLinks[field].IterateLinks(tx, []byte(id), true); c.IsValid(); c.Next() {
						it = append(it, string(c.Current()))
					}
					if !eqStrs(it, expIds) {
						add(Disc{Kind: "api-rc-iteratelinks", Store: t, Symbol: field, Id: id, Exp: fmt.Sprintf("%q", expIds), Act: fmt.Sprintf("%q", it)})
					}
				}
			}
		}
		side(est, Emps, "watching", m.Ents[Emps], false)
		side(dst, Depts, "watchers", m.Ents[Depts], false)
		side(est, Emps, "credits", m.Ents[Emps], true)
		side(dst, Depts, "creditors", m.Ents[Depts], true)
	}
	return ds
}

func derefI(p *int32) string {
	if p == nil {
		return "nil"
	}
	return fmt.Sprint(*p)
}

// Check runs the monitor in a read transaction and reports discrepancies as violations.
func (e *Engine) Check(keyPrefix string, context any) []Disc {
	var ds []Disc
	_ = e.Db.View(func(tx *bbolt.Tx) error {
		ds = e.Monitor(tx)
		return nil
	})
	e.C.Count("monitor_runs", 1)
	for _, d := range ds {
		e.C.Violationf(keyPrefix+" monitor: "+d.Class(), context, "%s [cfg %s]", d.String(), e.Cfg)
	}
	return ds
}
