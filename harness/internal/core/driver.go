package core

import (
	"bufio"
	"encoding/json"
	"fmt"
	"os"
	"os/exec"
	"path/filepath"
	"sort"
	"strconv"
	"strings"
	"sync"
	"time"
)

type knownFinding struct {
	Prop string
	Key  string
	What string
}

func loadKnownFindings(path string) []knownFinding {
	f, err := os.Open(path)
	if err != nil {
		return nil
	}
	defer f.Close()
	var out []knownFinding
	sc := bufio.NewScanner(f)
	for sc.Scan() {
		line := strings.TrimSpace(sc.Text())
		if !strings.HasPrefix(line, "finding:") {
			continue // "fixed:" lines and comments suppress nothing
		}
		rest := strings.TrimSpace(strings.TrimPrefix(line, "finding:"))
		// finding: property=<id> key=<<key>> <what>
		var kf knownFinding
		if !strings.HasPrefix(rest, "property=") {
			continue
		}
		sp := strings.IndexByte(rest, ' ')
		if sp < 0 {
			continue
		}
		kf.Prop = strings.TrimPrefix(rest[:sp], "property=")
		rest = strings.TrimSpace(rest[sp:])
		if !strings.HasPrefix(rest, "key=<<") {
			continue
		}
		end := strings.Index(rest, ">>")
		if end < 0 {
			continue
		}
		kf.Key = rest[len("key=<<"):end]
		kf.What = strings.TrimSpace(rest[end+2:])
		out = append(out, kf)
	}
	return out
}

type Evidence struct {
	PropertyID  string         `json:"property_id"`
	Tier        string         `json:"tier"`
	Seed        int64          `json:"seed"`
	Level       string         `json:"level"`
	Coverage    map[string]any `json:"coverage"`
	Assumptions []string       `json:"assumptions"`
	WallS       float64        `json:"wall_s"`
	Violations  int            `json:"violations"`
	Verdict     string         `json:"verdict"`
}

// Drive plans the cases, runs the workers as child processes of the same binary
// and produces verdict, evidence and replay files. Returns the exit code.
func Drive(p *Property, tier Tier, seed int64, verifDir string, replay string) int {
	start := time.Now()
	self, _ := os.Executable()
	outDir := scratchDir(fmt.Sprintf("verif-drv-%s-%d", p.ID, os.Getpid()))
	defer os.RemoveAll(outDir)

	only := -1
	if replay != "" {
		b, err := os.ReadFile(replay)
		if err != nil {
			fmt.Printf("INCONCLUSIVE property=%s reason=cannot read replay %v\n", p.ID, err)
			return 2
		}
		var rp struct {
			Seed int64  `json:"seed"`
			Tier string `json:"tier"`
			Case int    `json:"case"`
		}
		if err := json.Unmarshal(b, &rp); err != nil {
			fmt.Printf("INCONCLUSIVE property=%s reason=bad replay file %v\n", p.ID, err)
			return 2
		}
		seed, tier, only = rp.Seed, Tier(rp.Tier), rp.Case
	}

	total := p.Plan(tier, seed)
	nw := 16
	if v, err := strconv.Atoi(os.Getenv("VERIF_WORKERS")); err == nil && v > 0 {
		nw = v
	}
	if p.MaxWorkers > 0 && nw > p.MaxWorkers {
		nw = p.MaxWorkers
	}
	if nw > total {
		nw = total
	}
	if only >= 0 {
		nw = 1
	}
	if nw < 1 {
		nw = 1
	}
	timeout := 600 // quick tiers take under a minute; a worker still running after ten has hung (inconclusive)
	if tier == Thorough {
		timeout = 7200
	}
	if p.WorkerTimeoutS != nil {
		timeout = p.WorkerTimeoutS(tier)
	}

	type wstat struct {
		err      error
		timedOut bool
	}
	stats := make([]wstat, nw)
	var wg sync.WaitGroup
	for w := 0; w < nw; w++ {
		wg.Add(1)
		go func(w int) {
			defer wg.Done()
			args := []string{"-prop", p.ID, "-tier", string(tier), "-seed", strconv.FormatInt(seed, 10),
				"-worker", strconv.Itoa(w), "-nworkers", strconv.Itoa(nw), "-out", outDir}
			if only >= 0 {
				args = append(args, "-only", strconv.Itoa(only))
			}
			cmd := exec.Command(self, args...)
			of, _ := os.Create(filepath.Join(outDir, fmt.Sprintf("worker-%d.out", w)))
			cmd.Stdout, cmd.Stderr = of, of
			cmd.Env = append(os.Environ(), "GORACE=halt_on_error=0 exitcode=0 log_path="+filepath.Join(outDir, fmt.Sprintf("race-%d", w)))
			if err := cmd.Start(); err != nil {
				stats[w].err = err
				return
			}
			done := make(chan error, 1)
			go func() { done <- cmd.Wait() }()
			select {
			case err := <-done:
				stats[w].err = err
			case <-time.After(time.Duration(timeout) * time.Second):
				stats[w].timedOut = true
				_ = cmd.Process.Signal(os.Interrupt)
				time.Sleep(200 * time.Millisecond)
				_ = cmd.Process.Kill()
				<-done
			}
			of.Close()
		}(w)
	}
	wg.Wait()

	// aggregate
	var evals int64
	counters := map[string]int64{}
	distinct := map[uint64]struct{}{}
	sets := map[string]map[string]struct{}{}
	var samples []any
	var violations []Violation
	violKeys := map[string]int{}
	casesRun := 0
	var inconclusive []string
	for w := 0; w < nw; w++ {
		var r workerResult
		b, err := os.ReadFile(filepath.Join(outDir, fmt.Sprintf("worker-%d.json", w)))
		if err == nil {
			err = json.Unmarshal(b, &r)
		}
		if err == nil {
			evals += r.Evals
			for k, v := range r.Counters {
				counters[k] += v
			}
			for _, k := range r.Distinct {
				distinct[k] = struct{}{}
			}
			for name, items := range r.Sets {
				if sets[name] == nil {
					sets[name] = map[string]struct{}{}
				}
				for _, it := range items {
					sets[name][it] = struct{}{}
				}
			}
			if len(samples) < 6 {
				samples = append(samples, r.Samples...)
			}
			violations = append(violations, r.Violations...)
			for k, v := range r.ViolKeys {
				violKeys[k] += v
			}
			casesRun += r.CasesRun
		}
		if stats[w].timedOut {
			inconclusive = append(inconclusive, fmt.Sprintf("worker %d hit the %ds watchdog at %s", w, timeout, lastCase(outDir, w)))
			continue
		}
		if err != nil || !r.Completed || stats[w].err != nil {
			// the worker process died: attribute to the last logged case
			lc := lastCase(outDir, w)
			tail := tailFile(filepath.Join(outDir, fmt.Sprintf("worker-%d.out", w)), 60)
			key := "worker process died: " + fatalSignature(tail)
			violKeys[key]++
			cn, _ := strconv.Atoi(strings.TrimPrefix(lc, "case "))
			violations = append(violations, Violation{Key: key, Detail: "worker exited abnormally (" + fmt.Sprint(stats[w].err) + ") during " + lc, Case: cn, Stack: tail})
		}
	}

	// race reports (only present in -race builds)
	raceTotal, raceDistinct, raceViol, raceHarness := collectRaces(outDir)
	if raceTotal > 0 || p.Race {
		counters["race_reports_total"] = int64(raceTotal)
		counters["race_reports_distinct"] = int64(raceDistinct)
	}
	for _, rv := range raceViol {
		violKeys[rv.Key]++
		violations = append(violations, rv)
	}
	if raceHarness > 0 {
		inconclusive = append(inconclusive, fmt.Sprintf("%d race report(s) entirely inside the harness", raceHarness))
	}

	// known findings
	known := loadKnownFindings(filepath.Join(verifDir, "known_findings.txt"))
	knownSet := map[string]knownFinding{}
	for _, k := range known {
		if k.Prop == p.ID {
			knownSet[k.Key] = k
		}
	}
	var keys []string
	for k := range violKeys {
		keys = append(keys, k)
	}
	sort.Strings(keys)
	var newKeys []string
	knownSeen := 0
	for _, k := range keys {
		if kf, ok := knownSet[k]; ok {
			fmt.Printf("KNOWN-FINDING: property=%s %s [key=%s, observed %d time(s)]\n", p.ID, kf.What, k, violKeys[k])
			knownSeen++
			continue
		}
		newKeys = append(newKeys, k)
	}

	// coverage promises
	if replay == "" {
		if p.Promises != nil {
			for set, items := range p.Promises(tier) {
				for _, it := range items {
					if _, ok := sets[set][it]; !ok {
						inconclusive = append(inconclusive, fmt.Sprintf("coverage promise not met: %s/%s", set, it))
					}
				}
			}
		}
		if p.MinCounters != nil {
			for name, min := range p.MinCounters(tier) {
				if counters[name] < min {
					inconclusive = append(inconclusive, fmt.Sprintf("counter %s=%d below required %d", name, counters[name], min))
				}
			}
		}
		if casesRun < total && len(inconclusive) == 0 && len(newKeys) == 0 {
			inconclusive = append(inconclusive, fmt.Sprintf("only %d of %d planned cases ran", casesRun, total))
		}
		if evals == 0 {
			inconclusive = append(inconclusive, "no evaluations observed")
		}
	}

	verdict := "held"
	code := 0
	var replayPaths []string
	if len(newKeys) > 0 {
		verdict, code = "violated", 1
		_ = os.MkdirAll(filepath.Join(verifDir, "replays"), 0755)
		written := map[string]bool{}
		for _, v := range violations {
			if _, isKnown := knownSet[v.Key]; isKnown || written[v.Key] || len(written) >= 8 {
				continue
			}
			written[v.Key] = true
			path := filepath.Join(verifDir, "replays", fmt.Sprintf("%s-%d-%d.json", p.ID, seed, v.Case))
			rec := map[string]any{"property": p.ID, "seed": seed, "tier": string(tier), "case": v.Case, "key": v.Key,
				"detail": v.Detail, "input": v.Input, "stack": v.Stack}
			b, _ := json.MarshalIndent(rec, "", " ")
			_ = os.WriteFile(path, b, 0644)
			replayPaths = append(replayPaths, path)
		}
	} else if len(inconclusive) > 0 {
		verdict, code = "inconclusive", 2
	}

	// evidence (not written for replays)
	if replay == "" {
		cov := map[string]any{
			"evaluations":         evals,
			"distinct_nontrivial": len(distinct),
			"rule":                p.Rule,
			"samples":             samples,
			"cases_planned":       total,
			"cases_run":           casesRun,
			"workers":             nw,
			"counters":            counters,
		}
		if p.Exhaustive != nil && p.Exhaustive(tier) {
			cov["exhaustive"] = true
		}
		for name, m := range sets {
			var items []string
			for it := range m {
				items = append(items, it)
			}
			sort.Strings(items)
			if len(items) > 400 {
				cov["set_"+name+"_count"] = len(items)
				items = items[:400]
			}
			cov["set_"+name] = items
		}
		if len(violKeys) > 0 {
			cov["violation_keys"] = violKeys
		}
		if len(inconclusive) > 0 {
			cov["inconclusive_reasons"] = inconclusive
		}
		ev := Evidence{PropertyID: p.ID, Tier: string(tier), Seed: seed, Level: p.Level, Coverage: cov,
			Assumptions: p.Assumptions, WallS: time.Since(start).Seconds(), Violations: len(newKeys), Verdict: verdict}
		if knownSeen > 0 {
			cov["known_findings_observed"] = knownSeen
		}
		b, _ := json.MarshalIndent(ev, "", " ")
		_ = os.MkdirAll(filepath.Join(verifDir, "evidence"), 0755)
		_ = os.WriteFile(filepath.Join(verifDir, "evidence", p.ID+".json"), b, 0644)
	}

	switch verdict {
	case "held":
		fmt.Printf("HELD property=%s tier=%s seed=%d cases=%d evaluations=%d distinct_nontrivial=%d wall_s=%.1f\n",
			p.ID, tier, seed, casesRun, evals, len(distinct), time.Since(start).Seconds())
	case "violated":
		for _, k := range newKeys {
			d := ""
			for _, v := range violations {
				if v.Key == k {
					d = v.Detail
					break
				}
			}
			fmt.Printf("violation key=<<%s>> count=%d detail=%s\n", k, violKeys[k], firstLine(d))
		}
		rp := ""
		if len(replayPaths) > 0 {
			rp = replayPaths[0]
		}
		fmt.Printf("VIOLATION property=%s replay=%s\n", p.ID, rp)
	case "inconclusive":
		fmt.Printf("INCONCLUSIVE property=%s reason=%s\n", p.ID, strings.Join(inconclusive, "; "))
	}
	return code
}

func lastCase(outDir string, w int) string {
	b, err := os.ReadFile(filepath.Join(outDir, fmt.Sprintf("worker-%d.log", w)))
	if err != nil {
		return "case ?"
	}
	lines := strings.Split(strings.TrimSpace(string(b)), "\n")
	return lines[len(lines)-1]
}

func tailFile(path string, n int) string {
	b, err := os.ReadFile(path)
	if err != nil {
		return ""
	}
	lines := strings.Split(string(b), "\n")
	if len(lines) > n {
		// keep the head of a fatal error if we can find it
		for i, l := range lines {
			if strings.HasPrefix(l, "fatal error:") || strings.HasPrefix(l, "panic:") || strings.HasPrefix(l, "unexpected fault") {
				end := i + n
				if end > len(lines) {
					end = len(lines)
				}
				return strings.Join(lines[i:end], "\n")
			}
		}
		lines = lines[len(lines)-n:]
	}
	return strings.Join(lines, "\n")
}

func fatalSignature(tail string) string {
	for _, l := range strings.Split(tail, "\n") {
		if strings.HasPrefix(l, "fatal error:") || strings.HasPrefix(l, "panic:") {
			return firstLine(l)
		}
	}
	return "no fatal-error line captured"
}

// collectRaces parses race-detector logs: returns total reports, distinct
// reports (by outermost frame pair), violations (a frame in openziti/storage or
// antlr) and the number of reports entirely inside the harness.
func collectRaces(outDir string) (int, int, []Violation, int) {
	files, _ := filepath.Glob(filepath.Join(outDir, "race-*"))
	total := 0
	seen := map[string]bool{}
	var viols []Violation
	harness := 0
	for _, f := range files {
		b, err := os.ReadFile(f)
		if err != nil {
			continue
		}
		blocks := strings.Split(string(b), "WARNING: DATA RACE")
		for _, blk := range blocks[1:] {
			total++
			sig, inTarget := raceSignature(blk)
			if seen[sig] {
				continue
			}
			seen[sig] = true
			if inTarget {
				if len(blk) > 6000 {
					blk = blk[:6000]
				}
				viols = append(viols, Violation{Key: "data race: " + sig, Detail: "race detector report with a frame in the code under test", Stack: "WARNING: DATA RACE" + blk})
			} else {
				harness++
			}
		}
	}
	return total, len(seen), viols, harness
}

func raceSignature(blk string) (string, bool) {
	// A report has two access stacks ("Read at"/"Write at"/"Previous ... at") followed by goroutine
	// creation stacks. The race is attributed to the code under test when the innermost frame of either
	// access is in openziti/storage or antlr (frames deeper in the stack only say who called the harness).
	inTarget := false
	var tops []string
	lines := strings.Split(blk, "\n")
	for i := 0; i < len(lines); i++ {
		t := strings.TrimSpace(lines[i])
		isAccess := (strings.HasPrefix(t, "Read at") || strings.HasPrefix(t, "Write at") || strings.HasPrefix(t, "Previous read at") ||
			strings.HasPrefix(t, "Previous write at") || strings.HasPrefix(t, "Atomic") || strings.HasPrefix(t, "Previous atomic"))
		if !isAccess {
			continue
		}
		// innermost non-runtime frame of this access
		for j := i + 1; j < len(lines); j++ {
			f := strings.TrimSpace(lines[j])
			if f == "" {
				break
			}
			if strings.HasPrefix(lines[j], "      ") || !strings.Contains(f, "(") {
				continue
			}
			fn := f
			if k := strings.Index(fn, "("); k > 0 {
				fn = fn[:k]
			}
			isTarget := strings.Contains(fn, "github.com/openziti/storage") || strings.Contains(fn, "antlr4-go")
			isHarness := strings.HasPrefix(fn, "verif/harness") || strings.HasPrefix(fn, "main.")
			if !isTarget && !isHarness {
				continue // standard library / third party helper (errors.As, reflect, bbolt, ...): attribute to its caller
			}
			tops = append(tops, fn)
			if isTarget {
				inTarget = true
			}
			break
		}
	}
	sort.Strings(tops)
	return strings.Join(tops, " <-> "), inTarget
}
