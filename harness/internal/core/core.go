// Package core is the harness runtime: deterministic case planning, worker
// child processes, observation/violation recording, known findings, verdicts
// and evidence files.
package core

import (
	"crypto/sha256"
	"encoding/binary"
	"encoding/json"
	"fmt"
	"os"
	"path/filepath"
	"runtime"
	"runtime/debug"
	"sort"
	"strings"
	"sync"
	"time"
)

type Tier string

const (
	Quick    Tier = "quick"
	Thorough Tier = "thorough"
)

// Property describes one check. Plan and Run must be deterministic functions of
// (tier, seed, case index).
type Property struct {
	ID          string
	Level       string // exploration | fault_enumeration
	Rule        string
	Assumptions []string
	Race        bool // needs the -race build
	// Plan returns the number of cases for the tier.
	Plan func(tier Tier, seed int64) int
	// Run executes case idx, recording observations and violations in c.
	Run func(c *Ctx, idx int)
	// Promises lists coverage items (set name -> items) that a run must observe,
	// otherwise it is inconclusive. May depend on tier.
	Promises func(tier Tier) map[string][]string
	// MinCounters lists counters that must reach at least the given value.
	MinCounters func(tier Tier) map[string]int64
	// Exhaustive reports whether the tier enumerates a finite space completely.
	Exhaustive func(tier Tier) bool
	// MaxWorkers limits parallelism (0 = default).
	MaxWorkers int
	// WorkerTimeoutS is the wall-clock watchdog per worker (0 = default).
	WorkerTimeoutS func(tier Tier) int
}

var registry = map[string]*Property{}

func Register(p *Property) { registry[p.ID] = p }

func Lookup(id string) *Property { return registry[id] }

func IDs() []string {
	var ids []string
	for id := range registry {
		ids = append(ids, id)
	}
	sort.Strings(ids)
	return ids
}

type Violation struct {
	Key    string `json:"key"`
	Detail string `json:"detail"`
	Case   int    `json:"case"`
	Input  any    `json:"input,omitempty"`
	Stack  string `json:"stack,omitempty"`
}

// Ctx is the per-worker recording context handed to Property.Run.
type Ctx struct {
	Prop     *Property
	Tier     Tier
	Seed     int64
	Worker   int
	NWorkers int
	Dir      string // scratch directory for database files (removed at exit)
	CaseIdx  int

	mu         sync.Mutex
	evals      int64
	counters   map[string]int64
	distinct   map[uint64]struct{}
	sets       map[string]map[string]struct{}
	samples    []any
	violations []Violation
	violKeys   map[string]int
	seq        int
}

func newCtx(p *Property, tier Tier, seed int64, worker, n int, dir string) *Ctx {
	return &Ctx{Prop: p, Tier: tier, Seed: seed, Worker: worker, NWorkers: n, Dir: dir,
		counters: map[string]int64{}, distinct: map[uint64]struct{}{}, sets: map[string]map[string]struct{}{},
		violKeys: map[string]int{}}
}

// Rand returns the generator for the current case (optionally a sub-stream).
func (c *Ctx) Rand(sub ...uint64) *Rand {
	parts := []uint64{uint64(c.Seed), HashString(c.Prop.ID), uint64(c.CaseIdx)}
	parts = append(parts, sub...)
	return NewRand(parts...)
}

// Eval counts one evaluation (one oracle comparison / execution).
func (c *Ctx) Eval() { c.mu.Lock(); c.evals++; c.mu.Unlock() }

func (c *Ctx) EvalN(n int64) { c.mu.Lock(); c.evals += n; c.mu.Unlock() }

// Nontrivial records one distinct non-trivial case identified by parts.
func (c *Ctx) Nontrivial(parts ...any) {
	h := sha256.New()
	for _, p := range parts {
		fmt.Fprintf(h, "%v\x00", p)
	}
	sum := h.Sum(nil)
	k := binary.LittleEndian.Uint64(sum[:8])
	c.mu.Lock()
	c.distinct[k] = struct{}{}
	c.mu.Unlock()
}

// Cover records that item of the named coverage set was observed.
func (c *Ctx) Cover(set, item string) {
	c.mu.Lock()
	m := c.sets[set]
	if m == nil {
		m = map[string]struct{}{}
		c.sets[set] = m
	}
	m[item] = struct{}{}
	c.mu.Unlock()
}

func (c *Ctx) Count(name string, n int64) {
	c.mu.Lock()
	c.counters[name] += n
	c.mu.Unlock()
}

// Sample keeps up to 4 cases per worker as written-out examples.
func (c *Ctx) Sample(v any) {
	c.mu.Lock()
	if len(c.samples) < 4 {
		c.samples = append(c.samples, v)
	}
	c.mu.Unlock()
}

func (c *Ctx) WantSample() bool {
	c.mu.Lock()
	defer c.mu.Unlock()
	return len(c.samples) < 4
}

// Violation records a refuting observation. key identifies the failing input
// class (used for known findings and de-duplication); at most 3 full records per
// key are kept.
func (c *Ctx) Violation(key, detail string, input any) {
	c.mu.Lock()
	defer c.mu.Unlock()
	c.violKeys[key]++
	if c.violKeys[key] > 3 {
		return
	}
	c.violations = append(c.violations, Violation{Key: key, Detail: detail, Case: c.CaseIdx, Input: input})
}

func (c *Ctx) Violationf(key string, input any, format string, args ...any) {
	c.Violation(key, fmt.Sprintf(format, args...), input)
}

// Seq returns a process-unique number (for file names).
func (c *Ctx) Seq() int {
	c.mu.Lock()
	defer c.mu.Unlock()
	c.seq++
	return c.seq
}

// TempFile returns a fresh path inside the worker scratch directory.
func (c *Ctx) TempFile(prefix string) string {
	return filepath.Join(c.Dir, fmt.Sprintf("%s-%d-%d.db", prefix, c.CaseIdx, c.Seq()))
}

type workerResult struct {
	Worker     int                 `json:"worker"`
	Evals      int64               `json:"evals"`
	Counters   map[string]int64    `json:"counters"`
	Distinct   []uint64            `json:"distinct"`
	Sets       map[string][]string `json:"sets"`
	Samples    []any               `json:"samples"`
	Violations []Violation         `json:"violations"`
	ViolKeys   map[string]int      `json:"viol_keys"`
	CasesRun   int                 `json:"cases_run"`
	Completed  bool                `json:"completed"`
}

func (c *Ctx) result(casesRun int, completed bool) *workerResult {
	c.mu.Lock()
	defer c.mu.Unlock()
	r := &workerResult{Worker: c.Worker, Evals: c.evals, Counters: c.counters, Samples: c.samples,
		Violations: c.violations, ViolKeys: c.violKeys, CasesRun: casesRun, Completed: completed,
		Sets: map[string][]string{}}
	if completed { // the (possibly large) distinct set is only written by the final flush
		for k := range c.distinct {
			r.Distinct = append(r.Distinct, k)
		}
	}
	for name, m := range c.sets {
		for item := range m {
			r.Sets[name] = append(r.Sets[name], item)
		}
		sort.Strings(r.Sets[name])
	}
	return r
}

// PanicsAreViolations: a panic escaping the code under test during a case is
// reported as a violation with this key prefix.
func runCase(c *Ctx, idx int) {
	c.CaseIdx = idx
	defer func() {
		if r := recover(); r != nil {
			st := string(debug.Stack())
			c.mu.Lock()
			key := "panic: " + firstLine(fmt.Sprint(r)) + " @ " + panicSite(st)
			c.violKeys[key]++
			if c.violKeys[key] <= 3 {
				c.violations = append(c.violations, Violation{Key: key, Detail: fmt.Sprint(r), Case: idx, Stack: st})
			}
			c.mu.Unlock()
		}
	}()
	c.Prop.Run(c, idx)
}

func firstLine(s string) string {
	if i := strings.IndexByte(s, '\n'); i >= 0 {
		s = s[:i]
	}
	if len(s) > 120 {
		s = s[:120]
	}
	return s
}

// panicSite returns the first frame inside openziti/storage (or the first
// non-runtime frame) of a stack dump, without line-independent noise.
func panicSite(st string) string {
	lines := strings.Split(st, "\n")
	first := ""
	for i := 0; i+1 < len(lines); i++ {
		l := lines[i]
		if strings.HasPrefix(l, "\t") || strings.HasPrefix(l, "goroutine") || l == "" {
			continue
		}
		fn := l
		if j := strings.LastIndex(fn, "("); j > 0 {
			fn = fn[:j]
		}
		if strings.HasPrefix(fn, "runtime") || strings.HasPrefix(fn, "panic") || strings.Contains(fn, "internal/core.runCase") {
			continue
		}
		if strings.Contains(fn, "openziti/storage") {
			return fn
		}
		if first == "" {
			first = fn
		}
	}
	return first
}

// RunWorker executes this worker's slice of the case list.
// workerHeapCap: healthy workers stay below 1 GiB.
const workerHeapCap = 6 << 30

func RunWorker(p *Property, tier Tier, seed int64, worker, n int, outDir string, only int) {
	dir := scratchDir(fmt.Sprintf("verif-%s-%d-%d", p.ID, os.Getpid(), worker))
	defer os.RemoveAll(dir)
	c := newCtx(p, tier, seed, worker, n, dir)
	total := p.Plan(tier, seed)
	// memory guard: the sandbox has no memory limit, and a change to the code under test that makes an evaluation build
	// an unbounded structure would take the machine down with it. A worker whose heap passes the cap dies like on any
	// other fatal error (the driver reports the case it died in)
	go func() {
		var ms runtime.MemStats
		for {
			time.Sleep(500 * time.Millisecond)
			runtime.ReadMemStats(&ms)
			if ms.HeapAlloc > workerHeapCap {
				fmt.Fprintf(os.Stderr, "fatal error: worker heap of %d MiB exceeds the cap of %d MiB (runaway allocation in the code under test)\n", ms.HeapAlloc>>20, uint64(workerHeapCap)>>20)
				os.Exit(2)
			}
		}
	}()
	logf, _ := os.OpenFile(filepath.Join(outDir, fmt.Sprintf("worker-%d.log", worker)), os.O_CREATE|os.O_WRONLY|os.O_APPEND, 0644)
	casesRun := 0
	flush := func(done bool) {
		b, _ := json.Marshal(c.result(casesRun, done))
		tmp := filepath.Join(outDir, fmt.Sprintf("worker-%d.json.tmp", worker))
		_ = os.WriteFile(tmp, b, 0644)
		_ = os.Rename(tmp, filepath.Join(outDir, fmt.Sprintf("worker-%d.json", worker)))
	}
	if only >= 0 {
		fmt.Fprintf(logf, "case %d\n", only)
		runCase(c, only)
		casesRun = 1
		flush(true)
		return
	}
	for idx := worker; idx < total; idx += n {
		fmt.Fprintf(logf, "case %d\n", idx)
		runCase(c, idx)
		casesRun++
		if casesRun%256 == 0 {
			flush(false)
		}
	}
	flush(true)
	if logf != nil {
		logf.Close()
	}
}

func scratchDir(name string) string {
	base := os.TempDir()
	if st, err := os.Stat("/dev/shm"); err == nil && st.IsDir() {
		probe := filepath.Join("/dev/shm", ".verif-probe")
		if err := os.WriteFile(probe, []byte("x"), 0600); err == nil {
			os.Remove(probe)
			base = "/dev/shm"
		}
	}
	dir := filepath.Join(base, name)
	_ = os.MkdirAll(dir, 0700)
	return dir
}
