package core

import "math"

// Rand is a splitmix64 generator. Every random choice in the harness derives
// from (VERIF_SEED, property, case index) through it, so a case is replayable
// from its index alone.
type Rand struct{ s uint64 }

func NewRand(parts ...uint64) *Rand {
	r := &Rand{s: 0x9e3779b97f4a7c15}
	for _, p := range parts {
		r.s ^= p + 0x9e3779b97f4a7c15 + (r.s << 6) + (r.s >> 2)
		r.Uint64()
	}
	return r
}

func HashString(s string) uint64 {
	var h uint64 = 14695981039346656037
	for i := 0; i < len(s); i++ {
		h ^= uint64(s[i])
		h *= 1099511628211
	}
	return h
}

func (r *Rand) Uint64() uint64 {
	r.s += 0x9e3779b97f4a7c15
	z := r.s
	z = (z ^ (z >> 30)) * 0xbf58476d1ce4e5b9
	z = (z ^ (z >> 27)) * 0x94d049bb133111eb
	return z ^ (z >> 31)
}

// Intn returns a value in [0,n). n<=0 returns 0.
func (r *Rand) Intn(n int) int {
	if n <= 0 {
		return 0
	}
	return int(r.Uint64() % uint64(n))
}

func (r *Rand) Int63() int64 { return int64(r.Uint64() >> 1) }

// Range returns a value in [lo,hi].
func (r *Rand) Range(lo, hi int) int {
	if hi <= lo {
		return lo
	}
	return lo + r.Intn(hi-lo+1)
}

func (r *Rand) Bool() bool { return r.Uint64()&1 == 1 }

// P returns true with probability p.
func (r *Rand) P(p float64) bool {
	return float64(r.Uint64()>>11)/float64(1<<53) < p
}

func (r *Rand) Float() float64 { return float64(r.Uint64()>>11) / float64(1<<53) }

func (r *Rand) Perm(n int) []int {
	p := make([]int, n)
	for i := range p {
		p[i] = i
	}
	for i := n - 1; i > 0; i-- {
		j := r.Intn(i + 1)
		p[i], p[j] = p[j], p[i]
	}
	return p
}

func Pick[T any](r *Rand, xs []T) T {
	return xs[r.Intn(len(xs))]
}

// Subset returns each element with probability p, preserving order.
func Subset[T any](r *Rand, xs []T, p float64) []T {
	var out []T
	for _, x := range xs {
		if r.P(p) {
			out = append(out, x)
		}
	}
	return out
}

func Shuffle[T any](r *Rand, xs []T) []T {
	out := make([]T, len(xs))
	for i, j := range r.Perm(len(xs)) {
		out[i] = xs[j]
	}
	return out
}

var _ = math.MaxInt64
