// Package schema builds stores over the public boltz API from a declarative
// description. The same description drives the reference model and the
// structural monitor, which never look at the store objects for expectations.
package schema

import (
	"encoding/binary"
	"fmt"
	"sort"
	"time"

	"github.com/openziti/storage/ast"
	"github.com/openziti/storage/boltz"
	"go.etcd.io/bbolt"
)

type Kind int

const (
	KStr    Kind = iota // nullable string (SetStringP)
	KStrReq             // required string (SetRequiredString)
	KI32
	KI64
	KF64
	KBool
	KTime
	KList   // string list (sub bucket)
	KI64Set // set of int64 values: the library has no setter for it, the strategy fills the list bucket entry by entry (SetListEntry)
	KMap    // nested map (PutMap)
	KLinks  // linked ids persisted through SetLinkedIds
)

type Field struct {
	Key     string // storage key when it differs from the symbol / model name (AddSymbolWithKey, AddFkSymbolWithKey); string fields only
	Name    string
	Kind    Kind
	Prefix  []string // path prefix inside the entity bucket
	FK      string   // entity type of the target store (fk field or fk set)
	NoSym   bool     // do not register a query symbol
	Private bool     // register as non-public symbol
	OnChild bool     // field lives in the child-store bucket (for child stores)
	Derived bool     // maintained by an index / link collection: has a symbol and is read, never persisted by the strategy
	// ApiName: the name callers know the field by. The entity strategy registers storage key -> ApiName on the persist
	// context (PersistContext.WithFieldOverrides), a patch's field checker names the field by it
	ApiName string
	// NotNilMapped: the symbol is wrapped with Store.MapSymbol(name, NotNilStringMapper{}) (string fields)
	NotNilMapped bool
}

type UniqueDef struct {
	Field    string
	Nullable bool
}

type FKKind int

const (
	FkIndex FKKind = iota
	FkIndexNullable
	FkIndexCascade
	FkConstraint
)

type FKDef struct {
	Field    string // fk field on this store
	Target   string // target store type
	Kind     FKKind
	Nullable bool   // for FkConstraint
	Cascade  int    // boltz.CascadeNone / CascadeDelete / CascadeCreateUpdate (FkConstraint)
	BackRef  string // set field on the target holding back references (fk index kinds)
}

type LinkDef struct {
	Field       string // set field on this store
	Target      string
	TargetField string
	RefCounted  bool
}

type StoreDef struct {
	Type      string
	BasePath  []string
	Fields    []Field
	Parent    string // parent store type (child store)
	ChildPath []string
	Extended  bool
	Unique    []UniqueDef
	SetIdx    []string
	FKs       []FKDef
	Links     []LinkDef
	Ext       bool // entities carry BaseExtEntity values (createdAt, updatedAt, tags, isSystem)
	System    bool // system entity enforcement constraint
}

func (d *StoreDef) Field(name string) *Field {
	for i := range d.Fields {
		if d.Fields[i].Name == name {
			return &d.Fields[i]
		}
	}
	return nil
}

// Ent is the single generic entity type used by all harness stores.
type Ent struct {
	Id        string
	Typ       string
	V         map[string]any // nil | string | int32 | int64 | float64 | bool | time.Time | []string | map[string]any
	NilAbsent bool           // on create, leave null scalars unwritten instead of writing an explicit nil
	HasChild  bool           // loaded through / created in a child store
	Ext       boltz.BaseExtEntity
}

func (e *Ent) GetId() string         { return e.Id }
func (e *Ent) SetId(id string)       { e.Id = id }
func (e *Ent) GetEntityType() string { return e.Typ }

func (e *Ent) Clone() *Ent {
	c := &Ent{Id: e.Id, Typ: e.Typ, V: map[string]any{}, NilAbsent: e.NilAbsent, HasChild: e.HasChild, Ext: e.Ext}
	for k, v := range e.V {
		c.V[k] = CloneVal(v)
	}
	return c
}

func CloneVal(v any) any {
	switch t := v.(type) {
	case []string:
		return append([]string{}, t...)
	case map[string]any:
		m := map[string]any{}
		for k, x := range t {
			m[k] = CloneVal(x)
		}
		return m
	case []any:
		l := make([]any, len(t))
		for i, x := range t {
			l[i] = CloneVal(x)
		}
		return l
	}
	return v
}

type strategy struct {
	st *St
}

func (s *strategy) NewEntity() *Ent {
	return &Ent{Typ: s.st.Def.Type, V: map[string]any{}}
}

func bucketFor(b *boltz.TypedBucket, prefix []string, create bool) *boltz.TypedBucket {
	if len(prefix) == 0 || b == nil {
		return b
	}
	if create {
		nb := b.GetOrCreatePath(prefix...)
		if nb.HasError() {
			b.SetError(nb.GetError())
		}
		return nb
	}
	return b.GetPath(prefix...)
}

func (s *strategy) FillEntity(e *Ent, bucket *boltz.TypedBucket) {
	e.Typ = s.st.Def.Type
	if e.V == nil {
		e.V = map[string]any{}
	}
	def := s.st.Def
	var parentBucket *boltz.TypedBucket
	if def.Parent != "" {
		parentBucket = s.st.ParentSt.Store.GetEntityBucket(bucket.Tx(), []byte(e.Id))
		e.HasChild = s.st.Store.GetEntityBucket(bucket.Tx(), []byte(e.Id)) != nil
	}
	for _, f := range s.st.AllFields() {
		b := bucket
		if def.Parent != "" && !f.OnChild {
			b = parentBucket
		}
		if def.Parent != "" && f.OnChild && !e.HasChild && !def.Extended {
			continue
		}
		// an extended store is handed a bucket for every entity of its parent; a strategy reads its own fields from it
		// like from any other (they are all absent when the entity has no data in this store)
		b = bucketFor(b, f.Prefix, false)
		if b == nil {
			e.V[f.Name] = nilFor(f.Kind)
			continue
		}
		e.V[f.Name] = readField(b, f)
	}
	owner := s.st
	if def.Parent != "" {
		owner = s.st.ParentSt
	}
	if owner.Def.Ext {
		b := bucket
		if def.Parent != "" {
			b = parentBucket
		}
		if b != nil {
			e.Ext.LoadBaseValues(b)
			if b.HasError() && b != bucket {
				bucket.SetError(b.GetError())
			}
		}
	}
}

// StoreKey is the bucket key the field is stored under.
func (f Field) StoreKey() string {
	if f.Key != "" {
		return f.Key
	}
	return f.Name
}

func nilFor(k Kind) any {
	switch k {
	case KList, KLinks:
		return []string(nil)
	case KMap:
		return map[string]any{}
	}
	return nil
}

func readField(b *boltz.TypedBucket, f Field) any {
	switch f.Kind {
	case KStr, KStrReq:
		if v := b.GetString(f.StoreKey()); v != nil {
			return *v
		}
	case KI32:
		if v := b.GetInt32(f.Name); v != nil {
			return *v
		}
	case KI64:
		if v := b.GetInt64(f.Name); v != nil {
			return *v
		}
	case KF64:
		if v := b.GetFloat64(f.Name); v != nil {
			return *v
		}
	case KBool:
		if v := b.GetBool(f.Name); v != nil {
			return *v
		}
	case KTime:
		if v := b.GetTime(f.Name); v != nil {
			return *v
		}
	case KList, KLinks:
		return b.GetStringList(f.Name)
	case KI64Set:
		var out []int64
		if list := b.GetBucket(f.Name); list != nil && !list.HasError() {
			cur := list.Cursor()
			for k, _ := cur.First(); k != nil; k, _ = cur.Next() {
				if v := boltz.FieldToInt64(boltz.GetTypeAndValue(k)); v != nil {
					out = append(out, *v)
				}
			}
		}
		return out
	case KMap:
		return b.GetMap(f.StoreKey())
	}
	return nil
}

func (s *strategy) PersistEntity(e *Ent, ctx *boltz.PersistContext) {
	def := s.st.Def
	var pctx *boltz.PersistContext
	if def.Parent != "" {
		pctx = ctx.GetParentContext()
	}
	owner := s.st
	octx := ctx
	if def.Parent != "" {
		owner = s.st.ParentSt
		octx = pctx
	}
	if owner.Def.Ext {
		e.Ext.SetBaseValues(octx)
	}
	overrides := map[*boltz.PersistContext]map[string]string{}
	for _, f := range s.st.AllFields() {
		if f.ApiName != "" && !f.Derived {
			c := ctx
			if def.Parent != "" && !f.OnChild {
				c = pctx
			}
			if overrides[c] == nil {
				overrides[c] = map[string]string{}
			}
			overrides[c][f.StoreKey()] = f.ApiName
		}
	}
	for c, table := range overrides {
		c.WithFieldOverrides(table)
	}
	for _, f := range s.st.AllFields() {
		if f.Derived {
			continue
		}
		c := ctx
		if def.Parent != "" && !f.OnChild {
			c = pctx
		}
		persistField(e, f, c)
	}
}

func persistField(e *Ent, f Field, ctx *boltz.PersistContext) {
	v, present := e.V[f.Name]
	if !present {
		v = nil
	}
	if len(f.Prefix) == 1 && f.Kind == KStr && !(v == nil && ctx.IsCreate && e.NilAbsent) {
		// the way a strategy usually writes a field of a nested part: ask the entity bucket for the sub-bucket and set
		// the value there, the setter consults the checker (and the bucket its own state)
		nb := ctx.Bucket.GetOrCreateBucket(f.Prefix[0])
		if v == nil {
			nb.SetStringP(f.StoreKey(), nil, ctx.FieldChecker)
		} else {
			sv := v.(string)
			nb.SetStringP(f.StoreKey(), &sv, ctx.FieldChecker)
		}
		if nb.HasError() && !ctx.Bucket.HasError() {
			ctx.Bucket.SetError(nb.GetError())
		}
		return
	}
	if f.Kind == KStr && len(f.Prefix) == 0 && !(v == nil && ctx.IsCreate && e.NilAbsent) {
		// an optional string through the persist context's pointer setter (nil clears the field)
		if sv, ok := v.(string); ok {
			ctx.SetStringP(f.StoreKey(), &sv)
		} else {
			ctx.SetStringP(f.StoreKey(), nil)
		}
		return
	}
	if f.Kind == KStrReq && len(f.Prefix) == 0 {
		// the persist context's own setter: it asks the checker and the bucket's state itself
		sv, _ := v.(string)
		ctx.SetRequiredString(f.StoreKey(), sv)
		return
	}
	if !ctx.ProceedWithSet(f.StoreKey()) {
		return
	}
	if len(f.Prefix) > 0 {
		// fields under a path prefix are written through a derived bucket that shares the error holder
		nb := ctx.Bucket.GetOrCreatePath(f.Prefix...)
		if nb.HasError() {
			ctx.Bucket.SetError(nb.GetError())
			return
		}
		writeField(nb, f, v, e, ctx)
		if nb.HasError() {
			ctx.Bucket.SetError(nb.GetError())
		}
		return
	}
	if f.Kind == KI64Set {
		list, err := ctx.Bucket.EmptyBucket(f.Name)
		if ctx.Bucket.SetError(err) {
			return
		}
		vals, _ := v.([]int64)
		for _, x := range vals {
			buf := make([]byte, 8)
			binary.LittleEndian.PutUint64(buf, uint64(x))
			ctx.Bucket.SetError(list.SetListEntry(boltz.TypeInt64, buf).GetError())
		}
		return
	}
	writeField(ctx.Bucket, f, v, e, ctx)
}

func writeField(b *boltz.TypedBucket, f Field, v any, e *Ent, ctx *boltz.PersistContext) {
	if l, ok := v.([]string); ok && len(l) == 0 {
		v = nil
	}
	if v == nil && ctx.IsCreate && e.NilAbsent && (f.Kind == KList || f.Kind == KLinks || f.Kind == KMap) {
		return // leave the sub-bucket absent altogether (an empty set and an absent set are the same value)
	}
	if v == nil {
		switch f.Kind {
		case KStrReq:
			ctx.SetRequiredString(f.StoreKey(), "")
			return
		case KList:
			b.SetStringList(f.Name, nil, nil)
			return
		case KLinks:
			ctx.SetLinkedIds(f.Name, nil)
			return
		case KMap:
			b.PutMap(f.StoreKey(), nil, nil, true)
			return
		}
		if ctx.IsCreate && e.NilAbsent {
			return
		}
		b.SetNil(f.StoreKey())
		return
	}
	switch f.Kind {
	case KStr:
		s := v.(string)
		b.SetStringP(f.StoreKey(), &s, nil)
	case KStrReq:
		if len(f.Prefix) == 0 {
			ctx.SetRequiredString(f.StoreKey(), v.(string))
		} else {
			b.SetString(f.StoreKey(), v.(string), nil)
		}
	case KI32:
		b.SetInt32(f.Name, v.(int32), nil)
	case KI64:
		b.SetInt64(f.Name, v.(int64), nil)
	case KF64:
		b.SetFloat64(f.Name, v.(float64), nil)
	case KBool:
		b.SetBool(f.Name, v.(bool), nil)
	case KTime:
		t := v.(time.Time)
		b.SetTimeP(f.Name, &t, nil)
	case KList:
		b.SetStringList(f.Name, v.([]string), nil)
	case KLinks:
		ctx.SetLinkedIds(f.Name, append([]string{}, v.([]string)...))
	case KMap:
		b.PutMap(f.StoreKey(), v.(map[string]any), nil, true)
	}
}

// St is a built store together with its description and handles.
type St struct {
	Def      *StoreDef
	Store    *boltz.BaseStore[*Ent]
	ParentSt *St
	Children []*St
	Sym      map[string]boltz.EntitySymbol
	Unique   map[string]boltz.ReadIndex
	SetIdx   map[string]boltz.SetReadIndex
	Links    map[string]boltz.LinkCollection
	RcLinks  map[string]boltz.RefCountedLinkCollection
}

// AllFields returns the parent's fields followed by the child's own (for child stores).
func (s *St) AllFields() []Field {
	if s.ParentSt == nil {
		return s.Def.Fields
	}
	var out []Field
	out = append(out, s.ParentSt.Def.Fields...)
	for _, f := range s.Def.Fields {
		f.OnChild = true
		out = append(out, f)
	}
	return out
}

type Schema struct {
	Defs   []*StoreDef
	Stores map[string]*St
	Order  []string
}

func (sc *Schema) St(t string) *St { return sc.Stores[t] }

// ChildUpdateMapper decides, for an update issued through the parent store, whether
// the entity has child data; it then loads the child and copies the caller's shared
// (parent) fields onto it, as an application mapper must.
func childMapper(child *St) func(ctx boltz.MutateContext, parent *Ent) (*Ent, bool) {
	return func(ctx boltz.MutateContext, parent *Ent) (*Ent, bool) {
		if child.Store.GetEntityBucket(ctx.Tx(), []byte(parent.Id)) == nil {
			return nil, false
		}
		c, found, err := child.Store.FindById(ctx.Tx(), parent.Id)
		if err != nil || !found || c == nil {
			return nil, false
		}
		for _, f := range child.ParentSt.Def.Fields {
			if v, ok := parent.V[f.Name]; ok {
				c.V[f.Name] = CloneVal(v)
			} else {
				c.V[f.Name] = nil
			}
		}
		c.Ext = parent.Ext
		return c, true
	}
}

// Build constructs all stores of the description (parents before children).
func Build(defs []*StoreDef) *Schema {
	sc := &Schema{Defs: defs, Stores: map[string]*St{}}
	key := func(d *StoreDef) string {
		if d.Parent != "" {
			return d.Type + "/" + joinPath(d.ChildPath)
		}
		return d.Type
	}
	// pass 1: stores. The path of every definition is handed over in one buffer which is used again for the next store
	// (it also has room for more elements): a store definition's path is the caller's, the store keeps a copy
	pathBuf := make([]string, 0, 8)
	for _, d := range defs {
		st := &St{Def: d, Sym: map[string]boltz.EntitySymbol{}, Unique: map[string]boltz.ReadIndex{},
			SetIdx: map[string]boltz.SetReadIndex{}, Links: map[string]boltz.LinkCollection{}, RcLinks: map[string]boltz.RefCountedLinkCollection{}}
		sd := boltz.StoreDefinition[*Ent]{
			EntityType:     d.Type,
			EntityStrategy: &strategy{st: st},
			BasePath:       append(pathBuf[:0], d.BasePath...),
		}
		typ := d.Type
		sd.EntityNotFoundF = func(id string) error { return boltz.NewNotFoundError(boltz.GetSingularEntityType(typ), "id", id) }
		if d.Parent != "" {
			p := sc.Stores[d.Parent]
			st.ParentSt = p
			sd.EntityType = ""
			sd.Parent = p.Store
			sd.BasePath = append(pathBuf[:0], d.ChildPath...)
			sd.ParentMapper = func(e boltz.Entity) boltz.Entity { return e }
			p.Children = append(p.Children, st)
		}
		st.Store = boltz.NewBaseStore(sd)
		st.Store.InitImpl(st.Store)
		if d.Extended {
			st.Store.Extended()
		}
		sc.Stores[key(d)] = st
		sc.Order = append(sc.Order, key(d))
		if d.Parent != "" {
			p := sc.Stores[d.Parent]
			p.Store.RegisterChildStoreStrategy(&boltz.ChildStoreUpdateHandler[*Ent, *Ent]{Store: st.Store, Mapper: childMapper(st)})
		}
	}
	// pass 2: symbols
	for _, k := range sc.Order {
		st := sc.Stores[k]
		d := st.Def
		if d.Parent != "" {
			st.Store.GetParentStore().GrantSymbols(st.Store)
		} else if d.Ext {
			st.Store.AddExtEntitySymbols()
		} else {
			st.Sym["id"] = st.Store.AddIdSymbol("id", ast.NodeTypeString)
		}
		for _, f := range d.Fields {
			if f.NoSym {
				continue
			}
			var target boltz.Store
			if f.FK != "" {
				target = sc.Stores[f.FK].Store
			}
			switch f.Kind {
			case KStr, KStrReq:
				if target != nil {
					st.Sym[f.Name] = st.Store.AddFkSymbolWithKey(f.Name, f.StoreKey(), target, f.Prefix...)
				} else if f.Private {
					sym := st.Store.NewEntitySymbol(f.Name, ast.NodeTypeString)
					st.Store.AddEntitySymbol(sym)
					st.Sym[f.Name] = sym
				} else {
					st.Sym[f.Name] = st.Store.AddSymbolWithKey(f.Name, ast.NodeTypeString, f.StoreKey(), f.Prefix...)
				}
				if f.NotNilMapped {
					st.Store.MapSymbol(f.Name, boltz.NotNilStringMapper{})
				}
			case KI32, KI64, KF64, KBool, KTime:
				nt := map[Kind]ast.NodeType{KI32: ast.NodeTypeInt64, KI64: ast.NodeTypeInt64, KF64: ast.NodeTypeFloat64, KBool: ast.NodeTypeBool, KTime: ast.NodeTypeDatetime}[f.Kind]
				if f.Private && len(f.Prefix) == 0 {
					sym := st.Store.NewEntitySymbol(f.Name, nt)
					st.Store.AddEntitySymbol(sym)
					st.Sym[f.Name] = sym
				} else {
					st.Sym[f.Name] = st.Store.AddSymbol(f.Name, nt, f.Prefix...)
				}
			case KList, KLinks:
				if target != nil {
					st.Sym[f.Name] = st.Store.AddFkSetSymbol(f.Name, target)
					if !f.Private {
						st.Store.MakeSymbolPublic(f.Name)
					}
				} else if f.Private {
					st.Sym[f.Name] = st.Store.AddSetSymbol(f.Name, ast.NodeTypeString)
				} else {
					st.Sym[f.Name] = st.Store.AddPublicSetSymbol(f.Name, ast.NodeTypeString)
				}
			case KI64Set:
				st.Sym[f.Name] = st.Store.AddPublicSetSymbol(f.Name, ast.NodeTypeInt64)
			case KMap:
				st.Store.AddMapSymbol(f.Name, ast.NodeTypeAnyType, f.StoreKey(), f.Prefix...)
				if !f.Private {
					st.Store.MakeSymbolPublic(f.Name)
				}
			}
		}
	}
	// pass 3: indexes, constraints, links
	for _, k := range sc.Order {
		st := sc.Stores[k]
		d := st.Def
		for _, u := range d.Unique {
			if u.Nullable {
				st.Unique[u.Field] = st.Store.AddNullableUniqueIndex(st.Sym[u.Field])
			} else {
				st.Unique[u.Field] = st.Store.AddUniqueIndex(st.Sym[u.Field])
			}
		}
		for _, f := range d.SetIdx {
			st.SetIdx[f] = st.Store.AddSetIndex(st.Sym[f].(boltz.EntitySetSymbol))
		}
		for _, fk := range d.FKs {
			sym := st.Sym[fk.Field]
			switch fk.Kind {
			case FkIndex:
				st.Store.AddFkIndex(sym, sc.Stores[fk.Target].Sym[fk.BackRef].(boltz.EntitySetSymbol))
			case FkIndexNullable:
				st.Store.AddNullableFkIndex(sym, sc.Stores[fk.Target].Sym[fk.BackRef].(boltz.EntitySetSymbol))
			case FkIndexCascade:
				st.Store.AddFkIndexCascadeDelete(sym, sc.Stores[fk.Target].Sym[fk.BackRef].(boltz.EntitySetSymbol))
			case FkConstraint:
				st.Store.AddFkConstraint(sym, fk.Nullable, boltz.CascadeType(fk.Cascade))
			}
		}
		for _, l := range d.Links {
			local := st.Sym[l.Field]
			remote := sc.Stores[l.Target].Sym[l.TargetField]
			if l.RefCounted {
				st.RcLinks[l.Field] = st.Store.AddRefCountedLinkCollection(local, remote)
			} else {
				st.Links[l.Field] = st.Store.AddLinkCollection(local, remote)
			}
		}
		if d.System {
			st.Store.AddConstraint(boltz.NewSystemEntityEnforcementConstraint(st.Store))
		}
	}
	return sc
}

func joinPath(p []string) string {
	s := ""
	for i, x := range p {
		if i > 0 {
			s += "/"
		}
		s += x
	}
	return s
}

// InitDb creates the static buckets (entity buckets and index buckets).
func (sc *Schema) InitDb(db boltz.Db) error {
	return db.Update(nil, func(ctx boltz.MutateContext) error { return sc.InitTx(ctx) })
}

// InitTx declares the stores' buckets and indexes inside the caller's transaction (an application that sets its
// stores up at the end of a migration, in the transaction which wrote the data).
func (sc *Schema) InitTx(ctx boltz.MutateContext) error {
	{
		for _, k := range sc.Order {
			st := sc.Stores[k]
			if st.Def.Parent == "" {
				path := append(append([]string{}, st.Def.BasePath...), st.Def.Type)
				if b := boltz.GetOrCreatePath(ctx.Tx(), path...); b.HasError() {
					return b.GetError()
				}
			}
			eh := &errHolder{}
			st.Store.InitializeIndexes(ctx.Tx(), eh)
			if eh.err != nil {
				return eh.err
			}
		}
		return nil
	}
}

type errHolder struct{ err error }

func (e *errHolder) SetError(err error) bool {
	if e.err == nil && err != nil {
		e.err = err
	}
	return e.err != nil
}
func (e *errHolder) GetError() error { return e.err }
func (e *errHolder) HasError() bool  { return e.err != nil }

// OpenDb opens a fresh database file and initialises the schema's buckets.
func (sc *Schema) OpenDb(path string) (*boltz.DbImpl, error) {
	db, err := boltz.Open(path, "stores")
	if err != nil {
		return nil, err
	}
	if err := sc.InitDb(db); err != nil {
		_ = db.Close()
		return nil, err
	}
	return db, nil
}

// SortedIds lists the ids present in a store's entities bucket (raw).
func (st *St) RawIds(tx *bbolt.Tx) []string {
	b := st.Store.GetEntitiesBucket(tx)
	var ids []string
	if b == nil {
		return nil
	}
	c := b.Cursor()
	for k, v := c.First(); k != nil; k, v = c.Next() {
		if v == nil {
			ids = append(ids, string(k))
		}
	}
	sort.Strings(ids)
	return ids
}

func (k Kind) String() string {
	return [...]string{"str", "strreq", "i32", "i64", "f64", "bool", "time", "list", "map", "links"}[k]
}

var _ = fmt.Sprintf
