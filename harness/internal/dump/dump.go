// Package dump produces a canonical full-database dump (every bucket, key and
// value, depth first), its hash, diffs, and raw scans for an id.
package dump

import (
	"bytes"
	"crypto/sha256"
	"encoding/hex"
	"fmt"
	"strings"

	"go.etcd.io/bbolt"
)

type Entry struct {
	Path   string // bucket path, components joined by "/" with %q quoting
	Key    []byte
	Val    []byte
	Bucket bool
}

func (e Entry) String() string {
	if e.Bucket {
		return fmt.Sprintf("%s/%q <bucket>", e.Path, e.Key)
	}
	return fmt.Sprintf("%s/%q = %q", e.Path, e.Key, e.Val)
}

type Dump struct {
	Entries []Entry
}

func Tx(tx *bbolt.Tx) *Dump {
	d := &Dump{}
	_ = tx.ForEach(func(name []byte, b *bbolt.Bucket) error {
		d.Entries = append(d.Entries, Entry{Path: "", Key: append([]byte{}, name...), Bucket: true})
		d.walk(fmt.Sprintf("/%q", name), b)
		return nil
	})
	return d
}

func (d *Dump) walk(path string, b *bbolt.Bucket) {
	c := b.Cursor()
	for k, v := c.First(); k != nil; k, v = c.Next() {
		if v == nil {
			if child := b.Bucket(k); child != nil {
				d.Entries = append(d.Entries, Entry{Path: path, Key: append([]byte{}, k...), Bucket: true})
				d.walk(fmt.Sprintf("%s/%q", path, k), child)
				continue
			}
		}
		d.Entries = append(d.Entries, Entry{Path: path, Key: append([]byte{}, k...), Val: append([]byte{}, v...)})
	}
}

func (d *Dump) Hash() string {
	h := sha256.New()
	for _, e := range d.Entries {
		fmt.Fprintf(h, "%s\x00%d\x00", e.Path, len(e.Key))
		h.Write(e.Key)
		if e.Bucket {
			h.Write([]byte{1})
		} else {
			fmt.Fprintf(h, "\x00%d\x00", len(e.Val))
			h.Write(e.Val)
		}
	}
	return hex.EncodeToString(h.Sum(nil))
}

func (d *Dump) keyed(ignore func(Entry) bool) map[string]Entry {
	m := map[string]Entry{}
	for _, e := range d.Entries {
		if ignore != nil && ignore(e) {
			continue
		}
		m[e.Path+"\x00"+string(e.Key)] = e
	}
	return m
}

// Diff lists up to max differences between two dumps, ignoring entries for which ignore returns true.
func Diff(a, b *Dump, ignore func(Entry) bool, max int) []string {
	am, bm := a.keyed(ignore), b.keyed(ignore)
	var out []string
	for _, e := range a.Entries {
		if ignore != nil && ignore(e) {
			continue
		}
		o, ok := bm[e.Path+"\x00"+string(e.Key)]
		if !ok {
			out = append(out, "only in first: "+e.String())
		} else if o.Bucket != e.Bucket || !bytes.Equal(o.Val, e.Val) {
			out = append(out, "differs: "+e.String()+" vs "+o.String())
		}
		if len(out) >= max {
			return out
		}
	}
	for _, e := range b.Entries {
		if ignore != nil && ignore(e) {
			continue
		}
		if _, ok := am[e.Path+"\x00"+string(e.Key)]; !ok {
			out = append(out, "only in second: "+e.String())
			if len(out) >= max {
				return out
			}
		}
	}
	return out
}

// FindId reports every place where id occurs as a key, a type-tagged key, a value
// or a type-tagged value (tag = any single leading byte 1..7).
func (d *Dump) FindId(id string) []string {
	var hits []string
	raw := []byte(id)
	match := func(b []byte) bool {
		if bytes.Equal(b, raw) {
			return true
		}
		if len(b) == len(raw)+1 && b[0] >= 1 && b[0] <= 7 && bytes.Equal(b[1:], raw) {
			return true
		}
		return false
	}
	for _, e := range d.Entries {
		if match(e.Key) {
			hits = append(hits, "key: "+e.String())
		} else if !e.Bucket && match(e.Val) {
			hits = append(hits, "value: "+e.String())
		}
	}
	return hits
}

func (d *Dump) String() string {
	var sb strings.Builder
	for _, e := range d.Entries {
		sb.WriteString(e.String())
		sb.WriteByte('\n')
	}
	return sb.String()
}
