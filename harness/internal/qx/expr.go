package qx

import (
	"fmt"
	"sort"
	"strconv"
	"strings"
	"time"

	"verif/harness/internal/ql"
)

type Lit struct {
	T      Type // TStr TInt TFloat TBool TTime ; Null => IsNull
	S      string
	I      int64
	F      float64
	B      bool
	D      time.Time
	IsNull bool
	Text   string // exact rendering for numbers / datetimes
}

func LStr(s string) Lit                 { return Lit{T: TStr, S: s} }
func LInt(i int64) Lit                  { return Lit{T: TInt, I: i, Text: strconv.FormatInt(i, 10)} }
func LFloat(f float64, text string) Lit { return Lit{T: TFloat, F: f, Text: text} }
func LBool(b bool) Lit                  { return Lit{T: TBool, B: b} }
func LNull() Lit                        { return Lit{IsNull: true} }
func LTime(t time.Time) Lit {
	return Lit{T: TTime, D: t, Text: "datetime(" + t.Format(time.RFC3339Nano) + ")"}
}

func (l Lit) Stream() ql.Stream {
	switch {
	case l.IsNull:
		return ql.Stream{ql.K("null")}
	case l.T == TStr:
		return ql.Stream{ql.T(ql.Lit(l.S))}
	case l.T == TBool:
		return ql.Stream{ql.K(strconv.FormatBool(l.B))}
	}
	if l.T == TTime && strings.HasPrefix(l.Text, "datetime(") && strings.HasSuffix(l.Text, ")") {
		// the grammar admits whitespace inside the parentheses of a datetime literal
		return ql.Stream{ql.T("datetime("), ql.G(ql.Opt), ql.T(l.Text[len("datetime(") : len(l.Text)-1]), ql.G(ql.Opt), ql.T(")")}
	}
	return ql.Stream{ql.T(l.Text)}
}

// asString renders a numeric literal the way the number-to-string coercion does.
func (l Lit) asString() string {
	switch l.T {
	case TStr:
		return l.S
	case TInt:
		return strconv.FormatInt(l.I, 10)
	case TFloat:
		return strconv.FormatFloat(l.F, 'f', -1, 64)
	}
	return ""
}

type Expr interface {
	Stream() ql.Stream
}

type And struct{ L, R Expr }
type Or struct{ L, R Expr }
type Not struct{ E Expr }
type Const struct{ V bool }
type BoolSym struct{ Name string }

// LHS of a comparison.
type LHS struct {
	Kind string // sym | anyOf | allOf | count
	Sym  string
	Sub  *SubQ // count(from ...)
}

type Cmp struct {
	L  LHS
	Op string // = != < <= > >= in "not in" between "not between" contains "not contains" icontains "not icontains"
	R  []Lit
}

type IsEmpty struct {
	Sym string
	Sub *SubQ
}

type SubQ struct {
	Set string
	Q   *Query
}

type SortF struct {
	Sym  string
	Desc bool
	Dir  string // "", "asc", "desc" as written
}

type Query struct {
	Pred Expr // nil: no predicate
	// Flat renders the predicate with the fewest parentheses the precedence rules (not > and > or) allow
	Flat      bool
	Sort      []SortF
	Skip      *int64
	Limit     *int64
	LimitNone bool
}

func paren(e Expr) ql.Stream { return ql.Paren(e.Stream()) }

// FlatStream renders e relying on precedence: an or under an and keeps its parentheses, chains of the same
// connective and an and under an or are written without. A not and a between (which has an "and" of its own) stay
// wrapped.
func FlatStream(e Expr) ql.Stream {
	operand := func(x Expr, underAnd bool) ql.Stream {
		switch v := x.(type) {
		case And:
			return FlatStream(v)
		case Or:
			if underAnd {
				return ql.Paren(FlatStream(v))
			}
			return FlatStream(v)
		case Not:
			return ql.Paren(ql.Not(FlatStream(v.E)))
		case Cmp:
			if strings.Contains(v.Op, "between") {
				return paren(v)
			}
			return v.Stream()
		}
		return paren(x)
	}
	switch v := e.(type) {
	case And:
		return ql.And(operand(v.L, true), operand(v.R, true))
	case Or:
		return ql.Or(operand(v.L, false), operand(v.R, false))
	case Not:
		return ql.Not(FlatStream(v.E))
	}
	return e.Stream()
}

// fully parenthesised rendering: precedence belongs to C12
func (e And) Stream() ql.Stream     { return ql.And(paren(e.L), paren(e.R)) }
func (e Or) Stream() ql.Stream      { return ql.Or(paren(e.L), paren(e.R)) }
func (e Not) Stream() ql.Stream     { return ql.Not(e.E.Stream()) }
func (e Const) Stream() ql.Stream   { return ql.Stream{ql.K(strconv.FormatBool(e.V))} }
func (e BoolSym) Stream() ql.Stream { return ql.Stream{ql.I(e.Name)} }

func (l LHS) Stream() ql.Stream {
	switch l.Kind {
	case "sym":
		return ql.Stream{ql.I(l.Sym)}
	case "count":
		if l.Sub != nil {
			return ql.Func("count", l.Sub.Stream())
		}
		return ql.Func("count", ql.Stream{ql.I(l.Sym)})
	}
	return ql.Func(l.Kind, ql.Stream{ql.I(l.Sym)})
}

func (s *SubQ) Stream() ql.Stream {
	return ql.Cat(ql.Stream{ql.K("from"), ql.G(ql.Req), ql.I(s.Set), ql.G(ql.Req), ql.K("where"), ql.G(ql.Req)}, s.Q.Stream())
}

func (c Cmp) Stream() ql.Stream {
	switch c.Op {
	case "=", "!=", "<", "<=", ">", ">=":
		return ql.Cmp(c.L.Stream(), c.Op, c.R[0].Stream())
	case "in", "not in":
		var items []ql.Stream
		for _, l := range c.R {
			items = append(items, l.Stream())
		}
		return ql.WordOp(c.L.Stream(), c.Op, ql.List(items))
	case "between", "not between":
		return ql.WordOp(c.L.Stream(), c.Op, ql.Cat(c.R[0].Stream(), ql.Stream{ql.G(ql.Req), ql.K("and"), ql.G(ql.Req)}, c.R[1].Stream()))
	}
	return ql.WordOp(c.L.Stream(), c.Op, c.R[0].Stream())
}

func (e IsEmpty) Stream() ql.Stream {
	if e.Sub != nil {
		return ql.Func("isEmpty", e.Sub.Stream())
	}
	return ql.Func("isEmpty", ql.Stream{ql.I(e.Sym)})
}

func (q *Query) Stream() ql.Stream {
	var out ql.Stream
	if q.Pred != nil {
		if q.Flat {
			out = FlatStream(q.Pred)
		} else {
			out = q.Pred.Stream()
		}
	}
	sep := func() {
		if len(out) > 0 {
			out = append(out, ql.G(ql.Req))
		}
	}
	if len(q.Sort) > 0 {
		sep()
		out = append(out, ql.K("sort"), ql.G(ql.Req), ql.K("by"), ql.G(ql.Req))
		for i, f := range q.Sort {
			if i > 0 {
				out = append(out, ql.G(ql.Opt), ql.T(","), ql.G(ql.Opt))
			}
			out = append(out, ql.I(f.Sym))
			if f.Dir != "" {
				out = append(out, ql.G(ql.Req), ql.K(f.Dir))
			}
		}
	}
	if q.Skip != nil {
		sep()
		out = append(out, ql.K("skip"), ql.G(ql.Req), ql.T(strconv.FormatInt(*q.Skip, 10)))
	}
	if q.LimitNone {
		sep()
		out = append(out, ql.K("limit"), ql.G(ql.Req), ql.K("none"))
	} else if q.Limit != nil {
		sep()
		out = append(out, ql.K("limit"), ql.G(ql.Req), ql.T(strconv.FormatInt(*q.Limit, 10)))
	}
	return out
}

// ---------- evaluation ----------

type val struct {
	null bool
	v    any // string | int64 | float64 | bool | time.Time
}

func mkVal(v any) val {
	if v == nil {
		return val{null: true}
	}
	return val{v: v}
}

// resolve evaluates a (possibly dotted) symbol on a row: returns the values (one for scalars; a multiset for
// set paths), whether the path is a set, the declared type, and whether the symbol exists.
func (w *World) resolve(store string, row *Row, path string) (vals []val, isSet bool, typ Type, ok bool) {
	parts := strings.Split(path, ".")
	info, found := symbols[store][parts[0]]
	if !found {
		return nil, false, 0, false
	}
	if info.Map {
		if len(parts) < 2 {
			return nil, false, 0, false
		}
		var cur any = row.V[parts[0]]
		for _, p := range parts[1:] {
			m, isMap := cur.(map[string]any)
			if !isMap {
				return []val{{null: true}}, false, TAny, true
			}
			cur = m[p]
		}
		if _, isMap := cur.(map[string]any); isMap {
			return []val{{null: true}}, false, TAny, true
		}
		return []val{mkVal(cur)}, false, TAny, true
	}
	if len(parts) == 1 {
		if parts[0] == "id" {
			return []val{{v: row.Id}}, false, TStr, true
		}
		if info.Set {
			l, _ := row.V[parts[0]].([]string)
			for _, x := range uniqSorted(l) {
				vals = append(vals, val{v: x})
			}
			return vals, true, info.Type, true
		}
		if info.NotNil && row.V[parts[0]] == nil {
			return []val{{v: ""}}, false, info.Type, true
		}
		return []val{mkVal(row.V[parts[0]])}, false, info.Type, true
	}
	if info.Target == "" {
		return nil, false, 0, false
	}
	rest := strings.Join(parts[1:], ".")
	if info.Set {
		l, _ := row.V[parts[0]].([]string)
		var t Type
		exists := false
		for _, id := range uniqSorted(l) {
			tr := w.Rows[info.Target][id]
			if tr == nil {
				continue
			}
			sub, _, st, ok2 := w.resolve(info.Target, tr, rest)
			if !ok2 {
				return nil, false, 0, false
			}
			exists, t = true, st
			vals = append(vals, sub...)
		}
		if !exists {
			// type from the schema
			_, _, t, _ = w.resolve(info.Target, &Row{V: map[string]any{}}, rest)
		}
		return vals, true, t, true
	}
	// single fk hop
	id, _ := row.V[parts[0]].(string)
	tr := w.Rows[info.Target][id]
	if tr == nil {
		if rest == "id" && row.V[parts[0]] != nil {
			// the id of whatever a reference names is the reference's own value (fk.id is read off the fk field), also
			// when it names nothing - here: a reference holding the empty string
			return []val{{v: id}}, false, TStr, true
		}
		sub, subSet, t, ok2 := w.resolve(info.Target, &Row{V: map[string]any{}}, rest)
		_ = sub
		if !ok2 {
			return nil, false, 0, false
		}
		if subSet {
			return nil, true, t, true
		}
		return []val{{null: true}}, false, t, true
	}
	return w.resolve(info.Target, tr, rest)
}

func uniqSorted(l []string) []string {
	m := map[string]bool{}
	for _, x := range l {
		m[x] = true
	}
	out := make([]string, 0, len(m))
	for x := range m {
		out = append(out, x)
	}
	sort.Strings(out)
	return out
}

var negOps = map[string]bool{"!=": true, "not in": true, "not between": true, "not contains": true, "not icontains": true}

func cmpOrder(op string, c int) bool {
	switch op {
	case "=":
		return c == 0
	case "!=":
		return c != 0
	case "<":
		return c < 0
	case "<=":
		return c <= 0
	case ">":
		return c > 0
	case ">=":
		return c >= 0
	}
	return false
}

func cmpInt(a, b int64) int {
	if a < b {
		return -1
	} else if a > b {
		return 1
	}
	return 0
}
func cmpFloat(a, b float64) int {
	if a < b {
		return -1
	} else if a > b {
		return 1
	}
	return 0
}

// Unjudged is returned (via panic/recover) when the statement does not fix the meaning of a comparison.
type Unjudged struct{ Why string }

func unjudged(why string) { panic(Unjudged{why}) }

// compare evaluates one typed comparison of a single value.
func compare(v val, typ Type, op string, lits []Lit) bool {
	positive := strings.TrimPrefix(op, "not ")
	neg := strings.HasPrefix(op, "not ")
	if op == "!=" {
		positive, neg = "=", true
	}
	if typ == TAny && !v.null {
		// a map element: judged only when the stored value's type matches the literal's (or int value vs float literal)
		switch x := v.v.(type) {
		case string:
			if lits[0].T != TStr {
				unjudged("map element holds a string, literal is not a string")
			}
			typ = TStr
		case int64:
			if lits[0].T == TInt {
				typ = TInt
			} else if lits[0].T == TFloat {
				typ = TInt
			} else {
				unjudged("map element holds an int, literal is neither int nor float")
			}
			_ = x
		case float64:
			if lits[0].T != TFloat {
				unjudged("map element holds a float, literal is not a float")
			}
			typ = TFloat
		case bool:
			if lits[0].T != TBool {
				unjudged("map element holds a bool")
			}
			typ = TBool
		case time.Time:
			if lits[0].T != TTime {
				unjudged("map element holds a time")
			}
			typ = TTime
		}
		for _, l := range lits {
			if l.T != lits[0].T && !(l.T == TInt || l.T == TFloat) {
				unjudged("mixed literal types against a map element")
			}
		}
	}
	if v.null {
		return neg // null operand: every comparison false except != and the negated forms
	}
	if positive == "in" || positive == "between" {
		// int-to-float coercion works on the whole operand list: one float among the bounds / elements makes the
		// comparison a float64 comparison for all of them (int64 values beyond 2^53 then compare as their nearest
		// float64, e.g. MinInt64 and MinInt64+1 are the same number there)
		anyFloat := false
		for _, l := range lits {
			anyFloat = anyFloat || l.T == TFloat
		}
		if anyFloat {
			conv := make([]Lit, len(lits))
			for i, l := range lits {
				if l.T == TInt {
					l = LFloat(float64(l.I), l.Text)
				}
				conv[i] = l
			}
			lits = conv
		}
	}
	res := false
	switch positive {
	case "contains", "icontains":
		var s string
		switch x := v.v.(type) {
		case string:
			s = x
		case int64:
			s = strconv.FormatInt(x, 10)
		case float64:
			s = strconv.FormatFloat(x, 'f', -1, 64)
		default:
			unjudged("contains on a non string/number value")
		}
		needle := lits[0].asString()
		if positive == "icontains" {
			for _, c := range s + needle {
				if c > 127 {
					unjudged("icontains over non-ASCII letters")
				}
			}
			res = strings.Contains(strings.ToUpper(s), strings.ToUpper(needle))
		} else {
			res = strings.Contains(s, needle)
		}
	case "in":
		for _, l := range lits {
			if compareOne(v, typ, "=", l) {
				res = true
			}
		}
	case "between":
		res = compareOne(v, typ, ">=", lits[0]) && compareOne(v, typ, "<", lits[1])
	default:
		res = compareOne(v, typ, positive, lits[0])
	}
	if neg {
		return !res
	}
	return res
}

func compareOne(v val, typ Type, op string, l Lit) bool {
	switch typ {
	case TStr:
		s, _ := v.v.(string)
		if l.T != TStr && l.T != TInt && l.T != TFloat {
			unjudged("string symbol against bool/datetime literal")
		}
		if l.T != TStr && op != "=" {
			unjudged("ordering of a string symbol against a number literal")
		}
		return cmpOrder(op, strings.Compare(s, l.asString()))
	case TInt:
		i, _ := v.v.(int64)
		switch l.T {
		case TInt:
			return cmpOrder(op, cmpInt(i, l.I))
		case TFloat:
			return cmpOrder(op, cmpFloat(float64(i), l.F))
		}
		unjudged("int symbol against non-number literal")
	case TFloat:
		f, _ := v.v.(float64)
		switch l.T {
		case TInt:
			return cmpOrder(op, cmpFloat(f, float64(l.I)))
		case TFloat:
			return cmpOrder(op, cmpFloat(f, l.F))
		}
		unjudged("float symbol against non-number literal")
	case TBool:
		b, _ := v.v.(bool)
		if l.T != TBool || (op != "=" && op != "!=") {
			unjudged("bool comparison")
		}
		return cmpOrder(op, boolInt(b)-boolInt(l.B))
	case TTime:
		t, _ := v.v.(time.Time)
		if l.T != TTime {
			unjudged("datetime symbol against non-datetime literal")
		}
		c := 0
		if t.Before(l.D) {
			c = -1
		} else if t.After(l.D) {
			c = 1
		}
		return cmpOrder(op, c)
	}
	unjudged(fmt.Sprintf("type %d", typ))
	return false
}

func boolInt(b bool) int {
	if b {
		return 1
	}
	return 0
}

// Eval evaluates a predicate on a row of the given store. It panics with Unjudged for undefined cases.
func (w *World) Eval(e Expr, store string, row *Row) bool {
	switch x := e.(type) {
	case nil:
		return true
	case And:
		return w.Eval(x.L, store, row) && w.Eval(x.R, store, row)
	case Or:
		return w.Eval(x.L, store, row) || w.Eval(x.R, store, row)
	case Not:
		return !w.Eval(x.E, store, row)
	case Const:
		return x.V
	case BoolSym:
		vals, _, _, ok := w.resolve(store, row, x.Name)
		if !ok {
			unjudged("unknown symbol")
		}
		if vals[0].null {
			unjudged("bare bool symbol holding null")
		}
		b, _ := vals[0].v.(bool)
		return b
	case IsEmpty:
		return w.count(store, row, x.Sym, x.Sub) == 0
	case Cmp:
		if len(x.R) == 1 && x.R[0].IsNull {
			vals, isSet, _, ok := w.resolve(store, row, x.L.Sym)
			if !ok || isSet || x.L.Kind != "sym" {
				unjudged("null test on a non-scalar")
			}
			if x.Op == "=" {
				return vals[0].null
			}
			return !vals[0].null
		}
		switch x.L.Kind {
		case "sym":
			vals, isSet, typ, ok := w.resolve(store, row, x.L.Sym)
			if !ok || isSet {
				unjudged("symbol")
			}
			if typ == TBool && vals[0].null && (x.Op == "=" || x.Op == "!=") {
				// documented null rule; kept (this is where the engine's bool handling is judged)
			}
			return compare(vals[0], typ, x.Op, x.R)
		case "count":
			n := int64(w.count(store, row, x.L.Sym, x.L.Sub))
			return compare(val{v: n}, TInt, x.Op, x.R)
		case "anyOf":
			vals, isSet, typ, ok := w.resolve(store, row, x.L.Sym)
			if !ok || !isSet {
				unjudged("anyOf over a non-set")
			}
			for _, v := range vals {
				if compare(v, typ, x.Op, x.R) {
					return true
				}
			}
			return false
		case "allOf":
			vals, isSet, typ, ok := w.resolve(store, row, x.L.Sym)
			if !ok || !isSet {
				unjudged("allOf over a non-set")
			}
			for _, v := range vals {
				if !compare(v, typ, x.Op, x.R) {
					return false
				}
			}
			return true
		}
	}
	unjudged("expression kind")
	return false
}

func (w *World) count(store string, row *Row, sym string, sub *SubQ) int {
	if sub == nil {
		// over a dotted path the elements are those of the stacked cursor: one per related entity and value (a
		// multiset in path order - the reading C14 checks the cursor itself against)
		vals, isSet, _, ok := w.resolve(store, row, sym)
		if !ok || !isSet {
			unjudged("count over a non-set")
		}
		return len(vals)
	}
	info := symbols[store][sub.Set]
	if info.Target == "" || !info.Set {
		unjudged("sub-query over a non-entity set")
	}
	l, _ := row.V[sub.Set].([]string)
	var match []string
	for _, id := range uniqSorted(l) {
		tr := w.Rows[info.Target][id]
		if info.KidOnly && !HashKid(id) {
			continue // not a member of the child store the set is typed to
		}
		if tr == nil && !info.KidOnly {
			// an id that names no entity (a list the application keeps itself may hold one): whether the sub-query
			// steps over it or evaluates its predicate on a row without fields is left open (see World.phantomRows)
			w.sawPhantom = true
			if w.phantomRows && (sub.Q.Pred == nil || w.Eval(sub.Q.Pred, info.Target, &Row{Id: id, V: map[string]any{}})) {
				match = append(match, id)
			}
		}
		if tr != nil && (sub.Q.Pred == nil || w.Eval(sub.Q.Pred, info.Target, tr)) {
			match = append(match, id)
		}
	}
	n := int64(len(match))
	skip := int64(0)
	if sub.Q.Skip != nil && *sub.Q.Skip > 0 {
		skip = *sub.Q.Skip
	}
	if skip > n {
		skip = n
	}
	n -= skip
	if sub.Q.Limit != nil && !sub.Q.LimitNone && *sub.Q.Limit >= 0 && *sub.Q.Limit < n {
		n = *sub.Q.Limit
	}
	return int(n)
}

// Judge evaluates e on every row; judged=false when the statement leaves the case open.
func (w *World) Match(e Expr, store string) (ids []string, judged bool, why string) {
	defer func() {
		if r := recover(); r != nil {
			if u, ok := r.(Unjudged); ok {
				ids, judged, why = nil, false, u.Why
				return
			}
			panic(r)
		}
	}()
	w.phantomRows, w.sawPhantom = false, false
	for _, id := range w.Ids(store) {
		if w.Eval(e, store, w.Rows[store][id]) {
			ids = append(ids, id)
		}
	}
	if w.sawPhantom {
		// the other reading of ids that name no entity: judged only if it selects the same entities
		w.phantomRows = true
		defer func() { w.phantomRows = false }()
		var other []string
		for _, id := range w.Ids(store) {
			if w.Eval(e, store, w.Rows[store][id]) {
				other = append(other, id)
			}
		}
		if fmt.Sprint(ids) != fmt.Sprint(other) {
			return nil, false, "sub-query over a list holding an id that names no entity: the two readings differ"
		}
	}
	return ids, true, ""
}

// ---------- sort / page oracle ----------

func sortKeyLess(a, b val, typ Type) int {
	if a.null || b.null {
		switch {
		case a.null && b.null:
			return 0
		case a.null:
			return -1
		default:
			return 1
		}
	}
	switch typ {
	case TStr:
		return strings.Compare(a.v.(string), b.v.(string))
	case TInt:
		return cmpInt(a.v.(int64), b.v.(int64))
	case TFloat:
		return cmpFloat(a.v.(float64), b.v.(float64))
	case TBool:
		return boolInt(a.v.(bool)) - boolInt(b.v.(bool))
	case TTime:
		x, y := a.v.(time.Time), b.v.(time.Time)
		if x.Before(y) {
			return -1
		} else if x.After(y) {
			return 1
		}
		return 0
	}
	return 0
}

// Page applies sort, skip and limit to the matching ids (given in id order) and returns (page, total count).
func (w *World) Page(store string, match []string, q *Query) ([]string, int64) {
	ids := append([]string{}, match...)
	sort.SliceStable(ids, func(i, j int) bool {
		ra, rb := w.Rows[store][ids[i]], w.Rows[store][ids[j]]
		for _, f := range q.Sort {
			va, _, typ, _ := w.resolve(store, ra, f.Sym)
			vb, _, _, _ := w.resolve(store, rb, f.Sym)
			c := sortKeyLess(va[0], vb[0], typ)
			if f.Desc {
				c = -c
			}
			if c != 0 {
				return c < 0
			}
		}
		return ids[i] < ids[j]
	})
	total := int64(len(ids))
	skip := int64(0)
	if q.Skip != nil && *q.Skip > 0 {
		skip = *q.Skip
	}
	if skip > total {
		skip = total
	}
	ids = ids[skip:]
	if q.Limit != nil && !q.LimitNone && *q.Limit >= 0 && *q.Limit < int64(len(ids)) {
		ids = ids[:*q.Limit]
	}
	return ids, total
}

// ResolveAny exposes symbol resolution for building other Symbols implementations from a World:
// values are nil | string | int64 | float64 | bool | time.Time.
func (w *World) ResolveAny(store string, row *Row, path string) (vals []any, isSet bool, ok bool) {
	vs, set, _, found := w.resolve(store, row, path)
	if !found {
		return nil, false, false
	}
	for _, v := range vs {
		if v.null {
			vals = append(vals, nil)
		} else {
			vals = append(vals, v.v)
		}
	}
	return vals, set, true
}

// Paths lists the candidate scalar and set paths of a store with their declared types.
func Paths(store string) (scalars map[string]Type, sets map[string]Type) {
	scalars, sets = map[string]Type{}, map[string]Type{}
	for _, c := range scalarLhs[store] {
		scalars[c.path] = c.typ
	}
	for _, c := range setLhs[store] {
		sets[c.path] = c.typ
	}
	return
}

func SubSets(store string) []string     { return subSets[store] }
func TargetOf(store, set string) string { return symbols[store][set].Target }
