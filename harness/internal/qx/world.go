// Package qx is the query universe (schema Q): stores with every field type, sets, foreign keys, link
// sets and a tag map; a plain-Go world model of their contents; a typed filter AST rendered to ZitiQL text;
// and the reference evaluator / sort-page oracle that C01, C02, C19 and C20 compare the engine with.
package qx

import (
	"math"
	"sort"
	"time"

	"github.com/openziti/storage/boltz"
	"verif/harness/internal/core"
	"verif/harness/internal/schema"
)

const (
	Things = "things"
	Owners = "owners"
	Others = "others"
)

// DefsPrivate is Defs with the named direct symbols of the things store registered through the non-public constructors.
func DefsPrivate(private map[string]bool) []*schema.StoreDef {
	defs := Defs()
	things := defs[2]
	for i := range things.Fields {
		if private[things.Fields[i].Name] {
			things.Fields[i].Private = true
		}
	}
	return defs
}

func Defs() []*schema.StoreDef {
	owners := &schema.StoreDef{Type: Owners, BasePath: []string{"stores"},
		Fields: []schema.Field{{Name: "name", Kind: schema.KStr}, {Name: "age", Kind: schema.KI64}, {Name: "active", Kind: schema.KBool}, {Name: "tags", Kind: schema.KList},
			// favlist: a plain list of thing ids the application keeps itself (no index behind it); it may hold ids
			// that name nothing, the empty string among them
			{Name: "favlist", Kind: schema.KList, FK: Things},
			// a map on the linked store: things reach its elements through their owner (owner.attrs.k)
			{Name: "attrs", Kind: schema.KMap},
			{Name: "things", Kind: schema.KList, FK: Things, Derived: true}}}
	others := &schema.StoreDef{Type: Others, BasePath: []string{"stores"},
		Fields: []schema.Field{{Name: "name", Kind: schema.KStr}, {Name: "rank", Kind: schema.KI64}, {Name: "tags", Kind: schema.KList},
			// alias: a nullable string whose symbol is wrapped by a value mapper (Store.MapSymbol with NotNilStringMapper):
			// a null reads as the empty string, directly and at the end of a dotted path
			{Name: "alias", Kind: schema.KStr, NotNilMapped: true},
			{Name: "things", Kind: schema.KList, FK: Things, Derived: true}},
		Links: []schema.LinkDef{{Field: "things", Target: Things, TargetField: "friends"}}}
	things := &schema.StoreDef{Type: Things, BasePath: []string{"stores"},
		Fields: []schema.Field{
			{Name: "s", Kind: schema.KStr}, {Name: "ism", Kind: schema.KI32}, {Name: "ibig", Kind: schema.KI64}, {Name: "flt", Kind: schema.KF64},
			{Name: "b", Kind: schema.KBool}, {Name: "t", Kind: schema.KTime}, {Name: "grp", Kind: schema.KStr, Prefix: []string{"ext"}},
			{Name: "tags", Kind: schema.KList}, {Name: "nums", Kind: schema.KList}, {Name: "owner", Kind: schema.KStr, FK: Owners},
			{Name: "friends", Kind: schema.KLinks, FK: Others}, {Name: "meta", Kind: schema.KMap, Key: "mt"},
			{Name: "uk", Kind: schema.KStr}, // a key of its own per thing, or null: carries a nullable unique index
			// a link collection from the store to itself (written after all things exist)
			{Name: "peers", Kind: schema.KList, FK: Things, Derived: true}, {Name: "peerof", Kind: schema.KList, FK: Things, Derived: true},
		},
		Unique: []schema.UniqueDef{{Field: "uk", Nullable: true}},
		SetIdx: []string{"nums"},
		FKs:    []schema.FKDef{{Field: "owner", Target: Owners, Kind: schema.FkIndexNullable, BackRef: "things"}},
		Links:  []schema.LinkDef{{Field: "friends", Target: Others, TargetField: "things"}, {Field: "peers", Target: Things, TargetField: "peerof"}, {Field: "peerof", Target: Things, TargetField: "peers"}}}
	return []*schema.StoreDef{owners, others, things}
}

// Row is one entity of the world model. V values: nil | string | int64 | float64 | bool | time.Time | []string | map[string]any
type Row struct {
	Id string
	V  map[string]any
}

type World struct {
	Rows map[string]map[string]*Row // store -> id -> row
	// phantomRows selects the reading of a sub-query over a list which holds an id that names no entity: false = the
	// id is stepped over, true = the predicate is evaluated for it on a row without fields. Match judges a filter only
	// when both readings give the same answer.
	phantomRows bool
	sawPhantom  bool
}

func (w *World) Ids(store string) []string {
	var out []string
	for id := range w.Rows[store] {
		out = append(out, id)
	}
	sort.Strings(out)
	return out
}

// Type system of the oracle.
type Type int

const (
	TStr Type = iota
	TInt
	TFloat
	TBool
	TTime
	TAny
)

type SymInfo struct {
	Type   Type
	Set    bool
	Target string // for fk / fk-set: target store
	Map    bool
	// KidOnly: the set is typed to the child store layered on the target: sub-queries over it see only the members that
	// have child data (the stored list itself may hold other ids of the parent store)
	KidOnly bool
	// NotNil: the symbol is wrapped by a mapper which turns null into the empty string
	NotNil bool
}

var symbols = map[string]map[string]SymInfo{
	Things: {"id": {Type: TStr}, "uk": {Type: TStr}, "s": {Type: TStr}, "ism": {Type: TInt}, "ibig": {Type: TInt}, "flt": {Type: TFloat}, "b": {Type: TBool}, "t": {Type: TTime}, "grp": {Type: TStr},
		"tags": {Type: TStr, Set: true}, "nums": {Type: TStr, Set: true}, "owner": {Type: TStr, Target: Owners}, "friends": {Type: TStr, Set: true, Target: Others}, "meta": {Type: TAny, Map: true},
		"peers": {Type: TStr, Set: true, Target: Things}, "peerof": {Type: TStr, Set: true, Target: Things}},
	Owners: {"kidlist": {Type: TStr, Set: true, Target: Things, KidOnly: true}, "favlist": {Type: TStr, Set: true, Target: Things}, "id": {Type: TStr}, "name": {Type: TStr}, "age": {Type: TInt}, "active": {Type: TBool}, "tags": {Type: TStr, Set: true}, "things": {Type: TStr, Set: true, Target: Things}, "attrs": {Type: TAny, Map: true}},
	Others: {"id": {Type: TStr}, "name": {Type: TStr}, "alias": {Type: TStr, NotNil: true}, "rank": {Type: TInt}, "tags": {Type: TStr, Set: true}, "things": {Type: TStr, Set: true, Target: Things}},
}

func Symbols(store string) map[string]SymInfo { return symbols[store] }

// ---- value pools ----

var StrPool = []string{"a", "A", "ab", "abc", "b", "", "a b", "é", "5", "2.25", "0.5", "0.00005", "and", "null", `q"t`, `b\n`}
var TagPool = []string{"x", "X", "xy", "y", "5", "2.25", "", "or", "z z"}
var NumTagPool = []string{"5", "10", "2.25", "-1", "0.5", "7"}
var IntPool = []int64{0, 1, -1, 5, 7, 10, 2147483647, -2147483648, 9223372036854775807, -9223372036854775807}
var I32Pool = []int32{0, 1, -1, 5, 7, 10, 2147483647, -2147483648}
var FloatPool = []float64{0, 0.5, 2.25, -1, 5, 7, 10, 1e10, -0.5, 0.3, 0.1 + 0.2, 1e-10, 5e-10} // incl. values closer than 1e-9 to each other
var TimePool = []time.Time{
	time.Date(2020, 1, 1, 0, 0, 0, 0, time.UTC), time.Date(2020, 1, 1, 2, 0, 0, 0, time.FixedZone("p2", 7200)), // same instant as the first
	time.Date(2021, 6, 15, 12, 30, 0, 0, time.UTC), time.Date(1999, 12, 31, 23, 59, 59, 0, time.UTC), time.Date(2021, 6, 15, 12, 30, 0, 500, time.UTC),
	// far outside the int64-nanosecond range (1678-2262): "never expires" sentinels and historic dates
	time.Date(9999, 12, 31, 23, 59, 59, 0, time.UTC), time.Date(1, 1, 1, 0, 0, 0, 0, time.UTC), time.Date(2300, 1, 1, 0, 0, 0, 0, time.UTC), time.Date(1500, 7, 4, 0, 0, 0, 0, time.UTC),
}
var ThingIds = []string{"t1", "T1", "t 2", "and", "t5", "t6", "t7", "t8", "t9", "ta", "tb", "tc"}
var OwnerIds = []string{"o1", "O1", "o 3", "or", "o5", "o6"}
var OtherIds = []string{"x1", "X1", "x 3", "not", "x5", "x6"}
var MetaKeys = []string{"k", "n", "f", "flag", "when"}

func pickNullable[T any](r *core.Rand, pool []T, pNull float64) any {
	if r.P(pNull) {
		return nil
	}
	return core.Pick(r, pool)
}

// GenWorld generates a dataset: nulls with p=0.25, empty sets, shared values (ties), boundary numbers.
func GenWorld(r *core.Rand, maxThings int, small bool) *World {
	w := &World{Rows: map[string]map[string]*Row{Things: {}, Owners: {}, Others: {}}}
	sp, ip, fp := StrPool, IntPool, FloatPool
	if small { // shrunk pools force ties and null sort keys (C02)
		// the empty string is a value, not a null: both occur among the sort keys
		sp, ip, fp = []string{"a", "", "A", "ab", "b"}, IntPool[:4], []float64{0, 0.5, 0.3, 0.1 + 0.2, 1e-10, -1}
		if r.Bool() {
			// half of these worlds also hold the ends of the int64 range: keys further apart than an int64 can say
			ip = append(append([]int64{}, ip...), math.MaxInt64, math.MinInt64, math.MinInt64+1)
			fp = append(append([]float64{}, fp...), math.Inf(-1), math.Inf(1)) // the infinities are sort keys like any other; null sorts in front of them

		}
	}
	for _, id := range core.Subset(r, OwnerIds, 0.6) {
		w.Rows[Owners][id] = &Row{Id: id, V: map[string]any{"name": pickNullable(r, sp, 0.25), "age": pickNullable(r, ip, 0.25), "active": pickNullable(r, []bool{true, false}, 0.25),
			"tags": core.Subset(r, TagPool, 0.3)}}
		attrs := map[string]any{}
		if r.P(0.7) {
			attrs["k"] = core.Pick(r, sp)
		}
		if r.P(0.5) {
			attrs["n"] = core.Pick(r, ip[:4])
		}
		w.Rows[Owners][id].V["attrs"] = attrs
	}
	for _, id := range core.Subset(r, OtherIds, 0.6) {
		w.Rows[Others][id] = &Row{Id: id, V: map[string]any{"name": pickNullable(r, sp, 0.25), "alias": pickNullable(r, sp, 0.4), "rank": pickNullable(r, ip[:6], 0.25), "tags": core.Subset(r, TagPool, 0.3)}}
	}
	n := r.Intn(maxThings + 1)
	ids := core.Shuffle(r, ThingIds)
	if n > len(ids) {
		n = len(ids)
	}
	owners, others := w.Ids(Owners), w.Ids(Others)
	for _, id := range ids[:n] {
		v := map[string]any{
			"s": pickNullable(r, sp, 0.25), "ibig": pickNullable(r, ip, 0.25), "flt": pickNullable(r, fp, 0.25), "b": pickNullable(r, []bool{true, false}, 0.25),
			"t": pickNullable(r, TimePool, 0.25), "grp": pickNullable(r, sp[:4], 0.3), "tags": core.Subset(r, TagPool, 0.3), "nums": core.Subset(r, NumTagPool, 0.3),
		}
		// unique per thing, in another order than the ids; null for about a third
		if r.P(0.35) {
			v["uk"] = nil
		} else {
			b := []byte(id)
			for i, j := 0, len(b)-1; i < j; i, j = i+1, j-1 {
				b[i], b[j] = b[j], b[i]
			}
			v["uk"] = "k" + string(b)
		}
		if r.P(0.25) {
			v["ism"] = nil
		} else {
			v["ism"] = int64(core.Pick(r, I32Pool))
		}
		if len(owners) > 0 && r.P(0.7) {
			v["owner"] = core.Pick(r, owners)
		} else if r.P(0.3) {
			v["owner"] = "" // a reference that holds the empty string: names nobody, is not null itself
		} else {
			v["owner"] = nil
		}
		v["friends"] = core.Subset(r, others, 0.4)
		meta := map[string]any{}
		for _, k := range core.Subset(r, MetaKeys, 0.5) {
			switch r.Intn(6) {
			case 0:
				meta[k] = nil
			case 1:
				meta[k] = core.Pick(r, sp)
			case 2:
				meta[k] = core.Pick(r, ip[:7])
			case 3:
				meta[k] = core.Pick(r, fp)
			case 4:
				meta[k] = r.Bool()
			case 5:
				meta[k] = core.Pick(r, TimePool)
			}
		}
		if r.P(0.3) {
			meta["a"] = map[string]any{"b": core.Pick(r, sp)}
		} else if r.P(0.4) {
			// two nested maps whose elements have the same names (and a nested element named like a top-level one): each
			// path is its own element
			meta["a"] = map[string]any{"b": core.Pick(r, sp), "k": core.Pick(r, sp)}
			meta["c"] = map[string]any{"b": core.Pick(r, sp)}
		}
		v["meta"] = meta
		w.Rows[Things][id] = &Row{Id: id, V: v}
	}
	// peers: every thing links to some of the others (and now and then to itself)
	all := w.Ids(Things)
	for _, id := range all {
		w.Rows[Things][id].V["peers"] = core.Subset(r, all, 0.25)
	}
	w.DeriveBackRefs()
	return w
}

// Load writes the world into a fresh database through the entity stores (Create).
func Load(sc *schema.Schema, db *boltz.DbImpl, w *World, r *core.Rand) error {
	return db.Update(nil, func(ctx boltz.MutateContext) error { return LoadCtx(ctx, sc, w, r) })
}

// HashKid tells whether a thing is created through the child store when the schema has one.
func HashKid(id string) bool { return core.HashString(id)%2 == 0 }

// LoadCtx writes the world inside the caller's transaction.
func LoadCtx(ctx boltz.MutateContext, sc *schema.Schema, w *World, r *core.Rand) error {
	{
		for _, store := range []string{Owners, Others, Things} {
			st := sc.St(store)
			for _, id := range w.Ids(store) {
				row := w.Rows[store][id]
				e := &schema.Ent{Id: id, Typ: store, V: map[string]any{}, NilAbsent: r.Bool()}
				for _, f := range st.Def.Fields {
					if f.Derived {
						continue
					}
					v := row.V[f.Name]
					if f.Kind == schema.KI32 && v != nil {
						v = int32(v.(int64))
					}
					if f.Kind == schema.KList || f.Kind == schema.KLinks {
						if l, ok := v.([]string); ok {
							v = core.Shuffle(r, l)
						}
					}
					e.V[f.Name] = schema.CloneVal(v)
					if m, ok := e.V[f.Name].(map[string]any); ok && f.Kind == schema.KMap {
						// integers in a map arrive as int32 as often as int64 (a Go int32 in the caller's map)
						for k, mv := range m {
							if i, ok := mv.(int64); ok && i >= -2147483648 && i <= 2147483647 && r.Bool() {
								m[k] = int32(i)
							}
						}
					}
				}
				target := st
				if kid := sc.St(Things + "/kid"); kid != nil && store == Things && HashKid(id) {
					// the schema has a child store layered on things: every other thing is created through it
					target = kid
					e.V["extra"] = "x-" + id
				}
				if err := target.Store.Create(ctx, e); err != nil {
					return err
				}
			}
		}
		// the self link collection, once every thing exists
		things := sc.St(Things)
		for _, id := range w.Ids(Things) {
			if peers, _ := w.Rows[Things][id].V["peers"].([]string); len(peers) > 0 {
				if err := things.Links["peers"].SetLinks(ctx.Tx(), id, append([]string{}, peers...)); err != nil {
					return err
				}
			}
		}
		return nil
	}
}

// DeriveBackRefs recomputes the derived sets: owners.things (fk back references) and others.things (link set).
func (w *World) DeriveBackRefs() {
	for _, o := range w.Rows[Owners] {
		o.V["things"] = []string(nil)
	}
	for _, o := range w.Rows[Others] {
		o.V["things"] = []string(nil)
	}
	for _, id := range w.Ids(Things) {
		w.Rows[Things][id].V["peerof"] = []string(nil)
	}
	for _, id := range w.Ids(Things) {
		peers, _ := w.Rows[Things][id].V["peers"].([]string)
		for _, p := range peers {
			if pr := w.Rows[Things][p]; pr != nil {
				pr.V["peerof"] = append(pr.V["peerof"].([]string), id)
			}
		}
	}
	for _, id := range w.Ids(Things) {
		t := w.Rows[Things][id]
		if o, ok := t.V["owner"].(string); ok {
			if or := w.Rows[Owners][o]; or != nil {
				or.V["things"] = append(or.V["things"].([]string), id)
			}
		}
		fr, _ := t.V["friends"].([]string)
		for _, f := range fr {
			if or := w.Rows[Others][f]; or != nil {
				or.V["things"] = append(or.V["things"].([]string), id)
			}
		}
	}
	// owners.kidlist (only stored when the schema layers a child store on things): the owner's things, with and without
	// child data
	for _, o := range w.Rows[Owners] {
		o.V["kidlist"] = append([]string(nil), o.V["things"].([]string)...)
		o.V["favlist"] = append([]string(nil), o.V["things"].([]string)...)
		if core.HashString(o.Id)%3 != 0 {
			o.V["favlist"] = append(o.V["favlist"].([]string), "")
		}
		if core.HashString(o.Id)%2 == 0 {
			// a list of ids is a list of strings: it may hold the empty string (which names no entity, and sorts in
			// front of every id)
			o.V["kidlist"] = append(o.V["kidlist"].([]string), "")
		}
	}
}
