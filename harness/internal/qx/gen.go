package qx

import (
	"strconv"
	"strings"

	"verif/harness/internal/core"
)

// candidate left-hand sides per store (scalar paths and set paths with their declared type)
type lhsCand struct {
	path string
	typ  Type
	set  bool
}

var scalarLhs = map[string][]lhsCand{
	Things: {{"id", TStr, false}, {"s", TStr, false}, {"ism", TInt, false}, {"ibig", TInt, false}, {"flt", TFloat, false}, {"b", TBool, false}, {"t", TTime, false}, {"grp", TStr, false}, {"owner", TStr, false},
		{"owner.name", TStr, false}, {"owner.age", TInt, false}, {"owner.active", TBool, false}, {"owner.id", TStr, false}, {"owner.attrs.k", TAny, false}, {"owner.attrs.n", TAny, false},
		{"meta.k", TAny, false}, {"meta.n", TAny, false}, {"meta.f", TAny, false}, {"meta.flag", TAny, false}, {"meta.when", TAny, false}, {"meta.a.b", TAny, false}, {"meta.c.b", TAny, false}, {"meta.a.k", TAny, false}, {"meta.missing", TAny, false}},
	Owners: {{"id", TStr, false}, {"name", TStr, false}, {"age", TInt, false}, {"active", TBool, false}, {"attrs.k", TAny, false}},
	Others: {{"id", TStr, false}, {"name", TStr, false}, {"rank", TInt, false}, {"alias", TStr, false}},
}

var setLhs = map[string][]lhsCand{
	Things: {{"tags", TStr, true}, {"nums", TStr, true}, {"friends", TStr, true}, {"friends.name", TStr, true}, {"friends.rank", TInt, true}, {"friends.tags", TStr, true}, {"owner.tags", TStr, true}, {"friends.id", TStr, true},
		{"owner.things", TStr, true}, {"owner.things.s", TStr, true}, {"friends.things.ibig", TInt, true}, {"friends.things.owner.name", TStr, true}, {"friends.alias", TStr, true}, {"peers", TStr, true}, {"peers.s", TStr, true}, {"peerof.ibig", TInt, true}, {"peers.peers", TStr, true}},
	Owners: {{"tags", TStr, true}, {"things", TStr, true}, {"things.s", TStr, true}, {"things.ibig", TInt, true}, {"things.tags", TStr, true}, {"things.friends.name", TStr, true}, {"things.owner.name", TStr, true},
		{"things.friends", TStr, true}, {"things.owner", TStr, true}, {"things.friends.alias", TStr, true}},
	Others: {{"tags", TStr, true}, {"things", TStr, true}, {"things.flt", TFloat, true}, {"things.owner.name", TStr, true}, {"things.owner.age", TInt, true}, {"things.nums", TStr, true}, {"things.friends.rank", TInt, true}},
}

var subSets = map[string][]string{Things: {"friends", "peers"}, Owners: {"things", "favlist"}, Others: {"things"}}

type Gen struct {
	R     *core.Rand
	W     *World
	Store string
	// ScalarOnly restricts atoms to comparisons / null tests / bool symbols over direct scalar symbols (C19)
	ScalarOnly bool
	// KidSets: sub-queries over the owners store use the set that is typed to the child store of things
	KidSets bool
}

func (g *Gen) strLit(typ Type) Lit {
	r := g.R
	pool := StrPool
	if r.P(0.3) {
		pool = TagPool
	}
	if r.P(0.1) {
		pool = append(append([]string{}, ThingIds[:3]...), OtherIds[:3]...)
	}
	return LStr(core.Pick(r, pool))
}

func (g *Gen) intLit() Lit { return LInt(core.Pick(g.R, IntPool)) }
func (g *Gen) floatLit() Lit {
	f := core.Pick(g.R, FloatPool)
	return LFloat(f, strconv.FormatFloat(f, 'f', -1, 64))
}

// numLit for comparisons against a numeric symbol: int or float spelling
func (g *Gen) numLit() Lit {
	if g.R.P(0.5) {
		return g.intLit()
	}
	// floats with a fraction keep their float spelling; integer-valued floats are written with ".0"? No: the
	// lexer would read "5" as an int, so integer-valued floats are rendered with an exponent-free fraction
	if g.R.P(0.1) {
		// plain digits beyond the int64 range: a number all the same (a float), above every int64
		return LFloat(9223372036854775808, "9223372036854775808")
	}
	f := core.Pick(g.R, []float64{0.5, 2.25, -0.5, 4.75, 6.5, 10.5})
	return LFloat(f, strconv.FormatFloat(f, 'f', -1, 64))
}

func (g *Gen) litFor(typ Type, op string) []Lit {
	r := g.R
	n := 1
	switch op {
	case "in", "not in":
		n = 1 + r.Intn(3)
		if r.P(0.08) {
			n = 16 + r.Intn(9) // a long list (values repeat: the pools are smaller)
		}
	case "between", "not between":
		n = 2
	}
	var out []Lit
	for i := 0; i < n; i++ {
		switch typ {
		case TStr:
			if (op == "=" || op == "!=" || op == "in" || op == "not in" || op == "contains" || op == "not contains") && r.P(0.15) {
				// number-to-string coercion: only unambiguous renderings
				if r.Bool() {
					out = append(out, LInt(core.Pick(r, []int64{5, 10, 7, -1})))
				} else if r.P(0.6) {
					out = append(out, LFloat(2.25, "2.25"))
				} else {
					// a number whose shortest rendering has an exponent: the coercion writes it out in full
					out = append(out, LFloat(0.00005, "0.00005"))
				}
			} else {
				out = append(out, g.strLit(typ))
			}
		case TInt, TFloat:
			out = append(out, g.numLit())
		case TBool:
			out = append(out, LBool(r.Bool()))
		case TTime:
			out = append(out, LTime(core.Pick(r, TimePool)))
		}
	}
	if op == "in" || op == "not in" {
		// arrays are homogeneous per grammar alternative: strings, numbers (int/float may mix), datetimes
		if typ == TStr {
			allStr, allNum := true, true
			for _, l := range out {
				if l.T == TStr {
					allNum = false
				} else {
					allStr = false
				}
			}
			if !allStr && !allNum {
				for i := range out {
					out[i] = g.strLit(typ)
				}
			}
		}
	}
	if op == "between" || op == "not between" {
		// order the bounds most of the time
		if r.P(0.85) {
			if typ == TTime {
				if out[1].D.Before(out[0].D) {
					out[0], out[1] = out[1], out[0]
				}
			} else {
				a, b := litNum(out[0]), litNum(out[1])
				if b < a {
					out[0], out[1] = out[1], out[0]
				}
			}
		}
	}
	return out
}

func litNum(l Lit) float64 {
	if l.T == TInt {
		return float64(l.I)
	}
	return l.F
}

func opsFor(typ Type) []string {
	switch typ {
	case TStr:
		return []string{"=", "!=", "<", "<=", ">", ">=", "in", "not in", "contains", "not contains", "icontains", "not icontains"}
	case TInt, TFloat:
		return []string{"=", "!=", "<", "<=", ">", ">=", "in", "not in", "between", "not between", "contains", "not contains"}
	case TBool:
		return []string{"=", "!="}
	case TTime:
		return []string{"=", "!=", "<", "<=", ">", ">=", "in", "not in", "between", "not between"}
	}
	return nil
}

// Atom generates one well-typed atomic predicate.
func (g *Gen) Atom(depth int) Expr {
	r := g.R
	x := r.Float()
	if g.ScalarOnly {
		x = x * 0.42
		if r.P(0.1) {
			if r.Bool() {
				return BoolSym{Name: "b"}
			}
			return Const{V: r.Bool()}
		}
	}
	switch {
	case x < 0.42: // scalar comparison
		c := core.Pick(r, scalarLhs[g.Store])
		for g.ScalarOnly && (strings.Contains(c.path, ".")) {
			c = core.Pick(r, scalarLhs[g.Store])
		}
		typ := c.typ
		if typ == TAny {
			typ = core.Pick(r, []Type{TStr, TInt, TFloat, TBool, TTime})
		}
		if r.P(0.12) {
			return Cmp{L: LHS{Kind: "sym", Sym: c.path}, Op: core.Pick(r, []string{"=", "!="}), R: []Lit{LNull()}}
		}
		op := core.Pick(r, opsFor(typ))
		lits := g.litFor(typ, op)
		if (op == "contains" || op == "not contains") && (typ == TInt || typ == TFloat) {
			lits = []Lit{core.Pick(r, []Lit{LInt(5), LInt(1), LStr("5"), LStr("."), LFloat(2.25, "2.25")})}
		}
		if op == "icontains" || op == "not icontains" {
			lits = []Lit{LStr(core.Pick(r, []string{"a", "A", "B", "ab", "", "Z", "5"}))}
		}
		return Cmp{L: LHS{Kind: "sym", Sym: c.path}, Op: op, R: lits}
	case x < 0.70: // anyOf / allOf
		c := core.Pick(r, setLhs[g.Store])
		op := core.Pick(r, opsFor(c.typ))
		lits := g.litFor(c.typ, op)
		if op == "icontains" || op == "not icontains" {
			lits = []Lit{LStr(core.Pick(r, []string{"x", "X", "Y", "", "z"}))}
		}
		if (op == "contains" || op == "not contains") && (c.typ == TInt || c.typ == TFloat) {
			lits = []Lit{LInt(5)}
		}
		return Cmp{L: LHS{Kind: core.Pick(r, []string{"anyOf", "allOf"}), Sym: c.path}, Op: op, R: lits}
	case x < 0.80: // count
		op := core.Pick(r, []string{"=", "!=", "<", "<=", ">", ">=", "in", "between"})
		var lits []Lit
		switch op {
		case "in":
			lits = []Lit{LInt(int64(r.Intn(3))), LInt(int64(r.Intn(4)))}
		case "between":
			lits = []Lit{LInt(int64(r.Intn(2))), LInt(int64(1 + r.Intn(4)))}
		default:
			lits = []Lit{LInt(int64(r.Intn(4)))}
			if r.P(0.2) {
				lits = []Lit{LFloat(1.5, "1.5")}
			}
		}
		l := LHS{Kind: "count", Sym: core.Pick(r, []string{setLhs[g.Store][0].path, setLhs[g.Store][1].path})}
		if r.P(0.4) {
			l.Sym = core.Pick(r, setLhs[g.Store]).path // dotted sets too: one element per related entity and value
		}
		if depth > 0 && r.P(0.5) {
			l = LHS{Kind: "count", Sub: g.SubQ(depth - 1)}
		}
		return Cmp{L: l, Op: op, R: lits}
	case x < 0.88: // isEmpty
		if depth > 0 && r.P(0.5) {
			return IsEmpty{Sub: g.SubQ(depth - 1)}
		}
		if r.P(0.3) {
			return IsEmpty{Sym: core.Pick(r, setLhs[g.Store]).path}
		}
		return IsEmpty{Sym: core.Pick(r, []string{setLhs[g.Store][0].path, setLhs[g.Store][1].path})}
	case x < 0.94:
		for _, c := range scalarLhs[g.Store] {
			if c.typ == TBool && r.P(0.6) {
				return BoolSym{Name: c.path}
			}
		}
		return Const{V: r.Bool()}
	default:
		return Const{V: r.Bool()}
	}
}

func (g *Gen) SubQ(depth int) *SubQ {
	set := core.Pick(g.R, subSets[g.Store])
	if g.KidSets && g.Store == Owners {
		set = "kidlist"
	}
	target := symbols[g.Store][set].Target
	sub := &Gen{R: g.R, W: g.W, Store: target}
	q := &Query{Pred: sub.Expr(depth)}
	if g.R.P(0.25) {
		s := int64(g.R.Intn(3))
		q.Skip = &s
	}
	if g.R.P(0.25) {
		l := int64(g.R.Intn(3))
		q.Limit = &l
	}
	if g.R.P(0.12) {
		// a sub-query without a predicate: paging (or nothing but a limit) over all related entities
		q.Pred = nil
		if q.Skip == nil && q.Limit == nil {
			l := int64(1 + g.R.Intn(3))
			q.Limit = &l
		}
	}
	return &SubQ{Set: set, Q: q}
}

// Expr generates a boolean expression of the given nesting depth.
func (g *Gen) Expr(depth int) Expr {
	r := g.R
	if depth <= 0 || r.P(0.35) {
		return g.Atom(depth)
	}
	switch r.Intn(5) {
	case 0, 1:
		return And{g.Expr(depth - 1), g.Expr(depth - 1)}
	case 2, 3:
		return Or{g.Expr(depth - 1), g.Expr(depth - 1)}
	default:
		return Not{g.Expr(depth - 1)}
	}
}

// sortable scalar symbols of things
var SortSyms = []string{"s", "ism", "ibig", "flt", "b", "t", "grp", "owner", "id", "uk"}

func (g *Gen) Sort(max int) []SortF {
	r := g.R
	n := r.Intn(max + 1)
	var out []SortF
	for i := 0; i < n; i++ {
		f := SortF{Sym: core.Pick(r, SortSyms)}
		switch r.Intn(3) {
		case 0:
			f.Dir = "asc"
		case 1:
			f.Dir, f.Desc = "desc", true
		}
		out = append(out, f)
	}
	return out
}
