// vcheck is both the per-property driver and (with -worker) the worker child
// process that executes a slice of the planned cases.
package main

import (
	"flag"
	"fmt"
	"os"
	"runtime/pprof"

	"verif/harness/internal/core"
	_ "verif/harness/props"
)

func main() {
	prop := flag.String("prop", "", "property id")
	tier := flag.String("tier", "quick", "quick|thorough")
	seed := flag.Int64("seed", 1, "seed")
	worker := flag.Int("worker", -1, "worker index (worker mode)")
	nworkers := flag.Int("nworkers", 1, "number of workers")
	out := flag.String("out", "", "worker output dir")
	only := flag.Int("only", -1, "run only this case")
	verif := flag.String("verif", "/verif", "verif directory")
	replay := flag.String("replay", "", "replay file")
	list := flag.Bool("list", false, "list properties")
	flag.Parse()
	if *list {
		for _, id := range core.IDs() {
			fmt.Println(id)
		}
		return
	}
	p := core.Lookup(*prop)
	if p == nil {
		fmt.Fprintf(os.Stderr, "unknown property %q\n", *prop)
		os.Exit(3)
	}
	if *worker >= 0 {
		if pf := os.Getenv("VERIF_CPUPROFILE"); pf != "" { // diagnostic: CPU profile of worker 0
			if f, err := os.Create(fmt.Sprintf("%s.%d", pf, *worker)); err == nil {
				_ = pprof.StartCPUProfile(f)
				defer pprof.StopCPUProfile()
			}
		}
		core.RunWorker(p, core.Tier(*tier), *seed, *worker, *nworkers, *out, *only)
		return
	}
	os.Exit(core.Drive(p, core.Tier(*tier), *seed, *verif, *replay))
}
