#!/bin/bash
# seedtest.sh <mutant-dir> <seed-name> <property> <check-id> [<check-id>...]
# 1. confirms the mutant in a scratch worktree: builds, existing suite passes, demo fails with it and passes without it;
# 2. applies it to /repo, runs the named checks (quick), reverts /repo;
# 3. records everything under /verif/seeded/<seed-name>/.
set -u
export GOFLAGS=-mod=mod GOPROXY=off GOSUMDB=off GOTOOLCHAIN=local
MUT="$1"; NAME="$2"; PROP="$3"; shift 3
CHECKS="$*"
VERIF=/verif
WT=/tmp/wt-verify-$$
OUT="$VERIF/seeded/$NAME"
mkdir -p "$OUT"
cp "$MUT/patch.diff" "$OUT/patch.diff"
[ -f "$MUT/demo_test.go" ] && cp "$MUT/demo_test.go" "$OUT/demo_test.go"
[ -f "$MUT/NOTES.md" ] && cp "$MUT/NOTES.md" "$OUT/NOTES.md"
git -C /repo worktree add -q --detach "$WT" HEAD || exit 9
cleanup() { git -C /repo worktree remove --force "$WT" >/dev/null 2>&1; git -C /repo reset -q --hard HEAD ; }
trap cleanup EXIT
pkg=$(grep -m1 '^package ' "$OUT/demo_test.go" 2>/dev/null | awk '{print $2}' | sed 's/_test$//')
[ -z "$pkg" ] && pkg=boltz
apply() { (cd "$1" && (git apply "$OUT/patch.diff" 2>/dev/null || git apply -3 "$OUT/patch.diff" 2>/dev/null || patch -p1 -s --no-backup-if-mismatch < "$OUT/patch.diff")); }
R_APPLY=ok; R_BUILD=; R_SUITE=; R_DEMO_WITH=; R_DEMO_WITHOUT=
apply "$WT" || R_APPLY=failed
if [ "$R_APPLY" = ok ]; then
  (cd "$WT" && go build ./... >/dev/null 2>&1) && R_BUILD=ok || R_BUILD=failed
  (cd "$WT" && go test -vet=off -count=1 ./... >"$OUT/suite_with.log" 2>&1) && R_SUITE=pass || R_SUITE=FAIL
  if [ -f "$OUT/demo_test.go" ]; then
    cp "$OUT/demo_test.go" "$WT/$pkg/zz_demo_test.go"
    (cd "$WT" && go test -vet=off -count=1 ./$pkg/ >"$OUT/demo_with.log" 2>&1) && R_DEMO_WITH=pass || R_DEMO_WITH=fail
    (cd "$WT" && git reset -q --hard HEAD && go test -vet=off -count=1 ./$pkg/ >"$OUT/demo_without.log" 2>&1) && R_DEMO_WITHOUT=pass || R_DEMO_WITHOUT=fail
  fi
fi
RESULTS=""
if [ "$R_APPLY" = ok ] && apply /repo; then
  for id in $CHECKS; do
    out=$(cd $VERIF && timeout 1200 ./check $id quick 2>&1); code=$?
    echo "$out" | cut -c1-300 | head -12 > "$OUT/check_$id.log"
    RESULTS="$RESULTS\"$id\": $code, "
    echo "  check $id -> exit $code"
  done
  git -C /repo reset -q --hard HEAD
fi
cat > "$OUT/meta.json" <<EOF
{"id": "$NAME", "property": "$PROP", "source": "$MUT",
 "confirmed": {"applies": "$R_APPLY", "builds": "$R_BUILD", "existing_suite_with_change": "$R_SUITE", "demo_with_change": "$R_DEMO_WITH", "demo_without_change": "$R_DEMO_WITHOUT"},
 "check_exit_codes": {${RESULTS%, }},
 "ran": "seedtest.sh: scratch worktree confirmation, then git -C /repo apply; ./check <id> quick; git -C /repo reset -q --hard HEAD"}
EOF
rm -f "$OUT"/suite_with.log
cat "$OUT/meta.json"
