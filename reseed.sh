#!/bin/bash
# reseed.sh [pattern] : re-runs every seeded change (seeded/<name>/patch.diff) against the current checks and /repo HEAD.
# Prints one line per seed; exit 1 if a seed that applies is not reported by the check of its property.
cd /verif
pat="${1:-.}"
bad=0
for d in $(ls seeded | grep -E "$pat"); do
  [ -f seeded/$d/patch.diff ] || continue
  prop=$(python3 -c "import json,sys;print(json.load(open('seeded/$d/meta.json'))['property'])" 2>/dev/null)
  [ -z "$prop" ] && continue
  out=$(./seedtest.sh seeded/$d $d $prop $prop 2>/dev/null)
  code=$(echo "$out" | grep -o "check $prop -> exit [0-9]*" | awk '{print $NF}')
  applies=$(echo "$out" | grep -o '"applies": "[a-z]*"' | head -1)
  suite=$(echo "$out" | grep -o '"existing_suite_with_change": "[A-Za-z]*"' | head -1)
  echo "$d prop=$prop $applies $suite exit=${code:-none}"
  if [ "${code:-none}" != "1" ]; then bad=1; fi
done
git -C /repo status --short | head -3
exit $bad
