#!/bin/bash
# reseed2.sh [pattern]: like reseed.sh, but in three parallel lanes that leave /repo alone (seedtest2.sh).
# RESEED_SKIP=<file with names> leaves those out (to resume an interrupted run).
# Prints one line per seed to /tmp/reseed2-<lane>.log: <name> prop=<P> applies=.. suite=.. exit=<code of the own-property check>
cd /verif/seeded || exit 1
names=($(ls -d ${1:-*}/ | tr -d /))
for lane in 1 2 3; do
  (
    i=0
    for n in "${names[@]}"; do
      i=$((i+1)); [ $((i % 3)) -eq $((lane % 3)) ] || continue
      if [ -n "${RESEED_SKIP:-}" ] && grep -qx "$n" "$RESEED_SKIP"; then continue; fi
      P=$(python3 -c "import json;print(json.load(open('/verif/seeded/$n/meta.json'))['property'])" 2>/dev/null) || continue
      out=$(/verif/seedtest2.sh $lane /verif/seeded/$n $n $P $P 2>&1)
      code=$(echo "$out" | grep -o "check $P -> exit [0-9]*" | awk '{print $NF}')
      conf=$(echo "$out" | grep -o '"applies": "[a-z]*"' | head -1)
      suite=$(echo "$out" | grep -o '"existing_suite_with_change": "[A-Za-z]*"' | head -1)
      echo "$n prop=$P $conf $suite exit=${code:-none}"
    done
    echo "LANE $lane DONE"
  ) > /tmp/reseed2-$lane.log 2>&1 &
done
wait
