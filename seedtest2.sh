#!/bin/bash
# seedtest2.sh <lane> <mutant-dir> <seed-name> <property> <check-id> [<check-id>...]
# Same as seedtest.sh, but never touches /repo: lane <n> has its own worktree of openziti/storage (/tmp/lane<n>/repo)
# and its own copy of the committed+working /verif harness (/tmp/lane<n>/verif) whose go.mod replaces the module by
# that worktree. Several lanes can run at once, also next to reseed.sh or a vp run. Scratch only: remove /tmp/lane<n>
# (git -C /repo worktree remove --force /tmp/lane<n>/repo) when done.
set -u
export GOFLAGS=-mod=mod GOPROXY=off GOSUMDB=off GOTOOLCHAIN=local
LANE="$1"; MUT="$2"; NAME="$3"; PROP="$4"; shift 4
CHECKS="$*"
L=/tmp/lane$LANE
OUT="/verif/seeded/$NAME"
mkdir -p "$L" "$OUT"
if [ ! -d "$L/repo" ]; then git -C /repo worktree add -q --detach "$L/repo" HEAD || exit 9; fi
(cd "$L/repo" && git reset -q --hard && git clean -fdq && git checkout -q --detach "${BASE_REV:-$(git -C /repo rev-parse HEAD)}")
rsync -a --delete --exclude bin --exclude evidence --exclude replays --exclude seeded --exclude .git "${VERIF_SRC:-/verif}/" "$L/verif/"
sed -i "s#=> /[a-z0-9/]*repo\$#=> $L/repo#" "$L/verif/harness/go.mod"
cp "$MUT/patch.diff" "$OUT/patch.diff"
[ -f "$MUT/demo_test.go" ] && cp "$MUT/demo_test.go" "$OUT/demo_test.go"
[ -f "$MUT/NOTES.md" ] && cp "$MUT/NOTES.md" "$OUT/NOTES.md"
WT="$L/repo"
pkg=$(grep -m1 '^package ' "$OUT/demo_test.go" 2>/dev/null | awk '{print $2}' | sed 's/_test$//')
[ -z "$pkg" ] && pkg=boltz
apply() { (cd "$1" && (git apply "$OUT/patch.diff" 2>/dev/null || git apply -3 "$OUT/patch.diff" 2>/dev/null || patch -p1 -s --no-backup-if-mismatch < "$OUT/patch.diff")); }
R_APPLY=ok; R_BUILD=; R_SUITE=; R_DEMO_WITH=; R_DEMO_WITHOUT=
apply "$WT" || R_APPLY=failed
if [ "$R_APPLY" = ok ] && [ -z "${SKIP_CONFIRM:-}" ]; then
  (cd "$WT" && go build ./... >/dev/null 2>&1) && R_BUILD=ok || R_BUILD=failed
  (cd "$WT" && go test -vet=off -count=1 ./... >"$L/suite_with.log" 2>&1) && R_SUITE=pass || R_SUITE=FAIL
  if [ -f "$OUT/demo_test.go" ]; then
    cp "$OUT/demo_test.go" "$WT/$pkg/zz_demo_test.go"
    (cd "$WT" && go test -vet=off -count=1 ./$pkg/ >"$OUT/demo_with.log" 2>&1) && R_DEMO_WITH=pass || R_DEMO_WITH=fail
    (cd "$WT" && git reset -q --hard HEAD && go test -vet=off -count=1 ./$pkg/ >"$OUT/demo_without.log" 2>&1) && R_DEMO_WITHOUT=pass || R_DEMO_WITHOUT=fail
    rm -f "$WT/$pkg/zz_demo_test.go"
  fi
fi
(cd "$WT" && git reset -q --hard HEAD && git clean -fdq)
RESULTS=""
if [ "$R_APPLY" = ok ] && apply "$WT"; then
  for id in $CHECKS; do
    out=$(cd "$L/verif" && timeout 1200 ./check $id quick 2>&1); code=$?
    echo "$out" | cut -c1-300 | head -12 > "$OUT/check_$id.log"
    RESULTS="$RESULTS\"$id\": $code, "
    echo "  check $id -> exit $code"
  done
  (cd "$WT" && git reset -q --hard HEAD && git clean -fdq)
fi
if [ -n "${SKIP_CONFIRM:-}" ] && [ -n "${UPDATE_META:-}" ] && [ -f "$OUT/meta.json" ]; then
  # fast re-validation: keep the confirmation of the earlier full run, refresh "applies" and the check exit codes
  python3 - "$OUT/meta.json" "$R_APPLY" "{${RESULTS%, }}" <<'PYEOF'
import json, sys
path, applies, results = sys.argv[1], sys.argv[2], json.loads(sys.argv[3])
m = json.load(open(path))
m.setdefault("confirmed", {})["applies"] = applies
if applies == "ok":
    m.setdefault("check_exit_codes", {}).update(results)
else:
    m["check_exit_codes"] = {}
m["revalidated"] = "check exit codes refreshed by a fast re-run (change applied, checks run; suite and demonstration as confirmed before)"
json.dump(m, open(path, "w"), indent=1)
PYEOF
fi
if [ -z "${SKIP_CONFIRM:-}" ]; then
cat > "$OUT/meta.json" <<EOF
{"id": "$NAME", "property": "$PROP", "source": "$MUT",
 "confirmed": {"applies": "$R_APPLY", "builds": "$R_BUILD", "existing_suite_with_change": "$R_SUITE", "demo_with_change": "$R_DEMO_WITH", "demo_without_change": "$R_DEMO_WITHOUT"},
 "check_exit_codes": {${RESULTS%, }},
 "ran": "seedtest2.sh: scratch worktree of openziti/storage at /repo HEAD, change applied with git apply, ./check <id> quick from a harness copy that replaces the module by that worktree, worktree reset"}
EOF
cat "$OUT/meta.json"
fi
