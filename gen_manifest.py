#!/usr/bin/env python3
"""Regenerates MANIFEST.json from the table below (run after adding a check)."""
import json, subprocess, os

HERE = os.path.dirname(os.path.abspath(__file__))

# id -> (category, technique, text, note, design_ref)
CHECKS = {
 "C01": ("exploration", "differential runtime monitor: reference filter evaluator vs engine over generated datasets x typed filters x evaluation paths",
         "Every generated (dataset, well-typed filter, evaluation path) is answered by the engine and by an independent reference evaluator; any differing id set is a violation. Reaches the for-all-inputs quantifier by volume and operator x type x null coverage promises, not by proof.",
         "Trusted: the reference evaluator (refeval) and the dataset writer; only semantics the statement fixes are judged (see DESIGN 5.6).", "6/C01"),
 "C02": ("exploration", "differential runtime monitor: sort/page oracle vs engine, boundary grid of skip/limit enumerated per sort strategy",
         "Ordered id list and count compared with a sort/page oracle for every scan strategy and cursor path; skip/limit boundary grid enumerated exhaustively per dataset.",
         "Trusted: oracle sort (Go sort.SliceStable over model values); NaN sort keys excluded.", "6/C02"),
 "C03": ("exploration", "online structural monitor after every transaction of model-predicted random histories",
         "Histories of accepted and rejected create/update/patch/delete run against the real stores; after each transaction the unique/set index buckets and index reads are recomputed from entity state and compared; outcomes compared with a reference model; rejected transactions must leave the file byte-identical.",
         "Trusted: reference model (kmodel), raw bucket reader. Bounded id/value universes.", "6/C03"),
 "C04": ("exploration", "online structural monitor + cascade/restrict reference model over every fk wiring and hostile ids",
         "Histories over six fk wirings incl. self reference with ids containing quotes, backslashes, keywords; back-reference buckets, dangling references and the surviving-id set after deletes are compared with the model after every transaction.",
         "Cascade closures include reference cycles and self references; a non-nullable fk / unique index of a child store whose part is created over an existing entity; every fifth transaction under a cancelled context.Context. Restrict-inside-cascade order-dependent cases skipped. CascadeCreateUpdate = declared non-enforcement on delete.", "6/C04"),
 "C05": ("exploration", "bounded-exhaustive SetLinks pairs + random link/ref-count histories with structural monitor",
         "Every (current set, requested list) pair over a 4-element universe (thorough: all, quick: sample) plus random histories; both sides of every link / count compared raw and through the API after each transaction.",
         "Counts that are no counts (negative, beyond int32) may be refused or read as a removal, but must never be stored (model-free part); the model-based histories use counts 0-3. Link collections inside one store (one symbol on both sides, two fields of the store) and links written by the entity strategy (incl. an update to the empty list) have model-free parts of their own.", "6/C05"),
 "C06": ("exploration", "full-file scan for the deleted id after every committed delete, then re-create and re-check against the model",
         "After each committed delete (incl. cascades) an independent scanner searches every key and value of the file for the id (raw and type-tagged); the id is then re-created and must behave as new.",
         "Ids are disjoint from all value pools so a hit is a real trace. Model-free parts: link collections inside one store (self links, links and deletes in one transaction), clean-ups that span bbolt pages (hundreds of referrers / links / index entries), an fk index whose target is a child store, a set index over an integer set. CascadeCreateUpdate referrers excluded (declared behaviour).", "6/C06"),
 "C07": ("fault_enumeration", "fault injection at every write primitive and every failure kind x position; dump equality + callback counters",
         "For each transaction body every failure kind is injected at every position, including a storage error at the n-th boltz write primitive for n=1..W via the verif hook; the caller must get an error, the dump must be unchanged, no listener/commit action may run, and the failing store call itself must return non-nil.",
         "Also covers the migration manager as a transaction body and one MutateContext carried through several transactions (incl. overlapping commit actions and a panicking body). Trusted: the verif hook placement (boltz write primitives); bbolt commit failures are out of scope.", "6/C07"),
 "C08": ("exploration", "offline checker over recorded event log vs model-expected delivery multiset (race build)",
         "All listener registration styles record deliveries; after every transaction the multiset of (listener, store, type, id, state) is compared with the model's expectation; deliveries before commit and duplicate/missing commit actions are violations.",
         "Quiescence by goroutine-count baseline; extended child store judged only for child-created entities.", "6/C08"),
 "C09": ("exploration", "corruption injection; check / fix / re-check compared with the structural monitor's diff and dump equality",
         "Consistent states get random subsets of raw corruptions; every injected inconsistency must be reported, check-only must leave the dump unchanged (read-only and writable tx), one fix pass must converge to a monitor-clean state.",
         "Report matching is by id/value mention; extra reports on a corrupted db not judged. Also: fk constraints whose target is a child store (raw references to parent-only entities), one-sided links inside one store, a missing index bucket together with a duplicate value.", "6/C09"),
 "C10": ("exploration", "panic / watchdog monitor over grammar-derived, mutated, bounded-exhaustive token sequences and random bytes; junk-character rejection oracle",
         "Every input is parsed and, if accepted, evaluated against datasets incl. nulls and empty stores; a panic or watchdog expiry is a violation; inputs that are non-sentences by construction (unrecognised characters outside strings) must be rejected.",
         "Literals the lexer accepts and the conversion refuses (1e400, Feb 30, integers beyond int64 in skip / limit) at every list position; simple comparisons with a raw control character or a non-UTF-8 byte inside the literal must be refused. Datasets include stored values shorter than their type tag (raw writes) and text that is not valid UTF-8 (must be refused). No independent recogniser for the grammar: acceptance of ill-formed text made only of recognised characters is not judged. Termination restated as a per-input watchdog.", "6/C10"),
 "C11": ("exploration", "differential over all strings up to a length bound with confusable rows",
         "For every string s over a hostile alphabet, field = lit(s) (and !=, in, contains, anyOf) must match exactly the rows equal to s among s and its confusables; ParseZqlString(lit(s)) = s.",
         "Alphabet and length bound; lit() escapes as the statement describes.", "6/C11"),
 "C12": ("exploration", "truth tables of all boolean skeletons up to N atoms vs precedence-climbing oracle; respelling metamorphic",
         "Every and/or/not/parenthesis skeleton up to N atoms is parsed and its full truth table compared with an oracle computed from the token sequence; case/whitespace/parenthesis respellings must not change results.",
         "Bare `not` adjacent to and/or is not judged (statement fixes only not (P)); bool literals occur as operands.", "6/C12"),
 "C13": ("exploration", "write in one transaction / read in a later one over boundary values; codec injectivity by hash set",
         "Every setter/getter pair with boundary values, nested containers, all checker subsets; compound-key codec round trip and pairwise-distinct encodings.",
         "Reserved list-size key excluded. Two handles on one bucket inside a transaction see each other's writes; a written empty list stays a list; zones of minus one minute / odd seconds.", "6/C13"),
 "C14": ("exploration", "cursor trace vs sorted-slice reference cursor for every cursor kind x subset x seek target",
         "Each cursor kind is driven through random Next/Seek interleavings over all subsets of an 8-element universe and compared step by step with a reference cursor.",
         "Universe of 8 byte strings incl. empty string and shared prefixes.", "6/C14"),
 "C15": ("exploration", "histories through parent, child and extended child stores with structural monitor",
         "Creates/updates/patches/deletes through all three stores; visibility through each store, shared fields, parent indexes and no-trace deletes compared with the model after every transaction.",
         "A create through a child store over an entity without data in that store is read as an update of the shared part plus new child data (what the repaired code does). A model-free part covers two sibling child stores below one shared path element (plain / extended, with a link collection of its own): presence, lookups and queries by id through every store. Every store's id cursors are also driven through Seek to every id.", "6/C15"),
 "C16": ("exploration", "histories over context kind x entity kind x op with model outcomes and dump equality on refusals",
         "Every combination of system/ordinary context and entity incl. flag flips; outcome vs model; refused transactions leave the dump unchanged; flag never changes.",
         "Every entity of the constrained store is linked (plain and ref-counted collection) to two entities of another store; links, indexes and child-store indexes are compared after every transaction, tolerant callers included.", "6/C16"),
 "C17": ("exploration", "dump equality after restore; stamped-state readers + porcupine register linearizability under the race detector",
         "Sequential: snapshot by every route, mutate, restore, dumps must be equal modulo the two markers; concurrent: readers verify whole-state stamps during restores, history checked with porcupine, race detector on.",
         "Interleavings sampled. Two restores at the same time (readers that meet half way) must leave one of the two snapshots in full; a snapshot written over an earlier snapshot's file after a restore holds the current state; readers positioned behind a container header are read from where they stand; restore listeners are independent (one waits, bounded, for another). Snapshot / RootBucket inside transactions run next to the restores; bounded progress (no client completes anything for 20 s) is the verdict for hangs, with the goroutine dump as witness.", "6/C17"),
 "C18": ("exploration", "stamped-state readers vs writer under the Go race detector; helper hammering",
         "Readers verify every query/index/link read equals state(g) of one generation; race reports in openziti/storage or antlr are violations.",
         "Interleavings sampled; literal converters (ParseZqlDatetime / ParseZqlString) are called by goroutines with literals of their own and their results checked; ids returned by queries are kept beyond the read transaction and compared three commits later; compiled queries are not shared between goroutines (not claimed); providers, role slices and symbol tables are.", "6/C18"),
 "C19": ("exploration", "three-way differential: ObjectStore vs bolt store vs reference evaluator over the paging boundary grid",
         "Same collections in both stores, same queries; objects, order and count compared pairwise and with the oracle.",
         "Scalar symbols only. Compiled queries are run twice; an empty object store sits behind a slice iterator whose Current is only defined while IsValid.", "6/C19"),
 "C20": ("exploration", "accept/reject oracle from the generator's referenced-symbol set and an independent reflection walk; node-kind census",
         "For every typed query and every referenced symbol a store where exactly that symbol is non-public must reject naming it; all-public must accept; node kinds reached are compared with the Visitor method set.",
         "Sort fields adopted from another query (AdoptSortFields) are validated like the query's own; a grant part judges who a symbol published by a child store is public for.", "6/C20"),
}

BUILT = [l.strip() for l in open(os.path.join(HERE, "BUILT")).read().split() if l.strip()]

props = [json.loads(l) for l in open(os.path.join(HERE, "properties.jsonl"))]
hook_commits = [l.strip() for l in open(os.path.join(HERE, "HOOK_COMMITS")).read().split()] if os.path.exists(os.path.join(HERE, "HOOK_COMMITS")) else []

checks = []
na = []
for p in props:
    pid = p["id"]
    cat, tech, text, note, ref = CHECKS[pid]
    if pid in BUILT:
        checks.append({
            "property_id": pid,
            "quick_cmd": f"./check {pid} quick",
            "thorough_cmd": f"./check {pid} thorough",
            "evidence_file": f"/verif/evidence/{pid}.json",
            "replay_cmd_template": f"./check {pid} --replay {{path}}",
            "engine": "vcheck",
            "level_claimed": {"category": cat, "text": text, "design_ref": "DESIGN.md " + ref},
            "level_note": note or "Reference model and harness trusted; bounded universes.",
            "technique": tech,
        })
    else:
        na.append({"property_id": pid, "reason": "check not built yet in this session (runtime-monitoring design in DESIGN.md section " + ref + ")"})

m = {
    "version": 1,
    "setup_cmd": "./setup.sh",
    "hooks": {
        "guard": "verif",
        "enable": "go build -tags verif (the harness module replaces github.com/openziti/storage by /repo)",
        "baseline_off_cmd": "cd /repo && GOFLAGS=-mod=mod GOPROXY=off GOSUMDB=off GOTOOLCHAIN=local go test -vet=off -count=1 ./...",
        "source_commits": hook_commits,
        "add_only": True,
    },
    "engines": [{"name": "vcheck", "path": "/verif/harness", "serves_properties": BUILT,
                 "kind_free_text": "Go harness: deterministic case planner, worker child processes, reference models, structural monitor, race-detector builds"}],
    "checks": checks,
    "notes": "Technique family: runtime monitoring and sanitizers. Exit 0 held / 1 VIOLATION / 2 INCONCLUSIVE / 3 build failure. Known findings: /verif/known_findings.txt.",
    "not_applicable": na,
}
json.dump(m, open(os.path.join(HERE, "MANIFEST.json"), "w"), indent=1)
print("built:", BUILT, "not yet:", [x["property_id"] for x in na])
