#!/bin/bash
# reseed3.sh [pattern]: fast re-validation of every seeded change in six parallel lanes (1 2 3 5 6 7): the change is
# applied in the lane's worktree and the checks recorded in its meta.json are re-run; suite and demonstration are not
# repeated (SKIP_CONFIRM), meta.json keeps its confirmation and gets the new exit codes (UPDATE_META).
# One line per seed in /tmp/reseed3-<lane>.log.
cd /verif/seeded || exit 1
names=($(ls -d ${1:-*}/ | tr -d /))
lanes=(1 2 3 5 6 7)
for li in 0 1 2 3 4 5; do
  lane=${lanes[$li]}
  (
    i=0
    for n in "${names[@]}"; do
      i=$((i+1)); [ $((i % 6)) -eq $li ] || continue
      P=$(python3 -c "import json;print(json.load(open('/verif/seeded/$n/meta.json'))['property'])" 2>/dev/null) || continue
      CH=$(python3 -c "import json;m=json.load(open('/verif/seeded/$n/meta.json'));print(' '.join(sorted(set(list(m.get('check_exit_codes',{}).keys())+[m['property']]))))" 2>/dev/null)
      out=$(SKIP_CONFIRM=1 UPDATE_META=1 /verif/seedtest2.sh $lane /verif/seeded/$n $n $P $CH 2>&1)
      codes=$(echo "$out" | grep -o "check C[0-9]* -> exit [0-9]*" | awk '{printf "%s=%s ", $2, $NF}')
      echo "$n prop=$P ${codes:-apply-failed}"
    done
    echo "LANE $lane DONE"
  ) > /tmp/reseed3-$lane.log 2>&1 &
done
wait
