#!/bin/bash
# setup_cmd: offline toolchain sanity + warm the build cache (plain and -race harness builds).
set -e
cd "$(dirname "$0")/harness"
export GOFLAGS=-mod=mod GOPROXY=off GOSUMDB=off GOTOOLCHAIN=local CGO_ENABLED=1
mkdir -p ../bin ../evidence ../replays
go version
go build -tags verif -o ../bin/vcheck ./cmd/vcheck
go build -race -tags verif -o ../bin/vcheck-race ./cmd/vcheck
echo "setup ok: $(../bin/vcheck -list | tr '\n' ' ')"
